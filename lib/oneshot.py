"""Engines whose scenarios are one-shot observations: each scenario line yields one event
line; all events are validated against a Layer-A trace specification."""
import concurrent.futures as cf
import os

from vlib import ToolError, DriverDied, run_driver, validate_trace, workdir, write_jsonl, read_jsonl, NCPU


def _harness_own_failure(msg):
    """The driver's top level caught a panic ("internal error", exit status 2) that was raised in the harness's own sources
    (an assertion of the driver, a scenario it cannot read): a tooling failure, never an observation about the code under
    test.  A panic whose location is in the tree under test, a signal, an abort or any other exit status is an observation."""
    return "internal error" in msg and "/repo/" not in msg and "driver timed out" not in msg


def run_oneshot(rep, pid, name, subcmd, scenarios, templates, seed, module, nproc=None, pre_args=None,
                only_prefixes=None):
    if not scenarios:
        return []
    wd = workdir(pid, "run-" + name, clean=True)
    nproc = nproc or min(NCPU, max(1, len(scenarios) // 40))
    parts = [scenarios[i::nproc] for i in range(nproc)]
    parts = [p for p in parts if p]

    def one(i_part):
        i, part = i_part
        sp = os.path.join(wd, "scn%d.jsonl" % i)
        tp = os.path.join(wd, "out%d.ndjson" % i)
        write_jsonl(sp, part)
        try:
            run_driver([subcmd] + (pre_args or [templates]) + [sp, tp], env={"VERIF_SEED": seed})
            evs = read_jsonl(tp)
        except DriverDied as first:
            # the driver process died (an abort, e.g. a panic that crossed the C boundary, or a failed allocation): run the
            # scenarios of this part one per process; a scenario that kills its process is recorded as data, not as a tool error
            evs = []
            for k, scn in enumerate(part):
                s1, t1 = os.path.join(wd, "one%d_%d.jsonl" % (i, k)), os.path.join(wd, "one%d_%d.ndjson" % (i, k))
                write_jsonl(s1, [scn])
                try:
                    run_driver([subcmd] + (pre_args or [templates]) + [s1, t1], env={"VERIF_SEED": seed})
                    evs.extend(read_jsonl(t1))
                except DriverDied as e:
                    if _harness_own_failure(str(e)):
                        raise
                    evs.append({"ev": "crash", "id": scn.get("id", ""), "op": scn.get("op", ""), "prop": pid, "what": str(e)[-300:]})
                for f in (s1, t1):
                    if os.path.exists(f):
                        os.unlink(f)
            if not any(e.get("ev") == "crash" for e in evs) and _harness_own_failure(str(first)):
                raise first
            if not any(e.get("ev") == "crash" for e in evs):
                # every scenario passes on its own, the sequence in one process does not: a failure that depends on what
                # the process did before (state kept between calls)
                evs.append({"ev": "crash", "id": "%s..%s (only as a sequence in one process)" % (part[0].get("id", ""), part[-1].get("id", "")),
                            "op": "sequence", "prop": pid, "what": str(first)[-300:]})
            write_jsonl(tp, evs)
        v = validate_trace(pid, "%s-%d" % (name, i), module, tp, len(evs))
        return i, part, tp, evs, v

    results = []
    with cf.ThreadPoolExecutor(max_workers=min(len(parts), NCPU)) as ex:
        for r in ex.map(one, list(enumerate(parts))):
            results.append(r)
    allevs = []
    for i, part, tp, evs, v in results:
        rep.add_trace_run("%s-%d" % (name, i), v, len(evs), len(evs))
        allevs.extend(evs)
        for (ln, pred) in v["viols"]:
            if pred.startswith("TOOL_"):
                raise ToolError("trace tooling mismatch %s at %s:%d" % (pred, tp, ln))
            if only_prefixes and not any(pred.startswith(p) for p in only_prefixes):
                # a predicate that belongs to another property's check (recorded there)
                if pred not in rep.extra.setdefault("other_property_predicates_seen", []):
                    rep.extra["other_property_predicates_seen"].append(pred)
                continue
            ev = evs[ln - 1] if 0 < ln <= len(evs) else None
            scn = None
            if ev is not None:
                for s in part:
                    if s.get("id") == ev.get("id"):
                        scn = s
            tag = (" " + scn["tag"]) if scn and scn.get("tag") else ""
            rep.violation("%s id=%s%s" % (pred, ev.get("id") if ev else "?", tag),
                          {"engine": subcmd, "module": module, "predicate": pred, "scenario": scn, "observed": ev})
    return allevs
