"""Engines whose scenarios are one-shot observations: each scenario line yields one event
line; all events are validated against a Layer-A trace specification."""
import concurrent.futures as cf
import os

from vlib import ToolError, run_driver, validate_trace, workdir, write_jsonl, read_jsonl, NCPU


def run_oneshot(rep, pid, name, subcmd, scenarios, templates, seed, module, nproc=None, pre_args=None,
                only_prefixes=None):
    if not scenarios:
        return []
    wd = workdir(pid, "run-" + name, clean=True)
    nproc = nproc or min(NCPU, max(1, len(scenarios) // 40))
    parts = [scenarios[i::nproc] for i in range(nproc)]
    parts = [p for p in parts if p]

    def one(i_part):
        i, part = i_part
        sp = os.path.join(wd, "scn%d.jsonl" % i)
        tp = os.path.join(wd, "out%d.ndjson" % i)
        write_jsonl(sp, part)
        run_driver([subcmd] + (pre_args or [templates]) + [sp, tp], env={"VERIF_SEED": seed})
        evs = read_jsonl(tp)
        v = validate_trace(pid, "%s-%d" % (name, i), module, tp, len(evs))
        return i, part, tp, evs, v

    results = []
    with cf.ThreadPoolExecutor(max_workers=min(len(parts), NCPU)) as ex:
        for r in ex.map(one, list(enumerate(parts))):
            results.append(r)
    allevs = []
    for i, part, tp, evs, v in results:
        rep.add_trace_run("%s-%d" % (name, i), v, len(evs), len(evs))
        allevs.extend(evs)
        for (ln, pred) in v["viols"]:
            if pred.startswith("TOOL_"):
                raise ToolError("trace tooling mismatch %s at %s:%d" % (pred, tp, ln))
            if only_prefixes and not any(pred.startswith(p) for p in only_prefixes):
                # a predicate that belongs to another property's check (recorded there)
                if pred not in rep.extra.setdefault("other_property_predicates_seen", []):
                    rep.extra["other_property_predicates_seen"].append(pred)
                continue
            ev = evs[ln - 1] if 0 < ln <= len(evs) else None
            scn = None
            if ev is not None:
                for s in part:
                    if s.get("id") == ev.get("id"):
                        scn = s
            tag = (" " + scn["tag"]) if scn and scn.get("tag") else ""
            rep.violation("%s id=%s%s" % (pred, ev.get("id") if ev else "?", tag),
                          {"engine": subcmd, "module": module, "predicate": pred, "scenario": scn, "observed": ev})
    return allevs
