"""Process-level harness for the real `kestrel` binary (the working tree's CLI sources linked
against the working tree's crypto crate) and helpers that go through the driver for key
material built from the specification's terms."""
import json
import os
import shutil
import subprocess
import tempfile
import threading
import time

from vlib import KESTREL, KDRV, WORK, ToolError, run_driver, write_jsonl, read_jsonl, workdir


class Run:
    def __init__(self, rc, out, err, timed_out=False):
        self.rc = rc
        self.out = out
        self.err = err
        self.timed_out = timed_out

    @property
    def err_text(self):
        return self.err.decode("utf-8", "replace")

    @property
    def has_error_line(self):
        """An error message on stderr.  The tree writes "Error: ..." lines; the property only says "an error message", so any
        line that announces an error counts, and so does any text at all on stderr of a run that exited non-zero."""
        import re
        lines = self.err_text.splitlines()
        if any(re.match(r"(?i)^\W*(kestrel:\s*)?(error|fatal)\b", l) for l in lines):
            return True
        return self.rc not in (0, None) and any(l.strip() for l in lines)

    def brief(self):
        return {"rc": self.rc, "stderr": self.err_text[-400:], "stdout_len": len(self.out), "timed_out": self.timed_out}


def kestrel(args, env=None, stdin=b"", timeout=60, cwd=None, stdout_path=None, stdin_path=None, raw_env=None, setsid=False,
            stdout_closed=False, rlimit_as=None, stdin_pieces=None, stderr_path=None):
    """Run the CLI with a clean environment.  stdin is a pipe (never a terminal).  raw_env: further variables given as
    bytes (values that are not UTF-8); setsid: in a session of its own, i.e. without a controlling terminal."""
    e = {"PATH": "/usr/bin:/bin", "HOME": "/nonexistent", "LANG": "C.UTF-8"}
    if env:
        e.update(env)
    if raw_env:
        e = {os.fsencode(k): os.fsencode(v) for k, v in e.items()}
        e.update(raw_env)
    if "/dev/full" in (stdout_path, stderr_path):
        full_device()                 # raises when /dev/full is not the device it should be
    fin = open(stdin_path, "rb") if stdin_path else None
    fout = open(stdout_path, "wb") if stdout_path else None
    if stdout_closed:
        # a pipe whose reading end is already closed: every write fails with EPIPE (Rust ignores SIGPIPE)
        rfd, wfd = os.pipe()
        os.close(rfd)
        fout = os.fdopen(wfd, "wb")
    if stdin_pieces and not fin:
        # stdin is fed in pieces of this many bytes with pauses in between, the way a slow producer feeds a pipe: the tool's
        # reads come back short long before end of input
        pre = (lambda: __import__("resource").setrlimit(__import__("resource").RLIMIT_AS, (rlimit_as, rlimit_as))) if rlimit_as else None
        pr = subprocess.Popen([KESTREL] + list(args), stdin=subprocess.PIPE, stdout=fout if fout else subprocess.PIPE, stderr=subprocess.PIPE,
                              env=e, cwd=cwd, start_new_session=setsid, preexec_fn=pre)

        def feed():
            try:
                for o in range(0, len(stdin), stdin_pieces):
                    pr.stdin.write(stdin[o:o + stdin_pieces])
                    pr.stdin.flush()
                    time.sleep(0.004)
            except (BrokenPipeError, OSError):
                pass
            finally:
                try:
                    pr.stdin.close()
                except OSError:
                    pass
        th = threading.Thread(target=feed, daemon=True)
        th.start()
        try:
            out, err = b"", b""
            # communicate() would write stdin itself; read the two pipes with threads instead
            bufs = {}

            def drain(nm, f):
                bufs[nm] = f.read() if f else b""
            t1 = threading.Thread(target=drain, args=("o", pr.stdout if not fout else None), daemon=True)
            t2 = threading.Thread(target=drain, args=("e", pr.stderr), daemon=True)
            t1.start()
            t2.start()
            pr.wait(timeout=timeout)
            t1.join(5)
            t2.join(5)
            th.join(5)
            return Run(pr.returncode, bufs.get("o", b""), bufs.get("e", b""))
        except subprocess.TimeoutExpired:
            pr.kill()
            return Run(-999, b"", b"", timed_out=True)
        finally:
            if fout:
                fout.close()
    ferr = open(stderr_path, "wb") if stderr_path else None      # e.g. /dev/full: nothing can be reported
    try:
        p = subprocess.run([KESTREL] + list(args), input=None if fin else stdin, stdin=fin,
                           stdout=fout if fout else subprocess.PIPE, stderr=ferr if ferr else subprocess.PIPE,
                           env=e, timeout=timeout, cwd=cwd, start_new_session=setsid,
                           preexec_fn=(lambda: __import__("resource").setrlimit(__import__("resource").RLIMIT_AS, (rlimit_as, rlimit_as))) if rlimit_as else None)
        return Run(p.returncode, p.stdout if not fout else b"", p.stderr if not ferr else b"")
    except subprocess.TimeoutExpired as ex:
        return Run(-999, b"", (ex.stderr or b""), timed_out=True)
    finally:
        if ferr:
            ferr.close()
        if fin:
            fin.close()
        if fout:
            fout.close()


def full_device(directory=None):
    """Path of a character device on which every write fails with ENOSPC.  Inside `directory` a private node (major 1,
    minor 7) is made where the file system allows it, so that code under test that removes or replaces its output path
    cannot damage the machine's /dev/full; /dev/full itself is checked to BE that device (a regular file of that name
    would silently accept everything)."""
    import stat
    if directory is not None:
        p = os.path.join(directory, "full-device")
        try:
            if not os.path.exists(p):
                os.mknod(p, 0o666 | stat.S_IFCHR, os.makedev(1, 7))
            fd = os.open(p, os.O_WRONLY)
            try:
                os.write(fd, b"x")
                ok = False
            except OSError:
                ok = True
            finally:
                os.close(fd)
            if ok:
                return p
            os.unlink(p)
        except OSError:
            pass
    st = os.stat("/dev/full")
    if not stat.S_ISCHR(st.st_mode) or os.major(st.st_rdev) != 1 or os.minor(st.st_rdev) != 7:
        from vlib import ToolError
        raise ToolError("/dev/full is not the full device (mode %o): restore it with `rm -f /dev/full; mknod -m 666 /dev/full c 1 7`" % st.st_mode)
    return "/dev/full"


class Sandbox:
    """A scratch directory under /verif/work, removed on exit."""

    def __init__(self, pid, tag="cli"):
        base = workdir(pid, "sandboxes")
        self.dir = tempfile.mkdtemp(prefix=tag + "-", dir=base)

    def path(self, name):
        return os.path.join(self.dir, name)

    def write(self, name, data):
        p = self.path(name)
        with open(p, "wb") as f:
            f.write(data if isinstance(data, bytes) else data.encode())
        return p

    def read(self, name):
        p = self.path(name)
        if not os.path.exists(p):
            return None
        with open(p, "rb") as f:
            return f.read()

    def close(self):
        shutil.rmtree(self.dir, ignore_errors=True)

    def __enter__(self):
        return self

    def __exit__(self, *a):
        self.close()


_OPSEQ = [0]
_OPLOCK = threading.Lock()


def driver_ops(pid, templates, ops, seed, name="ops"):
    """Run one-shot driver ops (mkkey, open, unlock, ...) and return their outputs."""
    wd = workdir(pid, "ops")
    with _OPLOCK:
        _OPSEQ[0] += 1
        n = _OPSEQ[0]
    sp = os.path.join(wd, "%s-%d.jsonl" % (name, n))
    op = os.path.join(wd, "%s-%d.out" % (name, n))
    write_jsonl(sp, ops)
    run_driver(["noise", templates, sp, op], env={"VERIF_SEED": seed})
    out = read_jsonl(op)
    os.unlink(sp)
    os.unlink(op)
    return out


_KEYCACHE = {}


def make_keys(pid, templates, seed, specs):
    """specs: list of (label, password bytes).  Returns {label: {sk_hex, pk_hex, pub_enc, locked, password}}
    built from the specification's LockedKey / EncodedPub terms."""
    with _KEYLOCK:
        return _make_keys(pid, templates, seed, specs)


_KEYLOCK = threading.Lock()


def _make_keys(pid, templates, seed, specs):
    need = [(l, pw) for (l, pw) in specs if (seed, l, pw) not in _KEYCACHE]
    if need:
        outs = driver_ops(pid, templates, [{"op": "mkkey", "label": l, "password_hex": pw.hex()} for (l, pw) in need], seed, "mkkey")
        for (l, pw), o in zip(need, outs):
            o["password"] = pw
            _KEYCACHE[(seed, l, pw)] = o
    return {l: _KEYCACHE[(seed, l, pw)] for (l, pw) in specs}


def keyring_text(entries):
    """entries: list of (name, key dict, with_private)"""
    out = ""
    for (name, k, priv) in entries:
        out += "[Key]\nName = %s\nPublicKey = %s\n" % (name, k["pub_enc"])
        if priv:
            out += "PrivateKey = %s\n" % k["locked"]
        out += "\n"
    return out
