"""Checks of the CLI engine: C12, C13 (configurations of Cli.tla), C09 (argv + byte surfaces),
C14, C16 (histories)."""
import base64
import concurrent.futures as cf
import json
import os
import re

import cli
import stream as st
from oneshot import run_oneshot
from vlib import Report, ToolError, build_harness, run_tlc, validate_trace, workdir, write_jsonl, NCPU

CLI_INV = ["NoClobber", "PrefixOnLaterFailure", "ExitTruthful", "MatchesContract"]
LOW_ORDER_PK = bytes.fromhex("e0eb7a7c3b41b8ae1656e3faf19fc46ada098deb9c32b1fd866205165f49b800")


def cli_cfg(variant, invs, termination=True):
    s = 'SPECIFICATION Spec\nCONSTANT Variant = "%s"\n' % variant
    for i in invs:
        s += "INVARIANT %s\n" % i
    if termination:
        s += "PROPERTY Termination\n"
    s += "CHECK_DEADLOCK FALSE\n"
    return s


class World:
    """Keys and files every configuration draws from (built once per check run, from the
    specification's terms: independent of the tree's encryptor and keyring code)."""

    def __init__(self, pid, tpl, seed):
        self.pid, self.tpl, self.seed = pid, tpl, seed
        self.keys = cli.make_keys(pid, tpl, seed, [("alice", b"alice-pw"), ("bob", b"bob-pw"), ("carol", b"carol-pw")])
        import hashlib
        lo = LOW_ORDER_PK + hashlib.sha256(LOW_ORDER_PK).digest()[:4]
        self.lo_enc = base64.b64encode(lo).decode()
        self.dir = workdir(pid, "world", clean=True)
        ops = []
        self.P2 = None
        for tag, rpub in (("tobob", self.keys["bob"]["pk_hex"]), ("tocarol", self.keys["carol"]["pk_hex"])):
            ops.append({"op": "specfile", "api": "key", "chunks": [65536, 1000], "pseed": 9, "s_priv_hex": self.keys["alice"]["sk_hex"],
                        "r_pub_hex": rpub, "tag": tag, "out": os.path.join(self.dir, tag + ".ktl")})
        ops.append({"op": "specfile", "api": "pass", "chunks": [65536, 1000], "pseed": 9, "password_hex": b"file-pw".hex(),
                    "tag": "pw", "out": os.path.join(self.dir, "pw.ktl")})
        # further plaintext sizes for successful runs: empty, and exactly one full chunk
        # ... and a text whose first line ends early and whose second line runs on for two chunks without a newline (what a
        # line-buffered stdout treats differently from binary data)
        for sz, chunks in (("empty", [0]), ("exact", [65536]), ("longline", [65536, 30000])):
            fill = "longline" if sz == "longline" else "prng"
            ops.append({"op": "specfile", "api": "key", "chunks": chunks, "pseed": 11, "fill": fill, "s_priv_hex": self.keys["alice"]["sk_hex"],
                        "r_pub_hex": self.keys["bob"]["pk_hex"], "tag": "k" + sz, "out": os.path.join(self.dir, "k%s.ktl" % sz)})
            ops.append({"op": "specfile", "api": "pass", "chunks": chunks, "pseed": 11, "fill": fill, "password_hex": b"file-pw".hex(),
                        "tag": "p" + sz, "out": os.path.join(self.dir, "p%s.ktl" % sz)})
        cli.driver_ops(pid, tpl, ops, seed, "world")
        rd = lambda n: open(os.path.join(self.dir, n), "rb").read()
        self.sizes = {sz: {"plain": rd("k%s.ktl.plain" % sz), "ckey": rd("k%s.ktl" % sz), "cpass": rd("p%s.ktl" % sz)}
                      for sz in ("empty", "exact", "longline")}
        assert len(self.sizes["empty"]["plain"]) == 0 and len(self.sizes["exact"]["plain"]) == 65536
        self.P2 = open(os.path.join(self.dir, "tobob.ktl.plain"), "rb").read()
        self.ckey = open(os.path.join(self.dir, "tobob.ktl"), "rb").read()
        self.ckey_carol = open(os.path.join(self.dir, "tocarol.ktl"), "rb").read()
        self.cpass = open(os.path.join(self.dir, "pw.ktl"), "rb").read()

    def other_pub_enc(self, n):
        """A further public key (a keyring may not hold the same key twice)."""
        import hashlib
        pk = hashlib.sha256(b"case-decoy-%d-%d" % (self.seed, n)).digest()
        return base64.b64encode(pk + hashlib.sha256(pk).digest()[:4]).decode()

    def fillers(self, n=400):
        """n further public-key entries (random keys, distinct names): 'forall keyrings' includes large ones, and the
        sender look-up has to pick the one entry whose key EQUALS the authenticated key among many others."""
        import hashlib
        import random
        rnd = random.Random(self.seed * 7919 + 13)
        # an entry nobody uses whose checksum does not match: the parser accepts it (only the shape is checked), and it
        # must stay harmless for operations that do not use it
        pk0 = bytes(rnd.getrandbits(8) for _ in range(32))
        out = "[Key]\nName = unused entry with a wrong checksum\nPublicKey = %s\n\n" % base64.b64encode(pk0 + b"\x00\x01\x02\x03").decode()
        for i in range(n):
            pk = bytes(rnd.getrandbits(8) for _ in range(32))
            enc = base64.b64encode(pk + hashlib.sha256(pk).digest()[:4]).decode()
            out += "[Key]\nName = filler %d\nPublicKey = %s\n\n" % (i, enc)
        return out

    def keyring(self, sender_pos="first", bob_private=True, alice_private=True, with_lo=True, fill=True, huge=False):
        """huge: more than a megabyte of further entries (no bound on the size of a keyring is part of the format; whatever
        comes late in the file counts like what comes first)."""
        k = self.keys
        ents = []
        alice = ("alice", k["alice"], alice_private)
        others = [("bob", k["bob"], bob_private), ("carol", k["carol"], True)]
        if huge:
            if not hasattr(self, "_huge"):
                self._huge = self.fillers(14000)
            filler = self._huge
        else:
            filler = self.fillers() if fill else ""
        # names that differ from the real ones only in letter case are other names, bound to other keys
        decoys = "[Key]\nName = BOB\nPublicKey = %s\n\n[Key]\nName = Alice\nPublicKey = %s\n\n" % (self.other_pub_enc(1), self.other_pub_enc(2))
        # entries whose encoded key is NOT the sender's but close to it in ways an inexact comparison confuses: two characters
        # transposed (same multiset of characters), reversed, letter case swapped, same first 40 / last 40 characters.  The
        # parser takes them (only the shape of an unused entry is checked); they come before the real entry and name nobody
        enc_a = k["alice"]["pub_enc"]
        i0 = next(i for i in range(len(enc_a) - 1) if enc_a[i] != enc_a[i + 1])
        o3 = self.other_pub_enc(3)
        near = [enc_a[:i0] + enc_a[i0 + 1] + enc_a[i0] + enc_a[i0 + 2:], enc_a[::-1], enc_a.swapcase(), enc_a[:40] + o3[40:], o3[:8] + enc_a[8:]]
        for n_, e_ in enumerate(near):
            if e_ != enc_a:
                decoys += "[Key]\nName = near alice %d\nPublicKey = %s\n\n" % (n_, e_)
        if sender_pos == "badsum":
            # alice's 32 key bytes with a checksum that does not match: not a usable key, names nobody
            enc = k["alice"]["pub_enc"]
            bad = enc[:-1] + ("A" if enc[-1] != "A" else "B")
            text = decoys + "[Key]\nName = alice\nPublicKey = %s\n\n" % bad + cli.keyring_text(others) + filler
        elif sender_pos == "first":
            text = decoys + cli.keyring_text([alice] + others) + filler
        elif sender_pos == "last":
            text = decoys + cli.keyring_text(others) + filler + cli.keyring_text([alice])
        else:
            text = decoys + cli.keyring_text(others) + filler
        if with_lo:
            text += "[Key]\nName = lo\nPublicKey = %s\n" % self.lo_enc
        return text


def corrupt(data, cause, hdr):
    """The input file for a failure cause (two-chunk files: 65536 + 1000 bytes)."""
    b = bytearray(data)
    r2 = hdr + 32 + 65536        # start of the second record
    if cause == "bad_header":
        b[0:4] = b"ABCD"
    elif cause == "corrupt_header":
        b[hdr - 10] ^= 0x04
    elif cause == "truncated_header":
        b = b[:hdr - 30]
    elif cause == "corrupt_first_chunk":
        b[hdr + 16 + 100] ^= 0x01
    elif cause == "truncated_first_chunk":
        b = b[:hdr + 16 + 500]
    elif cause == "corrupt_later_chunk":
        b[r2 + 16 + 5] ^= 0x80
    elif cause == "truncated_later_chunk":
        b = b[:r2 + 16 + 500]
    elif cause == "appended_data":
        b += b"extra"
    return bytes(b)


def run_config(w, c, idx, psize=None):
    """Concretise one configuration of CliContract, run the real binary, classify the outcome."""
    cmd, cause = c["cmd"], c["cause"]
    lng, alias = c["long"], c["alias"]
    env = {}
    with cli.Sandbox(w.pid, "cfg") as sb:
        # longer than anything a successful command writes, so that a missing truncation shows
        # (also longer than the authenticated prefix a later-chunk failure leaves behind)
        prior = b"PRIOR CONTENT OF THE OUTPUT PATH\n" * (4000 if cause in ("none", "corrupt_later_chunk", "truncated_later_chunk", "appended_data") else 3)
        out_path = sb.path("out.bin")
        # ---- input ----
        expected_full = None
        # successful runs rotate over plaintext sizes: two chunks, empty, exactly one full chunk
        if psize is None:
            # (mixed so that every size class meets every wiring, whatever the order of the configurations)
            psize = ("two", "empty", "exact", "longline")[(idx + idx // 4 + idx // 16 + idx // 64) % 4] if (cause == "none" and cmd != "key_generate") else "two"
        plain = w.P2 if psize == "two" else w.sizes[psize]["plain"]
        if cmd == "decrypt":
            data = w.ckey_carol if cause == "wrong_recipient" else (w.cpass if cause == "other_mode_file" else w.ckey)
            if psize != "two":
                data = w.sizes[psize]["ckey"]
            data = corrupt(data, cause, 132)
            expected_full = plain
        elif cmd == "pass_decrypt":
            data = w.ckey if cause == "other_mode_file" else w.cpass
            if psize != "two":
                data = w.sizes[psize]["cpass"]
            data = corrupt(data, cause, 36)
            expected_full = plain
        elif cmd in ("encrypt", "pass_encrypt"):
            data = plain
        else:
            data = b"newname\n" if cause != "empty_name" else b"\n"
        in_path = sb.path("in.bin")
        args = []
        if cmd == "encrypt":
            args.append("enc" if alias else "encrypt")
        elif cmd == "decrypt":
            args.append("dec" if alias else "decrypt")
        elif cmd in ("pass_encrypt", "pass_decrypt"):
            args.append("pass" if alias else "password")
            sub = "encrypt" if cmd == "pass_encrypt" else "decrypt"
            args.append(sub[:3] if alias else sub)
        else:
            args += ["key", "gen" if alias else "generate"]
        stdin = b""
        if cmd == "key_generate":
            stdin = data
        elif c["inp"] == "file":
            if cause == "input_read_error":
                os.mkdir(in_path)
            elif cause != "missing_input":
                if cause == "same_in_out":
                    in_path = out_path
                    prior = data
                elif cause == "none" and idx % 3 == 1:
                    # a file in the current directory whose NAME is a word of the command line (an alias, a command): a
                    # file argument is a file argument wherever it stands and whatever it is called
                    in_name = ["enc", "dec", "pass", "gen", "encrypt", "password", "key"][(idx // 3) % 7]
                    sb.write(in_name, data)
                    in_path = in_name
                else:
                    sb.write("in.bin", data)
            args.append(in_path)
        else:
            stdin = data
        if cmd == "key_generate" and cause == "same_in_out":
            pass
        # ---- options ----
        if cmd in ("encrypt", "decrypt"):
            to = "bob"
            if cause == "unknown_recipient":
                to = "nobody"
            if cause == "refused_exchange":
                to = "lo"
            args += ["--to" if lng else "-t", to]
            if cmd == "encrypt":
                args += ["--from" if lng else "-f", "nobody" if cause == "unknown_sender" else "alice"]
        if c.get("probe_from") and cmd == "decrypt":
            # an option the pinned tool does not have for decryption ("expect this sender"): refused, or - should a tool take
            # it - never a reason to name somebody who is not the holder of the authenticated key
            args += ["--from" if lng else "-f", "alice"]
        if cause == "bad_args":
            if cmd in ("encrypt", "decrypt") and idx % 2 == 0:
                # drop the required recipient option
                i = args.index("--to" if lng else "-t")
                del args[i:i + 2]
            else:
                args.append("--bogus")
        if cause == "output_dir_missing":
            out_path = sb.path("no-such-directory/out.bin")
        if cause == "output_device_full":
            out_path = cli.full_device(sb.dir)
        if cause == "output_is_directory":
            out_path = sb.path("outdir")
            os.mkdir(out_path)
        if cmd == "key_generate" and c["prior"] == "present" and cause not in ("same_in_out",):
            # what the existing file holds: free text, a keyring that already has a key of the name about to be generated, or
            # text that is no keyring at all - `key generate` appends to whatever is there, or fails and leaves it alone
            prior = [prior, (cli.keyring_text([("newname", w.keys["carol"], True)]) + "\n").encode(), b"[Key]\nName = broken section\n"][c.get("gprior", idx % 3)]
        if c["outp"] == "file":
            args += ["--output" if lng else "-o", out_path]
            if c["prior"] == "present":
                with open(out_path, "wb") as f:
                    f.write(prior)
        if cmd in ("encrypt", "decrypt"):
            huge = c.get("krsize", "normal") != "normal"
            krtext = w.keyring(sender_pos=c.get("alice_pos", c["sender"]),
                               bob_private=not (cmd == "decrypt" and cause == "no_private_key"),
                               alice_private=not (cmd == "encrypt" and cause == "no_private_key"), huge=huge)
            if cause == "malformed_keyring" and huge:
                # well-formed for more than a megabyte, then a section that repeats the name "bob" with another key; with
                # "huge_aligned" a comment pads the file so that a section ends exactly at byte 2^20
                if c["krsize"] == "huge_aligned":
                    cut = krtext.encode().rfind(b"\n\n[Key]", 0, 1048576 - 40)
                    head = krtext.encode()[:cut + 2]
                    pad = 1048576 - len(head) - 3
                    krtext = (head + b"# " + b"p" * pad + b"\n" + krtext.encode()[cut + 2:]).decode()
                    assert krtext.encode()[1048576:1048581] == b"[Key]"
                krtext = krtext.rstrip("\n") + "\n\n[Key]\nName = bob\nPublicKey = %s\n" % w.other_pub_enc(9)
            elif cause == "malformed_keyring" and c.get("krbad"):
                # an AMBIGUOUS keyring: a name bound to two keys (a key rotated with `key generate -o` under its old name),
                # or one key under two names; which entry a look-up would give is undefined, so the tool must refuse it
                k9 = w.keys
                other = "[Key]\nName = %s\nPublicKey = %s\n" % ("alice" if c["krbad"].startswith("dup_name") else "alias of alice",
                                                              w.other_pub_enc(7) if c["krbad"].startswith("dup_name") else k9["alice"]["pub_enc"])
                if c["krbad"] == "dup_name_bob":
                    other = "[Key]\nName = bob\nPublicKey = %s\n" % k9["carol"]["pub_enc"].replace(k9["carol"]["pub_enc"], w.other_pub_enc(8))
                krtext = (other + "\n" + krtext) if c["krbad"].endswith("_first") else (krtext.rstrip("\n") + "\n\n" + other)
            elif cause == "malformed_keyring":
                krtext = "[Key]\nName = x\nthis is not a keyring\n"
            kr_path = sb.path("keyring.txt")
            if cause == "non_utf8_keyring":
                # the valid keyring with one byte that makes it ill-formed UTF-8 (inside a comment line)
                sb.write("keyring.txt", b"# caf\xe9\n" + krtext.encode())
            elif cause == "keyring_is_directory":
                os.mkdir(kr_path)
            elif cause == "non_utf8_keyring_path":
                # the valid keyring, at a path whose name is not UTF-8; the variable is given as bytes further down
                kr_path = os.fsencode(sb.dir) + b"/keyr\xffing.txt"
                with open(kr_path, "wb") as f_:
                    f_.write(krtext.encode())
            elif cause != "missing_keyring":
                sb.write("keyring.txt", krtext)
            if cause == "non_utf8_keyring_path":
                kr_raw = kr_path
            elif c["kr"] in ("opt", "both"):
                args += ["--keyring" if lng else "-k", kr_path]
            else:
                env["KESTREL_KEYRING"] = kr_path
            if c["kr"] == "both":
                # the variable names another keyring in which the names mean other keys: "alice" is carol's public key,
                # alice's real key is called "mallory"; bob is the same (so decryption would succeed and name the wrong sender)
                k = w.keys
                sb.write("decoy.txt", cli.keyring_text([("alice", k["carol"], False), ("bob", k["bob"], True), ("mallory", k["alice"], False)]))
                env["KESTREL_KEYRING"] = sb.path("decoy.txt")
        if cause != "no_terminal":
            args.append("--env-pass")
        pw = {"encrypt": "alice-pw", "decrypt": "bob-pw", "pass_encrypt": "file-pw", "pass_decrypt": "file-pw",
              "key_generate": "gen-pw"}[cmd]
        if cause == "wrong_password":
            pw = "not-the-password"
        # a variable that only `key change-pass` reads; left over in the environment it must not matter to any other command
        env["KESTREL_NEW_PASSWORD"] = "stale new password"
        raw_env = None
        if cause == "non_utf8_keyring_path":
            raw_env = {b"KESTREL_KEYRING": kr_raw}
        if cause == "non_utf8_password":
            raw_env = {b"KESTREL_PASSWORD": b"p\xff\xfew"}
        elif cause != "unset_password":
            env["KESTREL_PASSWORD"] = pw
        # data on stdin arrives in one go or (every second stdin run) in 5000-byte pieces with pauses, like from a slow producer
        pieces = 5000 if (c["inp"] == "stdin" and cmd != "key_generate" and idx % 2 == 1 and len(stdin) > 5000) else None
        r = cli.kestrel(args, env=env, stdin=stdin, timeout=120, cwd=sb.dir, stdout_path="/dev/full" if cause == "stdout_full" else None,
                        raw_env=raw_env, setsid=(cause == "no_terminal"), stdout_closed=(cause == "stdout_closed"), stdin_pieces=pieces)
        # ---- classify the output ----
        if cause in ("output_device_full", "stdout_full", "stdout_closed", "input_read_error", "output_is_directory"):
            got = b"n/a"
        elif cause == "output_dir_missing":
            got = None if not os.path.exists(out_path) else b"created"
        elif c["outp"] == "file":
            got = sb.read("out.bin")
        else:
            got = r.out if (r.out or (r.rc == 0 and expected_full == b"")) else None
        if got == b"n/a":
            out = "n/a"
        elif got is None:
            out = "absent" if c["outp"] == "file" else "none"
        elif c["outp"] == "file" and c["prior"] == "present" and got == prior:
            out = "untouched"
        elif cmd in ("decrypt", "pass_decrypt"):
            out = "full" if got == expected_full else ("prefix1" if got == expected_full[:65536] else "other")
        elif cmd in ("encrypt", "pass_encrypt"):
            sb.write("produced.ktl", got)
            op = {"op": "golden", "id": "x", "api": "key" if cmd == "encrypt" else "pass", "path": sb.path("produced.ktl"),
                  "plain_hex": plain.hex()}
            if cmd == "encrypt":
                op.update({"r_priv_hex": w.keys["bob"]["sk_hex"], "s_pub_hex": w.keys["alice"]["pk_hex"]})
            else:
                op["password_hex"] = b"file-pw".hex()
            g = cli.driver_ops(w.pid, w.tpl, [op], w.seed, "produced")[0]
            out = "full" if (g["dec"] == "ok" and g["plain_ok"] and g["sender_ok"] and g["spec_ok"]) else "other"
        else:
            # key generate: the block for "newname", appended to what was there
            text = got.decode("utf-8", "replace")
            base = prior.decode() if (c["outp"] == "file" and c["prior"] == "present") else ""
            ms = re.findall(r"\[Key\]\nName = newname\nPublicKey = (\S+)\nPrivateKey = (\S+)\n", text)
            ok = False
            if ms:
                m1, m2 = ms[-1]          # the block this run appended (the file may already hold a key of that name)
                u = cli.driver_ops(w.pid, w.tpl, [{"op": "unlock", "locked": m2, "password_hex": b"gen-pw".hex()}], w.seed, "gen")[0]
                ok = u.get("ok") and u.get("pub_enc") == m1
            if ok and base and text.startswith(base):
                out = "appended"
            elif ok and not base:
                out = "full"
            elif ok:
                out = "other:block-without-old-contents"
            else:
                out = "other"
        errt = r.err_text
        named = "n/a"
        if cmd == "decrypt" and r.rc == 0:
            m = re.search(r"Success\. File from: (.*)", errt)
            u = re.search(r"Unknown key: (\S+)", errt)
            if m:
                named = "name" if m.group(1).strip() == "alice" and c["sender"] not in ("absent", "badsum") else "wrong_name"
            elif u:
                named = "unknown" if u.group(1) == w.keys["alice"]["pub_enc"] and c["sender"] in ("absent", "badsum") else "wrong_unknown"
            else:
                # other wording than the pinned tree's: what counts is WHAT is reported - the entry's name, or the encoding
                # of the authenticated key; another entry's name or another key's encoding is a wrong report
                has_name = re.search(r"(?<![\w-])alice(?![\w-])", errt) is not None
                has_enc = w.keys["alice"]["pub_enc"] in errt
                others = [n_ for n_ in re.findall(r"^Name = (.*)$", krtext, re.M) if n_ not in ("alice", "bob") and len(n_) >= 4]
                other_named = any(re.search(r"(?<![\w-])%s(?![\w-])" % re.escape(n_), errt) for n_ in others)
                other_enc = any(k_ != w.keys["alice"]["pub_enc"] and k_ in errt for k_ in re.findall(r"^PublicKey = (\S+)$", krtext, re.M))
                if c["sender"] in ("absent", "badsum"):
                    named = "unknown" if has_enc and not other_named else ("wrong_name" if (other_named or has_name) else "nothing")
                else:
                    named = "name" if has_name and not other_named and not other_enc else ("wrong_name" if other_named else ("wrong_unknown" if other_enc or has_enc else "nothing"))
        return {"ev": "cli", "id": "cfg%d" % idx, "cfg": c, "psize": psize, "args": [a if not a.startswith(sb.dir) else os.path.basename(a) for a in args],
                "exit": r.rc, "errline": r.has_error_line, "out": out, "named": named, "stderr": errt[-300:]}


def run_configs(rep, pid, name, w, configs, only_prefixes, psize=None):
    with cf.ThreadPoolExecutor(max_workers=NCPU) as ex:
        evs = list(ex.map(lambda ic: run_config(w, ic[1], ic[0], psize), list(enumerate(configs))))
    wd = workdir(pid, "run-" + name, clean=True)
    tp = os.path.join(wd, "trace.ndjson")
    write_jsonl(tp, evs)
    v = validate_trace(pid, name, "Trace_Cli", tp, len(evs))
    rep.add_trace_run(name, v, len(evs), len(evs))
    for (ln, pred) in v["viols"]:
        if pred.startswith("TOOL_"):
            raise ToolError("trace tooling mismatch %s: %s" % (pred, json.dumps(evs[ln - 1])[:500]))
        if not any(pred.startswith(p) for p in only_prefixes):
            if pred not in rep.extra.setdefault("other_property_predicates_seen", []):
                rep.extra["other_property_predicates_seen"].append(pred)
            continue
        e = evs[ln - 1]
        rep.violation("%s cmd=%s cause=%s prior=%s in=%s out=%s kr=%s long=%s alias=%s sender=%s"
                      % (pred, e["cfg"]["cmd"], e["cfg"]["cause"], e["cfg"]["prior"], e["cfg"]["inp"], e["cfg"]["outp"],
                         e["cfg"]["kr"], e["cfg"]["long"], e["cfg"]["alias"], e["cfg"]["sender"]),
                      {"engine": "cli", "observed": e})
    return evs


def tool_configs(cmds, causes, priors=("absent",)):
    """Configurations of CliContract for a tool-level clause of another property (C04, C10): default wiring plus
    stdin / long-option variants."""
    out = []
    for cmd in cmds:
        for cause in causes:
            if cause in ("input_read_error", "wrong_password") and cmd == "key_generate":
                continue
            if cause in ("corrupt_later_chunk", "truncated_later_chunk", "appended_data", "corrupt_first_chunk") and cmd not in ("decrypt", "pass_decrypt"):
                continue
            outp = "stdout" if cause in ("stdout_full", "stdout_closed") else "file"
            for inp, lng in (("file", False), ("stdin", True)):
                if cmd == "key_generate":
                    inp = "stdin"
                if cause == "input_read_error" and inp != "file":
                    continue
                for prior in priors:
                    if prior == "present" and (outp != "file" or cause in ("output_dir_missing", "output_device_full", "output_is_directory")):
                        continue
                    c = {"cmd": cmd, "cause": cause, "prior": prior, "inp": inp, "outp": outp, "kr": "opt", "long": lng, "alias": lng,
                         "sender": "first"}
                    if c not in out:
                        out.append(c)
    return out


def tool_clause(rep, pid, tpl, seed, cmds, causes, prefix, priors=("absent",)):
    w = World(pid, tpl, seed)
    cfgs = tool_configs(cmds, causes, priors)
    for c in cfgs:
        rep.case("tool:" + json.dumps(c, sort_keys=True), True)
    evs = run_configs(rep, pid, "tool", w, cfgs, [prefix])
    rep.extra["tool_level_runs"] = len(evs)
    return evs


def cli_models(rep, pid, negatives):
    res = run_tlc(pid, "cli-mc", "Cli", cli_cfg("none", CLI_INV + ["Emit"]), workers=1, timeout=600)
    rep.add_model("cli-mc", res, "every configuration of CliContract through the step model; C12/C13 invariants; emits configurations")
    if res.violated:
        raise ToolError("Cli model violates %s (model bug)" % res.violated)
    for v, inv in negatives:
        r = run_tlc(pid, "neg-" + v, "Cli", cli_cfg(v, CLI_INV, termination=False), workers=2, timeout=300)
        rep.add_model("neg-" + v, r, "deviation %s must break %s" % (v, inv))
        if r.violated not in inv:
            raise ToolError("negative variant %s: got %s" % (v, r.violated))
        rep.notes.append("deviation %s refuted by %s" % (v, r.violated))
    return [r["cfg"] for r in res.replays]


def c12(pid, tier, seed, selftest=False):
    rep = Report(pid, tier, seed)
    rep.rule = ("configurations {command} x {failure cause or none} x {file|stdin} x {-o|stdout} x {-k|KESTREL_KEYRING} x {long|short "
                "options} x {command|alias} x {sender first|last|absent in the keyring} enumerated by TLC from Cli.tla; each is "
                "materialised (keys, keyrings and ciphertexts built from the specification's terms), run with the real binary, and "
                "exit status, 'Error:' line, output bytes (vs the original plaintext / specification-directed opening of produced "
                "files) and the 'File from' / 'Unknown key' line validated against CliContract!Expected, which depends only on "
                "the abstract request; non-trivial = any wiring other than file/-o/-k/short/full-name, or a failure cause")
    rep.assumptions = ["configurations use a piped stdin and --env-pass; the interactive paths are exercised separately on a pseudo-terminal "
                       "(Prompt.tla): typed scripts of right / wrong / mismatching passwords ended by Ctrl-C"]
    build_harness()
    tpl, tres = st.get_templates(pid)
    rep.add_model("terms", tres, "byte-layout templates")
    thorough = tier == "thorough"
    negs = [("ExitZeroOnError", ["PrefixOnLaterFailure", "ExitTruthful", "MatchesContract"]),
            ("FirstEntryIsSender", ["MatchesContract"])] if (thorough or selftest) else []
    configs = cli_models(rep, pid, negs)
    # C12: all wirings for decrypt x {valid, each corruption class, wrong key, wrong password}; a slice for the others
    input_classes = {"none", "corrupt_first_chunk", "corrupt_later_chunk", "truncated_later_chunk", "appended_data", "wrong_recipient",
                     "wrong_password", "truncated_header", "bad_header"}
    sel = []
    for c in configs:
        if c["cmd"] == "decrypt" and c["cause"] in input_classes and c["prior"] == "absent":
            if thorough or c["sender"] == "first" or (c["cause"] == "none"):
                sel.append(c)
        elif c["cmd"] != "decrypt" and c["prior"] == "absent" and c["cause"] in ("none", "wrong_password", "unset_password", "bad_args"):
            if thorough or (c["long"] == c["alias"]):
                sel.append(c)
        elif c["cause"] in ("output_dir_missing", "output_device_full", "stdout_full", "stdout_closed", "output_is_directory"):
            # the output cannot be written: not completed, exit 1 with a message
            if thorough or (c["long"] == c["alias"] and c["sender"] == "first" and c["kr"] == "opt" and c["inp"] == "file") or c["cmd"] == "key_generate":
                sel.append(c)
        elif c["cause"] == "none" and c["prior"] == "present" and c["outp"] == "file":
            # success onto a pre-existing (longer) output file: the result must be exactly the new output
            if thorough or (c["long"] == c["alias"] and c["sender"] == "first" and c["kr"] == "opt"):
                sel.append(c)
    w = World(pid, tpl, seed)
    for c in sel:
        triv = (c["cause"] == "none" and c["inp"] == "file" and c["outp"] == "file" and c["kr"] == "opt" and not c["long"] and not c["alias"])
        rep.case(json.dumps(c, sort_keys=True), not triv)
    evs = run_configs(rep, pid, "cfg", w, sel, ["C12_"])
    rep.sample(evs[0])
    rep.sample(evs[len(evs) // 2])
    rep.extra["configurations_run"] = len(sel)
    rep.extra["exit0"] = sum(1 for e in evs if e["exit"] == 0)
    rep.exhaustive = thorough
    # the same clauses with the password typed on a terminal instead of taken from the environment
    tty_extension(rep, pid, tpl, seed, thorough, ["C12_", "C16_", "C09_"], negatives=(thorough or selftest))
    return rep.finish()


def c13(pid, tier, seed, selftest=False):
    rep = Report(pid, tier, seed)
    rep.rule = ("every (command writing an output file) x (failure cause C13 lists, plus later-chunk failures) x (output path absent | "
                "present with content), enumerated by TLC from Cli.tla with the invariants NoClobber / PrefixOnLaterFailure, run with "
                "the real binary; existence and bytes of the output path before/after and the exit status validated against "
                "CliContract!Expected; the refused key exchange uses a keyring entry holding a low-order public key with a valid "
                "checksum; non-trivial = every run (each has a failure cause)")
    rep.assumptions = ["failure causes are injected through arguments, environment and file contents; I/O errors of the file system itself are not injected"]
    build_harness()
    tpl, tres = st.get_templates(pid)
    rep.add_model("terms", tres, "byte-layout templates")
    thorough = tier == "thorough"
    negs = [("EagerCreate", ["NoClobber"]), ("HeaderBeforePassword", ["NoClobber"])] if (thorough or selftest) else []
    configs = cli_models(rep, pid, negs)
    sel = []
    for c in configs:
        if c["cause"] == "none" or c["outp"] != "file":
            continue
        if thorough or (c["long"] is False and c["alias"] is False and c["sender"] == "first"
                        and (c["kr"] == "opt" or (c["cause"] == "non_utf8_keyring_path" and c["kr"] == "env"))):
            sel.append(c)
    # `key generate -o F` onto existing files of every kind (free text, a keyring that already has that name, a broken
    # section): it either appends and succeeds, or fails and leaves F as it was
    for gp in (0, 1, 2):
        for lng in (False, True):
            sel.append({"cmd": "key_generate", "cause": "none", "prior": "present", "inp": "stdin", "outp": "file", "kr": "opt", "long": lng, "alias": lng,
                        "sender": "first", "gprior": gp})
    w = World(pid, tpl, seed)
    for c in sel:
        rep.case(json.dumps(c, sort_keys=True), True)
    evs = run_configs(rep, pid, "cfg", w, sel, ["C13_", "C12_exit", "C12_error"])
    rep.sample(evs[0])
    rep.sample(evs[-1])
    rep.extra["configurations_run"] = len(sel)
    rep.extra["causes"] = sorted(set(c["cause"] for c in sel))
    # the user backing out at a password prompt (Ctrl-C) or a wrong old password: nothing created or clobbered
    tty_extension(rep, pid, tpl, seed, thorough, ["C13_"], only_failures=True)
    return rep.finish()


# --------------------------------------------------------------------------
# C14, C16: histories from KeyLife.tla
# --------------------------------------------------------------------------

def life_cfg(maxops, variant, invs):
    s = 'SPECIFICATION Spec\nCONSTANTS\n  MaxOps = %d\n  Variant = "%s"\n' % (maxops, variant)
    for i in invs:
        s += "INVARIANT %s\n" % i
    s += "CHECK_DEADLOCK FALSE\n"
    return s


GEN_PASSWORDS = ["gen-pw-1", "", "päss wörd", "x" * 200, " leading blank", "trailing blank ", "tab at the end\t", "  "]


def initial_file(w, kind):
    base = cli.keyring_text([("alice", w.keys["alice"], True), ("bob", w.keys["bob"], True)])
    if kind == "absent":
        return None
    if kind == "empty":
        return b""
    if kind == "keyring_nl":
        return base.encode()
    if kind == "keyring_no_nl":
        return base.rstrip("\n").encode()
    if kind == "keyring_comments":
        return ("# my keys\n\n" + base + "# end of file, no newline").encode()
    raise ValueError(kind)


def exec_gen_history(w, hid, initial, n, vias=None):
    """n x `kestrel key generate -o F --env-pass` on one file; after each step the contract's observations.  vias: by which of
    its names the file is given at each step (KeyLife!PathKinds)."""
    evs = []
    vias = list(vias or ["direct"] * n)
    with cli.Sandbox(w.pid, "gen") as sb:
        f_direct = sb.path("keyring.txt")
        init = initial_file(w, initial)
        if init is not None:
            sb.write("keyring.txt", init)
        os.symlink("keyring.txt", sb.path("link.txt"))
        os.mkdir(sb.path("sub"))
        names = []
        pws = []
        for k in range(n):
            # names accepted by key generation, including the longest ones (128 bytes, ASCII and multi-byte) and the shortest
            suffix = "%s.%d" % (hid, k)
            fill = 128 - len(suffix)
            special = ["[Key] %s", "# hash %s", "a=b %s", "Name = x %s", "= %s", "PublicKey = zzz %s", "tab\tin %s"][(k + int(hid[1:])) % 7] % suffix
            name = ["gen key %d %s" % (k, hid), suffix.ljust(128, "x"), "é" * (fill // 2) + "x" * (fill % 2) + suffix,
                    "%s%d" % (hid[-1], k), special][(k + int(hid[1:])) % 5]
            if k >= 1 and (k + int(hid[1:])) % 4 == 1 and names[k - 1].swapcase() != names[k - 1] and len(names[k - 1].swapcase().encode()) <= 128:
                # a name that differs from the previous one only in letter case is another name, for another key
                name = names[k - 1].swapcase()
            assert len(name.encode()) <= 128
            pw = GEN_PASSWORDS[(k + 3 * int(hid[1:])) % len(GEN_PASSWORDS)]
            before = sb.read("keyring.txt")
            via = vias[k]
            if via == "symlink":
                f = sb.path("link.txt")
            elif via == "dotdot":
                f = sb.path("sub") + "/../keyring.txt"
            elif via == "hardlink" and before is not None:
                f = sb.path("hard.txt")
                if not os.path.exists(f):
                    os.link(f_direct, f)
            else:
                f = f_direct
            genv = {"KESTREL_PASSWORD": pw}
            if (k + int(hid[1:])) % 2:
                genv["KESTREL_NEW_PASSWORD"] = "stale new password"      # only change-pass reads it
            # how the line with the name ends: Enter, CR LF, or end of input right after the last character (printf '%s' name |)
            term = ["\n", "", "\r\n", "\n"][(k + 2 * int(hid[1:])) % 4]
            r = cli.kestrel(["key", "generate", "-o", f, "--env-pass"], env=genv, stdin=(name + term).encode())
            after = sb.read("keyring.txt") or b""
            names.append(name)
            pws.append(pw)
            prefix_kept = after.startswith(before) if before is not None else True
            # the tree's own parser, and an independent reading of the sections in order
            p = cli.driver_ops_kr(w.pid, w.tpl, [{"op": "kr", "id": "g", "toks": [], "text": after.decode("utf-8", "replace")}], w.seed)[0]
            parses = bool(p["accepted"]) and not p["panic"]
            listed = re.findall(r"^Name = (.*)$", after.decode("utf-8", "replace"), re.M)
            want = (["alice", "bob"] if initial.startswith("keyring") else []) + names
            names_present = parses and listed == want and len(p["entries"]) == len(want)
            # usable: encrypt to bob from the newest key with its own password, then decrypt
            usable = False
            if parses and r.rc == 0:
                kr2 = sb.path("kr2.txt")
                extra = "" if initial.startswith("keyring") else "\n" + cli.keyring_text([("bob", w.keys["bob"], True)])
                sb.write("kr2.txt", after + extra.encode())
                sb.write("m.txt", b"message %d" % k)
                e = cli.kestrel(["encrypt", sb.path("m.txt"), "-t", "bob", "-f", name, "-o", sb.path("m.ktl"), "-k", kr2, "--env-pass"],
                                env={"KESTREL_PASSWORD": pw})
                if e.rc == 0:
                    d = cli.kestrel(["decrypt", sb.path("m.ktl"), "-t", "bob", "-o", sb.path("m.out"), "-k", kr2, "--env-pass"],
                                    env={"KESTREL_PASSWORD": "bob-pw"})
                    usable = d.rc == 0 and sb.read("m.out") == b"message %d" % k and name in d.err_text
                # ... and with EXACTLY its password: the block's locked key opens under the password bytes as given, read by the
                # specification (whatever the tool does to a password must be the same everywhere, so it may do nothing)
                mblk = re.search(r"Name = %s\nPublicKey = (\S+)\nPrivateKey = (\S+)" % re.escape(name), after.decode("utf-8", "replace"))
                if usable and mblk:
                    u = cli.driver_ops(w.pid, w.tpl, [{"op": "unlock", "locked": mblk.group(2), "password_hex": pw.encode().hex()}], w.seed, "genu")[0]
                    usable = bool(u.get("ok")) and u.get("pub_enc") == mblk.group(1)
                elif usable:
                    usable = False
            evs.append({"ev": "gen", "id": "%s.%d" % (hid, k), "initial": initial, "via": via, "step": k, "exit": r.rc, "prefix_kept": prefix_kept,
                        "parses": parses, "names_present": bool(names_present), "usable": usable,
                        "size_before": -1 if before is None else len(before), "size_after": len(after), "stderr": r.err_text[-200:]})
        # every earlier key still usable at the end (decrypting a message to it)
    return evs


def _driver_ops_kr(pid, templates, ops, seed):
    import vlib
    wd = workdir(pid, "ops")
    with cli._OPLOCK:
        cli._OPSEQ[0] += 1
        n = cli._OPSEQ[0]
    sp = os.path.join(wd, "kr-%d.jsonl" % n)
    op = os.path.join(wd, "kr-%d.out" % n)
    write_jsonl(sp, ops)
    vlib.run_driver(["kr", templates, sp, op], env={"VERIF_SEED": seed})
    out = vlib.read_jsonl(op)
    os.unlink(sp)
    os.unlink(op)
    return out


cli.driver_ops_kr = _driver_ops_kr


def validate_events(rep, pid, name, evs, prefixes):
    wd = workdir(pid, "run-" + name, clean=True)
    tp = os.path.join(wd, "trace.ndjson")
    write_jsonl(tp, evs)
    v = validate_trace(pid, name, "Trace_Cli", tp, len(evs))
    rep.add_trace_run(name, v, len(evs), len(evs))
    for (ln, pred) in v["viols"]:
        if pred.startswith("TOOL_"):
            raise ToolError("trace tooling mismatch %s" % pred)
        if not any(pred.startswith(p) for p in prefixes):
            continue
        e = evs[ln - 1]
        rep.violation("%s id=%s %s" % (pred, e.get("id"), e.get("tag", "")), {"engine": "cli-history", "observed": e})


def c14(pid, tier, seed, selftest=False):
    rep = Report(pid, tier, seed)
    rep.rule = ("histories {initial state of F: absent, empty, keyring with / without trailing newline, with comments} x n key "
                "generations, each naming F by one of {plain path, symbolic link, path through sub/.., second hard link} (distinct names, passwords incl. empty / non-ASCII / 200 bytes), enumerated by TLC from KeyLife.tla "
                "(invariant KeepsKeys); after each `kestrel key generate -o F` step: the earlier bytes are a prefix, the file is "
                "accepted by the tree's Keyring::new and lists the sections in order, and the new key encrypts-then-decrypts "
                "through the CLI under its own password; non-trivial = F existed before the step")
    rep.assumptions = ["names are distinct; passwords come from the environment"]
    build_harness()
    tpl, tres = st.get_templates(pid)
    rep.add_model("terms", tres, "byte-layout templates")
    thorough = tier == "thorough"
    n = 3 if thorough else 2
    res = run_tlc(pid, "life-mc", "KeyLife", life_cfg(n, "none", ["KeepsKeys", "IdentityKept", "SaltsFresh", "EmitGen"]), workers=1, timeout=300)
    rep.add_model("life-mc", res, "KeyLife histories of %d operations: KeepsKeys" % n)
    if res.violated:
        raise ToolError("KeyLife violates %s (model bug)" % res.violated)
    if thorough or selftest:
        r = run_tlc(pid, "neg-truncate", "KeyLife", life_cfg(2, "TruncateOnGenerate", ["KeepsKeys"]), workers=1, timeout=120)
        rep.add_model("neg-truncate", r, "deviation TruncateOnGenerate (the pinned code, D4) must break KeepsKeys")
        if r.violated != "KeepsKeys":
            raise ToolError("negative variant TruncateOnGenerate: got %s" % r.violated)
        r = run_tlc(pid, "neg-lstat", "KeyLife", life_cfg(2, "LookDoesNotFollowLinks", ["KeepsKeys"]), workers=1, timeout=120)
        rep.add_model("neg-lstat", r, "deviation LookDoesNotFollowLinks (existence test does not resolve a symbolic link) must break KeepsKeys")
        if r.violated != "KeepsKeys":
            raise ToolError("negative variant LookDoesNotFollowLinks: got %s" % r.violated)
        # beyond C14 (which quantifies over SEQUENCES of commands): two generate processes at once on one file.  Recorded as
        # an observation only: the model keeps every key when F exists and loses one when F is absent (check-then-create)
        for present, want in ((True, None), (False, "KeepsKeys")):
            g = run_tlc(pid, "genconc-%s" % ("present" if present else "absent"), "GenConcurrent",
                        "SPECIFICATION Spec\nCONSTANTS\n  Procs = {1, 2}\n  InitiallyPresent = %s\nINVARIANT KeepsKeys\nCHECK_DEADLOCK FALSE\n"
                        % ("TRUE" if present else "FALSE"), workers=1, timeout=120)
            rep.add_model("genconc-%s" % ("present" if present else "absent"), g,
                          "observation outside C14: two concurrent `key generate -o F`, F %s initially" % ("present" if present else "absent"))
            if g.violated != want:
                raise ToolError("GenConcurrent (F %s): expected %s, got %s" % ("present" if present else "absent", want, g.violated))
        rep.notes.append("observation (not C14, which is about sequences): two concurrent `key generate -o F` keep every key when F exists "
                         "(atomic appends) and can lose one when F is absent (both see 'absent', the second File::create truncates) - "
                         "GenConcurrent.tla; reproduced on the binary in 1 of 60 rounds")
    hists = [r for r in res.replays if r["mode"] == "gen"]
    w = World(pid, tpl, seed)
    with cf.ThreadPoolExecutor(max_workers=NCPU) as ex:
        all_evs = list(ex.map(lambda ih: exec_gen_history(w, "g%d" % ih[0], ih[1]["initial"], ih[1]["n"], ih[1].get("vias")), list(enumerate(hists))))
    evs = [e for x in all_evs for e in x]
    for e in evs:
        rep.case(e["id"], e["size_before"] >= 0)
    rep.sample(evs[0])
    rep.sample(evs[-1])
    validate_events(rep, pid, "gen", evs, ["C14_"])
    return rep.finish()


LIFE_PW = {"p0": "", "p1": "a", "p2": "päss 世界", "p3": "L" * 200}
# a second reading of the model's password names: near misses that differ only by white space at the ends, and
# lengths at the block size of the key-derivation's HMAC (odd-numbered histories)
LIFE_PW_B = {"p0": "hunter2", "p1": "hunter2 ", "p2": "\thunter2", "p3": "B" * 64}


def _utf8(b):
    try:
        b.decode("utf-8")
        return True
    except UnicodeDecodeError:
        return False


# a third reading: passwords as BYTES in the environment, some of them not UTF-8.  Such a password may be refused (the step
# then changes nothing); taken, it is the password as given - two different byte strings never are the same password
LIFE_PW_C = {"p0": b"kestrel-\xff-pass", "p1": b"kestrel-\xfe-pass", "p2": b"plain", "p3": b"\xc3"}
# a fourth reading: passwords that differ only by a line terminator at an end (an environment variable carries them
# verbatim; they are four different passwords)
LIFE_PW_D = {"p0": "line", "p1": "line\n", "p2": "line\r\n", "p3": "\nline\r"}


def exec_life_history(w, hid, first, ops, reading=None):
    evs = []
    hn = int(hid[1:])
    pwmap = LIFE_PW_C if hn % 5 == 4 else (LIFE_PW_B if hn % 2 else LIFE_PW)
    if reading == "D" or (reading is None and hn % 7 == 3):
        pwmap = LIFE_PW_D
    pwmap = {k: (v if isinstance(v, bytes) else v.encode()) for k, v in pwmap.items()}

    def penv(**kw):
        return {k.encode(): v for k, v in kw.items()}
    with cli.Sandbox(w.pid, "life") as sb:
        pw = pwmap[first]
        genv = penv(KESTREL_PASSWORD=pw)
        if hn % 3 == 1:
            genv[b"KESTREL_NEW_PASSWORD"] = b"stale new password"          # only change-pass reads it
        r = cli.kestrel(["key", "generate", "--env-pass"], raw_env=genv, stdin=b"lifekey\n")
        m = re.search(rb"PublicKey = (\S+)\nPrivateKey = (\S+)", r.out)
        if r.rc != 0 and not _utf8(pw):
            # refused: nothing was generated, nothing to follow
            return [{"ev": "life", "id": hid + ".gen", "op": "generate", "exit": r.rc, "refusable": True, "identity_kept": True,
                     "old_passwords_dead": True, "salt_fresh": True, "pub_matches": True, "secret_leaked": False}]
        if r.rc != 0 or not m:
            return [{"ev": "life", "id": hid + ".gen", "op": "generate", "exit": r.rc if r.rc != 0 else 1, "refusable": False, "identity_kept": False,
                     "old_passwords_dead": True, "salt_fresh": True, "pub_matches": False, "secret_leaked": False}]
        pub_line = m.group(1).decode()
        locked = m.group(2).decode()
        u = cli.driver_ops(w.pid, w.tpl, [{"op": "unlock", "locked": locked, "password_hex": pw.hex()}], w.seed, "life")[0]
        if not u.get("ok"):
            return [{"ev": "life", "id": hid + ".gen", "op": "generate", "exit": 0, "refusable": False, "identity_kept": False,
                     "old_passwords_dead": True, "salt_fresh": True, "pub_matches": False, "secret_leaked": False}]
        sk = u["sk_hex"]
        forms = [bytes.fromhex(sk), sk.encode(), sk.upper().encode(), base64.b64encode(bytes.fromhex(sk))]
        salts = [u["salt_hex"]]
        pws = [pw]
        outputs = [r.out + r.err]

        def leaked():
            return any(f in o for o in outputs for f in forms)
        evs.append({"ev": "life", "id": hid + ".gen", "op": "generate", "exit": 0, "identity_kept": True, "old_passwords_dead": True,
                    "salt_fresh": True, "pub_matches": u["pub_enc"] == pub_line, "secret_leaked": leaked()})
        for k, op in enumerate(ops):
            tag = "%s.%d" % (hid, k)
            if op[0] == "changepass":
                new = pwmap[op[1]]
                r = cli.kestrel(["key", "change-pass", locked, "--env-pass"], raw_env=penv(KESTREL_PASSWORD=pw, KESTREL_NEW_PASSWORD=new))
                outputs.append(r.out + r.err)
                m = re.search(rb"PrivateKey = (\S+)", r.out)
                ident = False
                dead = True
                fresh = True
                refusable = not (_utf8(pw) and _utf8(new))
                if r.rc != 0 and refusable:
                    # refused: the newest string still is the one before
                    ident = True
                elif r.rc == 0 and m:
                    locked = m.group(1).decode()
                    pw = new
                    pws.append(new)
                    tries = [{"op": "unlock", "locked": locked, "password_hex": p.hex()} for p in sorted(set(pws))]
                    res = cli.driver_ops(w.pid, w.tpl, tries, w.seed, "life")
                    byp = dict(zip(sorted(set(pws)), res))
                    ident = bool(byp[new].get("ok")) and byp[new].get("sk_hex") == sk
                    dead = all((p == new) or not byp[p].get("ok") for p in byp)
                    if byp[new].get("ok"):
                        fresh = byp[new]["salt_hex"] not in salts
                        salts.append(byp[new]["salt_hex"])
                    # ... and through the tool itself: every earlier password that is another byte string is refused by it
                    for p in sorted(set(pws)):
                        if p != new:
                            x = cli.kestrel(["key", "extract-pub", locked, "--env-pass"], raw_env=penv(KESTREL_PASSWORD=p))
                            outputs.append(x.out + x.err)
                            if x.rc == 0:
                                dead = False
                evs.append({"ev": "life", "id": tag, "op": "changepass", "exit": r.rc, "refusable": refusable, "identity_kept": ident,
                            "old_passwords_dead": dead, "salt_fresh": fresh, "pub_matches": True, "secret_leaked": leaked()})
            elif op[0] == "extractpub":
                r = cli.kestrel(["key", "extract-pub", locked, "--env-pass"], raw_env=penv(KESTREL_PASSWORD=pw))
                outputs.append(r.out + r.err)
                m = re.search(rb"PublicKey = (\S+)", r.out)
                evs.append({"ev": "life", "id": tag, "op": "extractpub", "exit": r.rc, "identity_kept": True, "old_passwords_dead": True,
                            "salt_fresh": True, "pub_matches": bool(m) and m.group(1).decode() == pub_line == u["pub_enc"],
                            "secret_leaked": leaked()})
            else:
                # use: encrypt from this key to bob and decrypt
                kr = "[Key]\nName = lifekey\nPublicKey = %s\nPrivateKey = %s\n\n" % (pub_line, locked) + cli.keyring_text([("bob", w.keys["bob"], True)])
                sb.write("kr.txt", kr)
                sb.write("m.txt", b"hello")
                e = cli.kestrel(["encrypt", sb.path("m.txt"), "-t", "bob", "-f", "lifekey", "-o", sb.path("m%d.ktl" % k), "-k", sb.path("kr.txt"),
                                 "--env-pass"], raw_env=penv(KESTREL_PASSWORD=pw))
                outputs.append(e.out + e.err)
                ok = False
                if e.rc == 0:
                    d = cli.kestrel(["decrypt", sb.path("m%d.ktl" % k), "-t", "bob", "-k", sb.path("kr.txt"), "--env-pass"],
                                    env={"KESTREL_PASSWORD": "bob-pw"})
                    outputs.append(d.err)
                    ok = d.rc == 0 and d.out == b"hello" and "lifekey" in d.err_text
                evs.append({"ev": "life", "id": tag, "op": "use", "exit": 0 if ok else 1, "identity_kept": ok, "old_passwords_dead": True,
                            "salt_fresh": True, "pub_matches": True, "secret_leaked": leaked()})
    for e in evs:
        e.setdefault("refusable", False)
    return evs


def c16(pid, tier, seed, selftest=False):
    rep = Report(pid, tier, seed)
    rep.rule = ("histories of change-pass / extract-pub / use over the passwords {empty, 'a', non-ASCII, 200 bytes} from a generated "
                "key, enumerated by TLC from KeyLife.tla (IdentityKept, SaltsFresh; further readings of the password names: edge white space, "
                "block-size lengths, non-UTF-8 bytes, line terminators at the ends); each is run through the CLI; after every step "
                "the newest PrivateKey string is unlocked by the specification (LockedKey term) under every password used so far: "
                "it must give the original key under the newest password only, with a salt never seen before; extract-pub must "
                "print EncodedPub(X25519(sk)) = the PublicKey line of generation; stdout/stderr are searched for the raw, hex and "
                "base64 private key; non-trivial = at least one password change")
    rep.assumptions = ["the password set contains no two HMAC-equivalent passwords (see the C15 known finding)"]
    build_harness()
    tpl, tres = st.get_templates(pid)
    rep.add_model("terms", tres, "byte-layout templates")
    thorough = tier == "thorough"
    n = 3
    res = run_tlc(pid, "life-mc", "KeyLife", life_cfg(n, "none", ["KeepsKeys", "IdentityKept", "SaltsFresh", "EmitLife"]), workers=1, timeout=300)
    rep.add_model("life-mc", res, "KeyLife histories of %d operations: IdentityKept, SaltsFresh" % n)
    if res.violated:
        raise ToolError("KeyLife violates %s (model bug)" % res.violated)
    if thorough or selftest:
        for v, inv in [("ReuseSaltOnChange", "SaltsFresh"), ("RelockFreshKey", "IdentityKept")]:
            r = run_tlc(pid, "neg-" + v, "KeyLife", life_cfg(2, v, ["IdentityKept", "SaltsFresh"]), workers=1, timeout=120)
            rep.add_model("neg-" + v, r, "deviation %s must break %s" % (v, inv))
            if r.violated != inv:
                raise ToolError("negative variant %s: got %s" % (v, r.violated))
    hists = [r for r in res.replays if r["mode"] == "life"]
    if not thorough:
        # every operation kind in every position, each password as first / new: a covering sample
        hists = hists[::23][:40]
    hists.append({"mode": "life", "first": "p1", "ops": [["changepass", "p1"], ["changepass", "p1"], ["extractpub"], ["changepass", "p2"],
                                                         ["changepass", "p1"], ["use"], ["extractpub"]]})
    # line terminators at the ends of the new password, each as the newest password at an extract-pub and a use
    hists.append({"mode": "life", "first": "p0", "reading": "D",
                  "ops": [["changepass", "p1"], ["extractpub"], ["changepass", "p2"], ["use"], ["changepass", "p3"], ["extractpub"],
                          ["changepass", "p0"], ["use"]]})
    w = World(pid, tpl, seed)
    with cf.ThreadPoolExecutor(max_workers=NCPU) as ex:
        all_evs = list(ex.map(lambda ih: exec_life_history(w, "l%d" % ih[0], ih[1]["first"], ih[1]["ops"], ih[1].get("reading")),
                              list(enumerate(hists))))
    evs = [e for x in all_evs for e in x]
    for h in hists:
        rep.case(json.dumps(h, sort_keys=True), any(o[0] == "changepass" for o in h["ops"]))
    rep.sample({"history": hists[0], "events": all_evs[0]})
    validate_events(rep, pid, "life", evs, ["C16_"])
    rep.extra["steps_checked"] = len(evs)
    # typed at a terminal: the key is re-locked under the password that was CONFIRMED (typed twice identically) - entries of
    # which one is only a prefix of the other (a character missed, Enter alone) are different passwords
    multi_operand_probes(rep, pid, tpl, seed, "C16")
    tty_extension(rep, pid, tpl, seed, thorough, ["C16_"], channels=("tty", "stdin"),
                  select=lambda s_: s_["cmd"] == "change_pass" and (len(s_["script"]) <= 3 or tty_interesting(s_)))
    return rep.finish()


# --------------------------------------------------------------------------
# C09
# --------------------------------------------------------------------------

import subprocess
import vlib


def run_fuzz_file(pid, tpl, seed, idx, part):
    """Run fuzz scenarios; a driver that dies (abort, stack overflow, kill) identifies the scenario it was on."""
    wd = workdir(pid, "run-fuzz")
    evs = []
    rest = part
    rounds = 0
    while rest:
        rounds += 1
        sp = os.path.join(wd, "scn%d.jsonl" % idx)
        op = os.path.join(wd, "out%d.ndjson" % idx)
        write_jsonl(sp, rest)
        p = vlib.run_driver(["fuzz", tpl, sp, op], env={"VERIF_SEED": seed}, check=False, timeout=3600)
        got = vlib.read_jsonl(op) if os.path.exists(op) else []
        evs += got
        if p.returncode == 0 and len(got) == len(rest):
            break
        if p.returncode == 2 and "internal error" in p.stderr and "/repo/" not in p.stderr:
            raise ToolError("driver: " + p.stderr[-500:])
        culprit = rest[len(got)]
        evs.append({"ev": "fuzz", "id": culprit["id"], "surface": culprit["surface"], "kind": culprit["kind"], "len": -1,
                    "res": "abort", "heap": 0, "maxreq": 0, "ms": 0})
        rest = rest[len(got) + 1:]
        if rounds > 50:
            raise ToolError("driver keeps dying")
    return evs


def c09(pid, tier, seed, selftest=False):
    rep = Report(pid, tier, seed)
    rep.rule = ("byte surfaces {key_decrypt, pass_decrypt, chunk loop, noise_decrypt, chapoly_decrypt_ietf, valid_file_format, "
                "EncodedPk/EncodedSk + decode/unlock, Keyring::new} x generators {random, zeros, valid prefix, valid prefix + garbage, "
                "extension, byte mutations, hostile length fields, base64 / ASCII / UTF-8 text, keyring-like lines} enumerated by TLC "
                "(Shapes.tla), each instantiated with every length 0..N and every length around each field boundary, run under "
                "catch_unwind with the counting allocator; and every argument vector up to k words over the CLI vocabulary "
                "(Argv.tla) run with the real binary; DecLoop's Termination and BoundedRequest are model-checked with hostile "
                "length fields; distinct = distinct (surface, generator, length) or argv; non-trivial = non-empty input")
    rep.assumptions = ["stdin of the CLI is an empty pipe; a watchdog of 30 s per process stands for 'hang'"]
    build_harness()
    tpl, tres = st.get_templates(pid)
    rep.add_model("terms", tres, "byte-layout templates")
    thorough = tier == "thorough"
    import checks_stream as cs_
    cs_.check_model(rep, pid, "dec-mc", "MC_DecLoop", st.dec_constants(cs=2, src="Src21", hdr="HdrSmall", edits=2, shorts=0, splits=0),
                    st.DEC_INVARIANTS, cs_.DEC_ACTIONS + ["AdvLen", "AdvTruncate", "AdvAppend"], workers=8)
    if thorough or selftest:
        cs_.negative_variant(rep, pid, "neg-NoLenCheck", "MC_DecLoop",
                             st.dec_constants(cs=2, src="Src21", hdr="HdrSmall", edits=1, shorts=0, splits=0, variant="NoLenCheck"),
                             st.DEC_INVARIANTS, ["BoundedRequest"])
    sh = run_tlc(pid, "shapes", "Shapes", "SPECIFICATION Spec\nINVARIANT Emit\nCHECK_DEADLOCK FALSE\n", workers=1, timeout=120)
    rep.add_model("shapes", sh, "input shapes per surface")
    N = 70000 if thorough else 200
    scen = []
    for r in sh.replays:
        s, k = r["surface"], r["kind"]
        lens = set(range(0, 201 if not thorough else 400))
        for b in r["boundaries"]:
            lens |= {max(0, b - 1), b, b + 1}
        if thorough and s in ("key_decrypt", "noise_decrypt", "dec_chunks", "aead_open"):
            lens |= set(range(65400, 65700)) | {70000}
        if s == "pass_decrypt" or s == "encoded_sk":
            # one scrypt per call once the framing is right: thin out
            lens = set(l for l in lens if l < 60 or l % (3 if thorough else 11) == 0) | {36, 37, 52, 98, 112}
        if k in ("mutate", "lenfield"):
            lens = set(range(0, 24 if not thorough else 64))
        if k == "insert":
            # the keyring text is parsed cheaply: every position of it, every foreign character
            lens = set(range(0, 130, 1 if thorough else 3)) if s != "keyring" else set(range(0, 260))
        if s == "keyring" and k == "lines":
            lens = set(range(0, 400 if thorough else 120))
        for n in sorted(lens):
            ks = [0] if k not in ("prefix_then_random", "lenfield", "insert") else ([0, 1, 15, 16] if k == "prefix_then_random" else [0, 1])
            if k == "insert":
                ks = list(range(13 if s == "keyring" else 9)) if (thorough or s != "encoded_sk") else [0, 1, 2, 4]
            for kk in ks:
                scen.append({"op": "fuzz", "surface": s, "kind": k, "n": n, "k": kk, "id": "%s.%s.%d.%d" % (s, k, n, kk)})
    if thorough:
        for i in range(100000):
            scen.append({"op": "fuzz", "surface": "keyring", "kind": ["lines", "utf8", "ascii"][i % 3], "n": i % 300, "k": i, "id": "kr.%d" % i})
    for s in scen:
        rep.case(s["id"], s["n"] > 0)
    rep.sample(scen[7])
    nproc = 16
    parts = [scen[i::nproc] for i in range(nproc)]
    shutil_wd = workdir(pid, "run-fuzz", clean=True)
    with cf.ThreadPoolExecutor(max_workers=nproc) as ex:
        res = list(ex.map(lambda ip: run_fuzz_file(pid, tpl, seed, ip[0], ip[1]), list(enumerate(parts))))
    for i, evs in enumerate(res):
        tp = os.path.join(shutil_wd, "trace%d.ndjson" % i)
        write_jsonl(tp, evs)
    def val(i):
        tp = os.path.join(shutil_wd, "trace%d.ndjson" % i)
        return validate_trace(pid, "fuzz-%d" % i, "Trace_Fuzz", tp, len(res[i]))
    with cf.ThreadPoolExecutor(max_workers=nproc) as ex:
        vals = list(ex.map(val, range(len(res))))
    for i, v in enumerate(vals):
        rep.add_trace_run("fuzz-%d" % i, v, len(res[i]), len(res[i]))
        for (ln, pred) in v["viols"]:
            if pred.startswith("TOOL_"):
                raise ToolError("trace tooling mismatch " + pred)
            e = res[i][ln - 1]
            rep.violation("%s surface=%s kind=%s len=%s" % (pred, e["surface"], e["kind"], e["len"]), {"engine": "fuzz", "observed": e})
    rep.extra["byte_surface_calls"] = len(scen)
    rep.extra["results"] = {k: sum(1 for evs in res for e in evs if e["res"] == k) for k in ("ok", "err", "panic", "abort")}
    # ---- structured keyring texts: every token sequence of Keyring.tla up to 5 lines (incomplete, duplicated, reordered
    # sections), two renderings each, through the real parser ----
    import checks_keyring
    from oneshot import run_oneshot
    kres = run_tlc(pid, "kr-tokens", "Keyring", checks_keyring.kr_cfg(6 if thorough else 5, False, ["Emit"]), workers=1, timeout=900)
    rep.add_model("kr-tokens", kres, "keyring line-token sequences for the crash surface")
    kscen = []
    for i, r in enumerate(kres.replays):
        for stl in ([i % 30, (i * 7 + 3) % 30] if thorough else [i % 30]):
            kscen.append({"op": "kr", "id": "kt%d.%d" % (i, stl), "toks": r["toks"], "class": r["class"], "style": stl})
    for s_ in kscen:
        rep.case("krtok:" + s_["id"], True)
    run_oneshot(rep, pid, "krtok", "kr", kscen, tpl, seed, "Trace_Keyring", nproc=16, only_prefixes=["C09_"])
    rep.extra["keyring_token_texts"] = len(kscen)
    # ---- crafted handshakes: messages that authenticate up to the point where a key exchange with a low-order or foreign
    # key happens (random bytes never get that far), built from the NoiseAdv scenarios ----
    import checks_noise
    nres = run_tlc(pid, "noise-emit", "NoiseAdv", checks_noise.noise_cfg(["Emit"]), workers=1, timeout=600)
    rep.add_model("noise-emit", nres, "handshake constructions for the crash surface")
    hscen = []
    for i, r in enumerate(nres.replays):
        sc = r["sc"]
        if "LO" not in (sc["sClaim"], sc["rs"], sc["eClaim"]) and sc["forge"] == "none":
            continue
        if not thorough and (sc["splice"] != "none" or i % 2):
            continue
        hscen.append({"op": "hs", "id": "h9.%d" % i, "sc": sc, "class": r["class"], "lo": i % 14, "plen": 10})
    for s_ in hscen:
        rep.case("hs:" + s_["id"], True)
    run_oneshot(rep, pid, "hs", "noise", hscen, tpl, seed, "Trace_Noise", nproc=16, only_prefixes=["C09_"])
    rep.extra["crafted_handshakes"] = len(hscen)
    # ---- argument vectors ----
    av = run_tlc(pid, "argv", "MC_Argv", "SPECIFICATION Spec\nCONSTANTS\n  MaxArgs = %d\n  Vocab <- %s\nINVARIANT Emit\nCHECK_DEADLOCK FALSE\n"
                 % ((4, "VocabSmall") if thorough else (3, "VocabSmall")), workers=1, timeout=900)
    rep.add_model("argv", av, "argument vectors over the CLI vocabulary")
    vectors = [r["argv"] for r in av.replays]
    # key commands given a valid locked key with one foreign character inside (C09: an encoded key is untrusted input)
    wk = cli.make_keys(pid, tpl, seed, [("c9", b"pw9")])["c9"]["locked"]
    for pos in (1, 20, 56, 111):
        for ch in (" ", "\t", "=", "-", "\u00e9"):
            bad = wk[:pos] + ch + wk[pos:]
            vectors.append(["key", "extract-pub", bad, "--env-pass"])
            vectors.append(["key", "change-pass", bad, "--env-pass"])
    with cli.Sandbox(pid, "argv") as sb:
        sb.write("x", b"not a kestrel file")

        def concrete(v):
            # the model's word for "not valid UTF-8" becomes such bytes
            return [b"caf\xe9.ktl" if a == "<NONUTF8>" else a for a in v]

        def one(iv):
            i, v = iv
            r = cli.kestrel(concrete(v), env={"KESTREL_PASSWORD": "pw9", "KESTREL_NEW_PASSWORD": "pw10"} if len(v) == 4 and v[0] == "key" and len(v[2]) > 100 else {},
                            stdin=b"", timeout=30, cwd=sb.dir)
            return {"ev": "argv", "id": "a%d" % i, "argv": v, "streams": "normal", "exit": r.rc, "errline": r.has_error_line, "timed_out": r.timed_out,
                    "stderr": r.err_text[-200:]}
        with cf.ThreadPoolExecutor(max_workers=NCPU) as ex:
            aevs = list(ex.map(one, list(enumerate(vectors))))
        # the same tool with a standard stream that cannot be written (a full device): whatever it has to say - help, version,
        # a public key, a re-locked key, an error - the outcome still is exit 0 or 1, never a panic
        informational = [[], ["--help"], ["-h"], ["--version"], ["-v"], ["encrypt", "--help"], ["key", "extract-pub", wk, "--env-pass"],
                         ["key", "change-pass", wk, "--env-pass"], ["key", "generate", "--env-pass"], ["decrypt", "x", "-t", "nobody", "-k", "x", "--env-pass"],
                         ["password", "decrypt", "x", "--env-pass"], ["bogus"]]
        fvec = informational + [v for i, v in enumerate(vectors) if i % (7 if thorough else 29) == 0]
        # operands that are paths of a special shape, as FILE and as the value of -o / -k (longer vectors than the model's bound)
        odd_paths = [".", "..", "/", "x/..", "./", "-", "nodir/out", "x/", "//"]
        for cmdw in (["encrypt", "-t", "a", "-f", "b", "-k", "x"], ["decrypt", "-t", "a", "-k", "x"], ["password", "encrypt"], ["password", "decrypt"]):
            for pth in odd_paths:
                vectors.append(cmdw[:1 if cmdw[0] != "password" else 2] + ["x", "-o", pth] + cmdw[1 if cmdw[0] != "password" else 2:] + ["--env-pass"])
                vectors.append(cmdw[:1 if cmdw[0] != "password" else 2] + [pth, "-o", "out.bin"] + cmdw[1 if cmdw[0] != "password" else 2:] + ["--env-pass"])
                vectors.append(cmdw[:1 if cmdw[0] != "password" else 2] + [pth, "-o", pth] + cmdw[1 if cmdw[0] != "password" else 2:] + ["--env-pass"])
        odd_from = len(vectors) - 4 * 3 * len(odd_paths)
        with cf.ThreadPoolExecutor(max_workers=NCPU) as ex:
            aevs += list(ex.map(one, [(i, v) for i, v in enumerate(vectors) if i >= odd_from]))

        def one_fault(ivs):
            i, v, streams = ivs
            r = cli.kestrel(concrete(v), env={"KESTREL_PASSWORD": "pw9", "KESTREL_NEW_PASSWORD": "pw10"}, stdin=b"streamkey\n", timeout=30, cwd=sb.dir,
                            stdout_path="/dev/full" if streams == "stdout_full" else None, stderr_path="/dev/full" if streams == "stderr_full" else None)
            return {"ev": "argv", "id": "s%d.%s" % (i, streams), "argv": v, "streams": streams, "exit": r.rc, "errline": r.has_error_line,
                    "timed_out": r.timed_out, "stderr": r.err_text[-200:]}
        with cf.ThreadPoolExecutor(max_workers=NCPU) as ex:
            fevs = list(ex.map(one_fault, [(i, v, st_) for i, v in enumerate(fvec) for st_ in ("stdout_full", "stderr_full")]))
        aevs += fevs
        rep.extra["argv_runs_with_an_unwritable_stream"] = len(fevs)
        # the tool offered very large input FILES while it can only get 1 GiB of address space: rejecting (bad magic, bad
        # header, data after the final chunk) must not need memory that grows with the file
        w9 = World(pid, tpl, seed)
        big = {"zeros": b"", "keyfile+zeros": w9.ckey, "passfile+zeros": w9.cpass}
        for nm, head in big.items():
            pth = sb.path("big-" + nm.split("+")[0])
            with open(pth, "wb") as f:
                f.write(head)
                f.truncate(3 << 30)          # sparse: 3 GiB
        sb.write("kr9.txt", w9.keyring())
        bigv = [(["decrypt", sb.path("big-zeros"), "-t", "bob", "-o", sb.path("o1"), "-k", sb.path("kr9.txt"), "--env-pass"], "bob-pw"),
                (["password", "decrypt", sb.path("big-zeros"), "-o", sb.path("o2"), "--env-pass"], "file-pw"),
                (["decrypt", sb.path("big-keyfile"), "-t", "bob", "-o", sb.path("o3"), "-k", sb.path("kr9.txt"), "--env-pass"], "bob-pw"),
                (["password", "decrypt", sb.path("big-passfile"), "-o", sb.path("o4"), "--env-pass"], "file-pw")]
        # the same four without the limit on 600 MiB files: here the peak resident set is what is judged
        for nm, head in big.items():
            pth = sb.path("mid-" + nm.split("+")[0])
            with open(pth, "wb") as f:
                f.write(head)
                f.truncate(600 << 20)
        bigv += [([x.replace("big-", "mid-") for x in v], pw) for (v, pw) in list(bigv)]
        for i, (v, pw) in enumerate(bigv):
            limited = i < 4

            def lim():
                import resource
                if limited:
                    resource.setrlimit(resource.RLIMIT_AS, (1 << 30, 1 << 30))
            timed = os.path.exists("/usr/bin/time")
            try:
                p = subprocess.run((["/usr/bin/time", "-v"] if timed else []) + [cli.KESTREL] + v, env={"PATH": "/usr/bin:/bin", "HOME": "/nonexistent", "KESTREL_PASSWORD": pw},
                                   stdin=subprocess.DEVNULL, stdout=subprocess.PIPE, stderr=subprocess.PIPE, timeout=180, cwd=sb.dir, preexec_fn=lim)
                err = p.stderr.decode("utf-8", "replace")
                m = re.search(r"Maximum resident set size \(kbytes\): (\d+)", err)
                rcm = re.search(r"Exit status: (\d+)", err)
                sig = re.search(r"Command terminated by signal (\d+)", err)
                rc = -int(sig.group(1)) if sig else (int(rcm.group(1)) if rcm else p.returncode)
                own = err.split("\tCommand being timed")[0] if timed else err
                ev = {"exit": rc, "errline": "Error:" in own, "timed_out": False, "stderr": own[-200:], "rss_kb": int(m.group(1)) if m else -1}
            except subprocess.TimeoutExpired:
                ev = {"exit": -999, "errline": False, "timed_out": True, "stderr": "", "rss_kb": -1}
            ev.update({"ev": "argv", "id": "big%d" % i, "streams": "normal", "argv": [os.path.basename(x) if x.startswith(sb.dir) else x for x in v]})
            aevs.append(ev)
            vectors.append(ev["argv"])
    for v in vectors:
        rep.case("argv:" + json.dumps(v), len(v) > 0)
    rep.sample(aevs[len(aevs) // 3])
    validate_events_argv(rep, pid, aevs)
    rep.extra["argv_runs"] = len(aevs)
    rep.extra["argv_exit"] = {str(k): sum(1 for e in aevs if e["exit"] == k) for k in sorted(set(e["exit"] for e in aevs))}
    return rep.finish()


def validate_events_argv(rep, pid, evs):
    wd = workdir(pid, "run-argv", clean=True)
    tp = os.path.join(wd, "trace.ndjson")
    write_jsonl(tp, evs)
    v = validate_trace(pid, "argv-trace", "Trace_Cli", tp, len(evs))
    rep.add_trace_run("argv-trace", v, len(evs), len(evs))
    for (ln, pred) in v["viols"]:
        if pred.startswith("TOOL_"):
            raise ToolError("trace tooling mismatch " + pred)
        e = evs[ln - 1]
        rep.violation("%s argv=%s streams=%s" % (pred, json.dumps(e["argv"]), e.get("streams", "normal")), {"engine": "argv", "observed": e})


# --------------------------------------------------------------------------
# interactive password entry on a terminal (Prompt.tla): extends C12 / C13 / C16
# --------------------------------------------------------------------------

import ptyrun

TTY_WORDS = {"good": "the-right-pw", "x": "wrong x", "y": "wröng-y", "xp": "wrong x2", "e": ""}


def tty_interesting(s):
    """Scripts beyond length 2 that every tier runs: two adjacent entries of which one is a prefix of the other (a character
    missed or added, Enter alone), and unlock prompts answered wrongly two or three times before the right password."""
    sc = s["script"]
    pref = any((a, b) in (("x", "xp"), ("xp", "x")) or ((a == "e") != (b == "e")) for a, b in zip(sc, sc[1:]))
    many = s["cmd"] in ("decrypt", "encrypt") and len(sc) >= 3 and sc[-1] == "good"
    return pref or many


def run_tty_scenario(w, idx, sc, channel="tty"):
    """channel "tty": the terminal is the controlling terminal (prompt_password_tty); "stdin": a terminal on stdin only,
    no controlling terminal (the prompt_password_stdin fall-back of ask_pass)."""
    cmd, script, exp = sc["cmd"], sc["script"], sc["exp"]
    lines = [TTY_WORDS[x] for x in script]
    keys = cli.make_keys(w.pid, w.tpl, w.seed, [("ttyalice", TTY_WORDS["good"].encode()), ("ttybob", TTY_WORDS["good"].encode())])
    with cli.Sandbox(w.pid, "tty") as sb:
        prior = b"PRIOR CONTENT\n" * 5000
        out_path = sb.path("out.bin")
        with open(out_path, "wb") as f:
            f.write(prior)
        sb.write("kr.txt", cli.keyring_text([("alice", keys["ttyalice"], True), ("bob", keys["ttybob"], True)]))
        if cmd == "pass_encrypt":
            sb.write("in.bin", w.P2)
            args = ["password", "encrypt", sb.path("in.bin"), "-o", out_path]
        elif cmd == "decrypt":
            ops = [{"op": "specfile", "api": "key", "chunks": [65536, 1000], "pseed": 9, "s_priv_hex": keys["ttyalice"]["sk_hex"],
                    "r_pub_hex": keys["ttybob"]["pk_hex"], "tag": "tty", "out": sb.path("in.ktl")}]
            cli.driver_ops(w.pid, w.tpl, ops, w.seed, "tty")
            args = ["decrypt", sb.path("in.ktl"), "-t", "bob", "-o", out_path, "-k", sb.path("kr.txt")]
        elif cmd == "encrypt":
            sb.write("in.bin", w.P2)
            args = ["encrypt", sb.path("in.bin"), "-t", "bob", "-f", "alice", "-o", out_path, "-k", sb.path("kr.txt")]
        else:
            args = ["key", "change-pass", keys["ttyalice"]["locked"]]
        # lines typed; then Ctrl-C if the contract says the script ends in an interrupt
        if channel == "redirected" and cmd != "change_pass":
            # a terminal on stdin only, stdout redirected to the output file (no -o), stderr to a log: the prompts belong on stderr
            i_o = args.index("-o")
            del args[i_o:i_o + 2]
            os.unlink(out_path)
            rc, transcript, answered = ptyrun.run_tty(args, lines, timeout=90, interrupt=False, controlling=False,
                                                      stdout_path=out_path, stderr_path=sb.path("err.log"))
            transcript = sb.read("err.log") or b""
        else:
            rc, transcript, answered = ptyrun.run_tty(args, lines, timeout=90, interrupt=(exp["res"] == "interrupted"),
                                                      controlling=(channel == "tty"))
        got = sb.read("out.bin")
        pw_ok = True
        if got == prior:
            out = "untouched"
        elif got is None:
            out = "absent"
        elif cmd == "decrypt":
            out = "full" if got == w.P2 else "other"
        elif cmd in ("pass_encrypt", "encrypt"):
            sb.write("produced.ktl", got)
            op = {"op": "golden", "id": "x", "api": "pass" if cmd == "pass_encrypt" else "key", "path": sb.path("produced.ktl"), "plain_hex": w.P2.hex()}
            if cmd == "encrypt":
                op.update({"r_priv_hex": keys["ttybob"]["sk_hex"], "s_pub_hex": keys["ttyalice"]["pk_hex"]})
            else:
                op["password_hex"] = TTY_WORDS.get(exp["pw"], "no such password").encode().hex()
            g = cli.driver_ops(w.pid, w.tpl, [op], w.seed, "ttyprod")[0]
            out = "full" if (g["dec"] == "ok" and g["plain_ok"] and g["sender_ok"] and g["spec_ok"]) else "other"
        else:
            out = "other"
        printed_key = False
        if cmd == "change_pass":
            out = "untouched"
            printed_key = re.search(rb"PrivateKey = \S+", transcript) is not None
            if exp["res"] == "ok":
                m = re.search(rb"PrivateKey = (\S+)", transcript)
                pw_ok = False
                out = "other"
                if m:
                    u = cli.driver_ops(w.pid, w.tpl, [{"op": "unlock", "locked": m.group(1).decode(),
                                                       "password_hex": TTY_WORDS[exp["pw"]].encode().hex()}], w.seed, "ttyu")[0]
                    pw_ok = bool(u.get("ok")) and u.get("sk_hex") == keys["ttyalice"]["sk_hex"]
                    out = "full" if pw_ok else "other"
        text = transcript.decode("utf-8", "replace")
        return {"ev": "tty", "id": "tty%d%s" % (idx, {"tty": "", "stdin": "s", "redirected": "r"}[channel]), "channel": channel, "cmd": cmd, "script": script, "exp": exp, "rc": rc, "answered": answered,
                "timed_out": rc == -999, "out": out, "pw_ok": pw_ok, "printed_key": printed_key, "errline": re.search(r"(?i)\b(error|fatal)\b", text) is not None,
                "transcript_tail": text[-200:]}


def prompt_cfg(maxlines, variant="none", emit=True):
    return ("SPECIFICATION Spec\nCONSTANTS\n  MaxLines = %d\n  PVariant = \"%s\"\nINVARIANT MatchesContract\n%sCHECK_DEADLOCK FALSE\n"
            % (maxlines, variant, "INVARIANT Emit\n" if emit else ""))


def tty_extension(rep, pid, tpl, seed, thorough, prefixes, only_failures=False, channels=None, select=None, negatives=False):
    res = run_tlc(pid, "prompt-mc", "Prompt", prompt_cfg(5 if thorough else 4), workers=2, timeout=600)
    rep.add_model("prompt-mc", res, "interactive password paths (ask / confirm loop / unlock loop) against the declarative outcome; emits typed scripts")
    if res.violated:
        raise ToolError("Prompt model violates %s (model bug)" % res.violated)
    if negatives:
        for v in ("ConfirmByPrefix", "UnlockAttemptsCapped"):
            r = run_tlc(pid, "neg-" + v, "Prompt", prompt_cfg(4, v, emit=False), workers=2, timeout=300)
            rep.add_model("neg-" + v, r, "deviation %s must break MatchesContract" % v)
            if r.violated != "MatchesContract":
                raise ToolError("negative variant %s: got %s" % (v, r.violated))
    scs = res.replays
    if select is not None:
        scs = [s for s in scs if select(s)]
    try:
        import pty
        pid_, fd_ = pty.fork()
        if pid_ == 0:
            os._exit(0)
        os.waitpid(pid_, 0)
        os.close(fd_)
    except OSError as e:
        rep.notes.append("no pseudo-terminal available (%s): the interactive paths were model-checked but not replayed" % e)
        return
    if only_failures:
        scs = [s for s in scs if s["exp"]["res"] != "ok"]
    if not thorough:
        scs = [s for i, s in enumerate(scs) if len(s["script"]) <= 2 or i % 24 == 0 or (tty_interesting(s) and (len(s["script"]) <= 3 or i % 3 == 0))]
    w = World(pid, tpl, seed)
    # every script on the controlling terminal; those that do not end in Ctrl-C (without a controlling terminal there
    # is no interrupt character) also with a terminal on stdin only: the prompt_password_stdin fall-back
    jobs = [(i, s, "tty") for i, s in enumerate(scs)] + [(i, s, "stdin") for i, s in enumerate(scs) if s["exp"]["res"] != "interrupted"]
    # ... and, for scripts that succeed, with stdout redirected to the output file and stderr to a log (nothing but stdin is a terminal)
    jobs += [(i, s, "redirected") for i, s in enumerate(scs) if s["exp"]["res"] == "ok" and s["cmd"] != "change_pass"]
    if channels is not None:
        jobs = [j for j in jobs if j[2] in channels]
    with cf.ThreadPoolExecutor(max_workers=8) as ex:
        evs = list(ex.map(lambda j: run_tty_scenario(w, j[0], j[1], j[2]), jobs))
    for (i, s, ch) in jobs:
        rep.case("tty:" + ch + json.dumps(s, sort_keys=True), len(s["script"]) >= 1)
    rep.sample(evs[len(evs) // 2])
    validate_events(rep, pid, "tty", evs, prefixes)
    rep.extra["tty_scenarios"] = len(evs)


# --------------------------------------------------------------------------
# process level: the decryptor's reads and writes as seen by strace, validated by Trace_Stream (C04, C11)
# --------------------------------------------------------------------------

def strace_decrypt(w, name, data, expect_plain, klass, auth_n, mode="key", chunks=(65536, 1000)):
    """Run `kestrel decrypt` under strace and turn its read/write system calls on the input and output
    files into the event format of Trace_Stream (the same D1 / D2 / D5 / D7 predicates, now at the
    process boundary).  auth_n: number of leading records that are authentic (two-chunk files)."""
    import shutil as _sh
    if not _sh.which("strace"):
        return None
    hdr = 132 if mode == "key" else 36
    with cli.Sandbox(w.pid, "strace") as sb:
        sb.write("in.ktl", data)
        sb.write("kr.txt", w.keyring())
        log_path = sb.path("strace.log")
        if mode == "key":
            cmd = ["decrypt", sb.path("in.ktl"), "-t", "bob", "-o", sb.path("out.bin"), "-k", sb.path("kr.txt"), "--env-pass"]
            env = {"KESTREL_PASSWORD": "bob-pw"}
        else:
            cmd = ["password", "decrypt", sb.path("in.ktl"), "-o", sb.path("out.bin"), "--env-pass"]
            env = {"KESTREL_PASSWORD": "file-pw"}
        e = {"PATH": "/usr/bin:/bin", "HOME": "/nonexistent"}
        e.update(env)
        p = subprocess.run(["strace", "-f", "-e", "trace=openat,read,write,close", "-o", log_path, cli.KESTREL] + cmd,
                           env=e, stdout=subprocess.PIPE, stderr=subprocess.PIPE, timeout=120)
        got = sb.read("out.bin")
        in_fd = out_fd = None
        cons = acc = 0
        ends, off_ = [], hdr
        for c_ in chunks:
            off_ += 32 + c_
            ends.append(off_)
        ends = ends[:auth_n]
        plens = list(chunks)[:auth_n]
        lag = 2 * (65536 + 32)
        evs = []
        for line in open(log_path, errors="replace"):
            m = re.match(r"\d+\s+openat\(AT_FDCWD, \"([^\"]*)\", ([A-Z_|]+)(?:, \d+)?\)\s+= (\d+)", line)
            if m:
                if m.group(1).endswith("in.ktl"):
                    in_fd = m.group(3)
                elif m.group(1).endswith("out.bin"):
                    out_fd = m.group(3)
                continue
            m = re.match(r"\d+\s+(read|write)\((\d+), .*, (\d+)\)\s+= (-?\d+)", line)
            if not m:
                continue
            kind, fd, req, ret = m.group(1), m.group(2), int(m.group(3)), int(m.group(4))
            if kind == "read" and fd == in_fd:
                cons += max(ret, 0)
            elif kind == "write" and fd == out_fd:
                pass
            else:
                continue
            authc = sum(pl for en, pl in zip(ends, plens) if en <= cons)
            # AFile!Due: record k is due once consumption is past the end of record k+2 (or past two maximal records)
            due = sum(pl for k_, (en, pl) in enumerate(zip(ends, plens))
                      if (k_ + 2 < len(ends) and ends[k_ + 2] < cons) or en + lag < cons)
            if kind == "read":
                evs.append({"ev": "read", "req": req, "ret": ret if ret >= 0 else -1, "heap": 0, "cons": cons, "acc": acc, "authc": authc, "due": due})
            else:
                off = acc
                acc += max(ret, 0)
                ok = got is not None and got[off:off + req] == expect_plain[off:off + req] and len(got) >= off + max(ret, 0)
                evs.append({"ev": "write", "req": req, "ret": ret if ret >= 0 else -1, "off": off, "ok": bool(ok), "heap": 0, "cons": cons, "acc": acc,
                            "authc": authc, "due": due})
                # a write system call hands the bytes to the file: nothing stays behind in a buffer of the process
                evs.append({"ev": "flush", "req": 0, "ret": 0, "heap": 0, "cons": cons, "acc": acc, "authc": authc, "due": due})
        res = "ok" if p.returncode == 0 else ("err_auth" if p.returncode == 1 else "panic")
        boundary = acc in [0] + [sum(plens[:i + 1]) for i in range(len(plens))]
        begin = {"ev": "begin", "op": "dec", "api": mode, "id": name, "cs": 65536, "H": hdr, "flen": len(data), "plen": len(expect_plain),
                 "class": klass, "auth": [], "twin": {"used": False, "prefix_ok": True, "res": "n/a"},
                 "faults": {"read": "none", "write": "none", "flush": "none"}, "heapk": 1 << 30}
        end = {"ev": "end", "res": res, "cons": cons, "acc": acc, "eofs": 1, "late": 0, "sender_ok": True, "boundary": boundary}
        return [begin] + evs + [end]


def process_level_lag(rep, pid, tpl, seed):
    """C11 at the process boundary (every tier): `kestrel decrypt` under strace on files of many SMALL chunks (what the
    encryptor writes when its source delivers short reads); each chunk must be out before more than two further chunks
    have been read (D7), the released bytes are the authentic prefix (D1)."""
    import shutil as _sh
    if not _sh.which("strace"):
        rep.notes.append("strace not available: process-level lag observation skipped")
        return
    w = World(pid, tpl, seed)
    runs = []
    for mode in ("key", "pass"):
        # content classes: a sink that treats some content specially (all-zero blocks as holes, text, 0xff) must still let
        # every chunk out in time
        for chunks, fill in (([4096] * 40, "prng"), ([1000] * 30 + [65536, 7], "prng"), ([1] * 50, "prng"),
                             ([4096] * 24, "zero"), ([65536] * 9 + [5], "zero"), ([8192] * 12, "ff"), ([4096] * 12, "text")):
            op = {"op": "specfile", "api": mode, "chunks": chunks, "pseed": 21, "tag": "lag", "fill": fill, "out": os.path.join(w.dir, "lag.ktl")}
            if mode == "key":
                op.update({"s_priv_hex": w.keys["alice"]["sk_hex"], "r_pub_hex": w.keys["bob"]["pk_hex"]})
            else:
                op["password_hex"] = b"file-pw".hex()
            cli.driver_ops(pid, tpl, [op], seed, "lagfile")
            data = open(os.path.join(w.dir, "lag.ktl"), "rb").read()
            plain = open(os.path.join(w.dir, "lag.ktl.plain"), "rb").read()
            runs.append(strace_decrypt(w, "lag-%s-%s-%dx%d" % (mode, fill, len(chunks), chunks[0]), data, plain, "must_accept", len(chunks), mode,
                                       chunks=chunks))
    evs = [e for r in runs for e in r]
    wd = workdir(pid, "run-lag", clean=True)
    tp = os.path.join(wd, "trace.ndjson")
    write_jsonl(tp, evs)
    v = validate_trace(pid, "lag", "Trace_Stream", tp, len(evs))
    rep.add_trace_run("strace-lag", v, len(runs), len(evs))
    for (ln, pred) in v["viols"]:
        if pred.startswith("TOOL_"):
            raise ToolError("trace tooling mismatch " + pred)
        rep.violation("%s (process level, strace) event=%d" % (pred, ln), {"engine": "strace", "events": evs[max(0, ln - 5):ln + 2]})
    rep.extra["process_level_lag_runs"] = len(runs)
    for r in runs:
        rep.case("strace:" + r[0]["id"], True)


def process_level_stream(rep, pid, tpl, seed):
    """C04 at the process boundary (thorough tier): strace of kestrel decrypt on valid and damaged two-chunk files."""
    w = World(pid, tpl, seed)
    runs = []
    for mode, data, hdr in (("key", w.ckey, 132), ("pass", w.cpass, 36)):
        runs.append(strace_decrypt(w, "ps-valid-" + mode, data, w.P2, "must_accept", 2, mode))
        runs.append(strace_decrypt(w, "ps-later-" + mode, corrupt(data, "corrupt_later_chunk", hdr), w.P2, "must_reject", 1, mode))
        runs.append(strace_decrypt(w, "ps-first-" + mode, corrupt(data, "corrupt_first_chunk", hdr), w.P2, "must_reject", 0, mode))
        runs.append(strace_decrypt(w, "ps-append-" + mode, corrupt(data, "appended_data", hdr), w.P2, "must_reject", 2, mode))
        runs.append(strace_decrypt(w, "ps-trunc-" + mode, corrupt(data, "truncated_later_chunk", hdr), w.P2, "must_reject", 1, mode))
    if any(r is None for r in runs):
        rep.notes.append("strace not available: process-level observation skipped")
        return
    evs = [e for r in runs for e in r]
    wd = workdir(pid, "run-strace", clean=True)
    tp = os.path.join(wd, "trace.ndjson")
    write_jsonl(tp, evs)
    v = validate_trace(pid, "strace", "Trace_Stream", tp, len(evs))
    rep.add_trace_run("strace", v, len(runs), len(evs))
    for (ln, pred) in v["viols"]:
        if pred.startswith("TOOL_"):
            raise ToolError("trace tooling mismatch " + pred)
        rep.violation("%s (process level, strace) event=%d" % (pred, ln), {"engine": "strace", "events": evs[max(0, ln - 5):ln + 2]})
    rep.extra["process_level_syscalls_checked"] = len(evs)
    for r in runs:
        rep.case("strace:" + r[0]["id"], True)


def multi_operand_probes(rep, pid, tpl, seed, prop):
    """Invocations with SEVERAL operands where the pinned tool takes one (two input files, two private keys): refused - or,
    should a tool take them, every output still gets randomness of its own (salts / ephemeral keys pairwise distinct, and
    distinct from those of the inputs)."""
    keys = cli.make_keys(pid, tpl, seed, [("alice", b"alice-pw"), ("bob", b"bob-pw"), ("alice2", b"alice-pw")])
    evs = []
    with cli.Sandbox(pid, "multi") as sb:
        sb.write("a.txt", b"first plaintext\n")
        sb.write("b.txt", b"second, another plaintext\n")
        sb.write("kr.txt", cli.keyring_text([("alice", keys["alice"], True), ("bob", keys["bob"], True)]))

        def new_files(before):
            return sorted(set(os.listdir(sb.dir)) - before)
        probes = [("pass-enc-two-files", ["password", "encrypt", "a.txt", "b.txt", "--env-pass"], {"KESTREL_PASSWORD": "multi-pw"}, 36),
                  ("enc-two-files", ["encrypt", "a.txt", "b.txt", "-t", "bob", "-f", "alice", "-k", "kr.txt", "--env-pass"], {"KESTREL_PASSWORD": "alice-pw"}, 132)]
        for name, args, env, hdr in probes:
            before = set(os.listdir(sb.dir))
            r = cli.kestrel(args, env=env, cwd=sb.dir, timeout=60)
            outs = [open(sb.path(f), "rb").read() for f in new_files(before)]
            vals = [o[4:36] for o in outs if len(o) >= hdr]
            evs.append({"ev": "multi", "id": name, "prop": prop, "accepted": r.rc == 0 and len(vals) >= 2, "distinct": len(set(vals)) == len(vals),
                        "outputs": len(outs), "stderr": r.err_text[-150:]})
        r = cli.kestrel(["key", "change-pass", keys["alice"]["locked"], keys["alice2"]["locked"], "--env-pass"],
                        env={"KESTREL_PASSWORD": "alice-pw", "KESTREL_NEW_PASSWORD": "new-pw"}, timeout=60)
        locked = re.findall(rb"PrivateKey = (\S+)", r.out)
        salts = []
        for l_ in locked + [keys["alice"]["locked"].encode(), keys["alice2"]["locked"].encode()]:
            try:
                salts.append(base64.b64decode(l_)[4:36])
            except Exception:
                salts.append(b"undecodable" + l_[:20])
        evs.append({"ev": "multi", "id": "change-pass-two-keys", "prop": prop, "accepted": r.rc == 0 and len(locked) >= 2,
                    "distinct": len(set(salts)) == len(salts), "outputs": len(locked), "stderr": r.err_text[-150:]})
    for e in evs:
        rep.case("multi:" + e["id"], True)
    validate_events(rep, pid, "multi-operand", evs, [prop + "_"])


def tty_damaged_file(rep, pid, tpl, seed):
    """C04 at a terminal: `password decrypt` / `decrypt` of a file whose SECOND chunk is damaged, the right password typed
    at the prompt - and typed again should the tool ask again, then Ctrl-C.  Whatever the tool does after the failure, the
    output path holds the first chunk and nothing else, and the run does not end in success."""
    w = World(pid, tpl, seed)
    keys = cli.make_keys(w.pid, w.tpl, w.seed, [("ttyalice", TTY_WORDS["good"].encode()), ("ttybob", TTY_WORDS["good"].encode())])
    evs = []
    for api in ("pass", "key"):
        for cause in ("corrupt_later_chunk", "truncated_later_chunk"):
            with cli.Sandbox(pid, "ttyd") as sb:
                op = {"op": "specfile", "api": api, "chunks": [65536, 65536, 1000], "pseed": 9, "tag": "ttyd", "out": sb.path("good.ktl")}
                if api == "key":
                    op.update({"s_priv_hex": keys["ttyalice"]["sk_hex"], "r_pub_hex": keys["ttybob"]["pk_hex"]})
                else:
                    op["password_hex"] = TTY_WORDS["good"].encode().hex()
                cli.driver_ops(pid, tpl, [op], seed, "ttyd")
                good = sb.read("good.ktl")
                plain = sb.read("good.ktl.plain")
                sb.write("in.ktl", corrupt(good, cause, 132 if api == "key" else 36))
                sb.write("kr.txt", cli.keyring_text([("alice", keys["ttyalice"], True), ("bob", keys["ttybob"], True)]))
                args = (["decrypt", sb.path("in.ktl"), "-t", "bob", "-o", sb.path("out.bin"), "-k", sb.path("kr.txt")] if api == "key"
                        else ["password", "decrypt", sb.path("in.ktl"), "-o", sb.path("out.bin")])
                rc, transcript, answered = ptyrun.run_tty(args, [TTY_WORDS["good"]] * 3, timeout=60, interrupt=True)
                got = sb.read("out.bin")
                evs.append({"ev": "ttyd", "id": "ttyd-%s-%s" % (api, cause), "rc": rc, "answered": answered,
                            "out_is_first_chunk": got == plain[:65536], "out_len": -1 if got is None else len(got),
                            "transcript_tail": transcript.decode("utf-8", "replace")[-200:]})
    for e in evs:
        rep.case(e["id"], True)
    validate_events(rep, pid, "tty-damaged", evs, ["C04_"])


def process_level_rss_chunkings(rep, pid, tpl, seed, mib=40):
    """C11 at the process boundary (every tier): peak RSS of `kestrel decrypt` / `password decrypt` on a specification-built
    file of `mib` MiB whose FIRST chunk is short (what an encryption from a pipe leaves), against a two-chunk file."""
    if not os.path.exists("/usr/bin/time"):
        rep.notes.append("/usr/bin/time not available: process-level memory observation skipped")
        return
    w = World(pid, tpl, seed)
    evs = []

    def run(args, env):
        e = {"PATH": "/usr/bin:/bin", "HOME": "/nonexistent"}
        e.update(env)
        p = subprocess.run(["/usr/bin/time", "-v", cli.KESTREL] + args, env=e, stdout=subprocess.PIPE, stderr=subprocess.PIPE, timeout=600)
        m = re.search(rb"Maximum resident set size \(kbytes\): (\d+)", p.stderr)
        rc = re.search(rb"Exit status: (\d+)", p.stderr)
        return (int(rc.group(1)) if rc else p.returncode), (int(m.group(1)) if m else -1)
    for api in ("key", "pass"):
        rss = {}
        okrt = True
        for label, chunks in (("small", [1000, 65536]), ("large", [1000] + [65536] * (mib * 16))):
            out = os.path.join(w.dir, "rssc-%s-%s.ktl" % (api, label))
            op = {"op": "specfile", "api": api, "chunks": chunks, "pseed": 41, "tag": "rssc" + label, "out": out}
            if api == "key":
                op.update({"s_priv_hex": w.keys["alice"]["sk_hex"], "r_pub_hex": w.keys["bob"]["pk_hex"]})
            else:
                op["password_hex"] = b"file-pw".hex()
            cli.driver_ops(pid, tpl, [op], seed, "rssc")
            with cli.Sandbox(pid, "rssc") as sb:
                sb.write("kr.txt", w.keyring())
                if api == "key":
                    args = ["decrypt", out, "-t", "bob", "-o", sb.path("o.bin"), "-k", sb.path("kr.txt"), "--env-pass"]
                    env = {"KESTREL_PASSWORD": "bob-pw"}
                else:
                    args = ["password", "decrypt", out, "-o", sb.path("o.bin"), "--env-pass"]
                    env = {"KESTREL_PASSWORD": "file-pw"}
                rc, r_kb = run(args, env)
                rss[label] = r_kb
                got = sb.read("o.bin")
                okrt = okrt and rc == 0 and got == open(out + ".plain", "rb").read()
            for f_ in (out, out + ".plain"):
                if label == "large" and os.path.exists(f_):
                    os.unlink(f_)
        evs.append({"ev": "rss", "id": "rssc-" + api, "exit": 0 if okrt else 1, "rss_kb": rss["large"], "base_rss_kb": rss["small"], "roundtrip_ok": okrt})
    for e in evs:
        rep.case(e["id"], True)
    validate_events(rep, pid, "rss-chunkings", evs, ["C11_"])
    rep.extra["process_level_rss_short_first_chunk_kb"] = {e["id"]: [e["base_rss_kb"], e["rss_kb"]] for e in evs}


def process_level_rss(rep, pid, tpl, seed, size_mib):
    """C11 at the process boundary (thorough tier): peak RSS of kestrel on a large file vs a small one."""
    import shutil as _sh
    import hashlib
    if not os.path.exists("/usr/bin/time"):
        rep.notes.append("/usr/bin/time not available: process-level memory observation skipped")
        return
    w = World(pid, tpl, seed)
    evs = []
    with cli.Sandbox(pid, "rss") as sb:
        sb.write("kr.txt", w.keyring())
        def run(args, env):
            e = {"PATH": "/usr/bin:/bin", "HOME": "/nonexistent"}
            e.update(env)
            p = subprocess.run(["/usr/bin/time", "-v", cli.KESTREL] + args, env=e, stdout=subprocess.PIPE, stderr=subprocess.PIPE, timeout=3600)
            m = re.search(rb"Maximum resident set size \(kbytes\): (\d+)", p.stderr)
            rc = re.search(rb"Exit status: (\d+)", p.stderr)
            return (int(rc.group(1)) if rc else p.returncode), (int(m.group(1)) if m else -1)
        def mk(name, mib):
            h = hashlib.sha256()
            with open(sb.path(name), "wb") as f:
                blk = bytes((i * 31 + 7) % 256 for i in range(1 << 20))
                for i in range(mib):
                    b = bytes([i % 256]) + blk[1:]
                    f.write(b)
                    h.update(b)
            return h.hexdigest()
        def sha(path):
            h = hashlib.sha256()
            with open(path, "rb") as f:
                for b in iter(lambda: f.read(1 << 20), b""):
                    h.update(b)
            return h.hexdigest()
        for mode in ("key", "pass"):
            base = {}
            for label, mib in (("small", 1), ("large", size_mib)):
                digest = mk("in.bin", mib)
                if mode == "key":
                    enc = ["encrypt", sb.path("in.bin"), "-t", "bob", "-f", "alice", "-o", sb.path("c.ktl"), "-k", sb.path("kr.txt"), "--env-pass"]
                    dec = ["decrypt", sb.path("c.ktl"), "-t", "bob", "-o", sb.path("out.bin"), "-k", sb.path("kr.txt"), "--env-pass"]
                    e1, e2 = {"KESTREL_PASSWORD": "alice-pw"}, {"KESTREL_PASSWORD": "bob-pw"}
                else:
                    enc = ["password", "encrypt", sb.path("in.bin"), "-o", sb.path("c.ktl"), "--env-pass"]
                    dec = ["password", "decrypt", sb.path("c.ktl"), "-o", sb.path("out.bin"), "--env-pass"]
                    e1 = e2 = {"KESTREL_PASSWORD": "rss-pw"}
                rc1, rss1 = run(enc, e1)
                rc2, rss2 = run(dec, e2)
                ok = rc1 == 0 and rc2 == 0 and sha(sb.path("out.bin")) == digest
                if label == "small":
                    base = {"enc": rss1, "dec": rss2}
                else:
                    evs.append({"ev": "rss", "id": "rss-%s-enc" % mode, "mode": mode, "dir": "encrypt", "size_mib": mib, "exit": rc1, "rss_kb": rss1,
                                "base_rss_kb": base["enc"], "roundtrip_ok": ok})
                    evs.append({"ev": "rss", "id": "rss-%s-dec" % mode, "mode": mode, "dir": "decrypt", "size_mib": mib, "exit": rc2, "rss_kb": rss2,
                                "base_rss_kb": base["dec"], "roundtrip_ok": ok})
                for f in ("in.bin", "c.ktl", "out.bin"):
                    try:
                        os.unlink(sb.path(f))
                    except FileNotFoundError:
                        pass
    validate_events(rep, pid, "rss", evs, ["C11_", "C12_", "C01_"])
    rep.extra["process_level_rss"] = [{k: e[k] for k in ("id", "size_mib", "rss_kb", "base_rss_kb")} for e in evs]
    for e in evs:
        rep.case(e["id"], True)
