"""Checks of the stream engine: C01, C02, C03, C04, C10, C11."""
import json
import random

import stream as st
from vlib import Report, ToolError, build_harness, log, apalache_inductive

ENC_ACTIONS = ["ReadFirst", "ReadNext", "Seal", "Write", "Flush"]
ENC_FAULT_ACTIONS = ["ReadFail", "WriteFail", "FlushFail"]
DEC_ACTIONS = ["Start", "Read", "LenCheck", "Open", "Probe", "Write", "Flush"]
DEC_FAULT_ACTIONS = ["ReadFail", "ProbeFail", "WriteFail", "FlushFail"]


def nontrivial(s):
    """A scenario is non-trivial when the environment does anything other than
    'full read, full write, no fault, no edit'."""
    def dev(seq):
        return any(x != "full" for x in seq)
    if s["op"] == "rt":
        e, d = s["enc"], s["dec"]
        return (dev(e.get("ws", [])) or dev(e.get("fs", [])) or len(e.get("rs", [])) > 2
                or dev(d.get("rs", [])) or dev(d.get("ws", [])) or d.get("rgen", 0) > 0 or d.get("wgen", 0) > 0
                or d.get("wrong_key", False))
    if s["op"] == "enc":
        return dev(s.get("ws", [])) or dev(s.get("fs", [])) or len(s.get("rs", [])) > 2 or s.get("rgen", 0) > 0
    return (dev(s.get("rs", [])) or dev(s.get("ws", [])) or dev(s.get("fs", [])) or bool(s.get("edits"))
            or s.get("wrong_key", False))


def key_of(s):
    t = dict(s)
    t.pop("id", None)
    t.pop("exp", None)
    return json.dumps(t, sort_keys=True)


def account(rep, scenarios):
    for s in scenarios:
        rep.case(key_of(s), nontrivial(s))


def check_model(rep, pid, name, module, consts, invariants, expect_actions, workers=6, timeout=1500):
    res = st.model_check(pid, name, module, consts, invariants, workers=workers, timeout=timeout)
    rep.add_model(name, res, "exhaustive TLC check of %s with %s" % (module, json.dumps(consts)))
    if res.violated:
        # the design model itself breaks a Layer-A invariant: this is a statement about my
        # model of the code, not about the code; it must be fixed in the model.
        raise ToolError("model %s violates %s on the Layer-B model (model bug)" % (name, res.violated))
    dead = st.never_taken(res, expect_actions)
    if dead:
        raise ToolError("vacuous model check %s: actions never taken: %s" % (name, dead))
    return res


def negative_variant(rep, pid, name, module, consts, invariants, must_break):
    """The named deviation must make TLC report one of the named invariants (the
    invariant bites)."""
    res = st.run_tlc(pid, name, module, st.mc_cfg(consts, invariants, fair=False, termination=False), workers=4,
                     timeout=600)
    rep.add_model(name, res, "negative configuration: deviation %s must break %s" % (consts["Variant"], must_break))
    if res.violated not in must_break:
        raise ToolError("negative variant %s: expected %s to be violated, got %s" % (name, must_break, res.violated))
    rep.notes.append("deviation %s refuted by %s" % (consts["Variant"], res.violated))


DEC_PATTERNS = [
    {"rs": [], "ws": [], "fs": []},
    {"rs": [], "ws": [], "fs": [], "rgen": 1, "wgen": 1},
    {"rs": ["allbut1", 1, "allbut1", 1, "allbut1"], "ws": [1, "allbut1"], "fs": []},
    {"rs": [], "ws": [], "fs": [], "rgen": 5, "wgen": 2},
    {"rs": [1, 1, 1, "allbut1"], "ws": ["allbut1"], "fs": [], "rgen": 17},
]


# for production-size files: no byte-at-a-time schedules (the traces would run to 10^5 events each)
DEC_PATTERNS_BIG = [
    {"rs": [], "ws": [], "fs": []},
    {"rs": [1, "allbut1", 1], "ws": [1, "allbut1"], "fs": [], "rgen": 40000, "wgen": 50000},
    {"rs": ["allbut1", 1, "allbut1", 1, "allbut1", 1], "ws": ["allbut1", 1], "fs": []},
    {"rs": [], "ws": [], "fs": [], "rgen": 9000, "wgen": 70000},
]


def rt_from_enc(raws, api, aad, prefix, kseed0=1, wrong_every=0, cs=None):
    out = []
    for i, raw in enumerate(raws):
        sid = "%s%d" % (prefix, i)
        e = st.conv_enc(raw, api=api, aad=aad, cs=cs, kseed=kseed0 + (i % 5), pseed=1 + (i % 7), sid=sid)
        if e["exp"]["res"] != "ok":
            continue
        pats = DEC_PATTERNS if api == "chunks" else DEC_PATTERNS_BIG
        d = dict(pats[i % len(pats)])
        if wrong_every and i % wrong_every == 0:
            d["wrong_key"] = True
        out.append({"op": "rt", "id": sid, "enc": e, "dec": d})
    return out


EDGE_LENGTHS = [0, 1, 2, 65535, 65536, 65537, 131071, 131072, 131073,
                # residues at which the block functions underneath pad or wrap (16 for Poly1305 / ChaCha20 words and blocks, 64 for
                # ChaCha20 and SHA-256 blocks, 55/56 for SHA-256 padding), alone and on top of one full chunk
                15, 16, 17, 55, 56, 63, 64, 65, 119, 120, 127, 128, 129, 65536 + 15, 65536 + 16, 65536 + 55, 65536 + 56, 65536 + 64,
                65536 - 16, 65536 - 17, 65536 - 64, 196608, 1048576,
                # past the sizes at which an implementation might start to batch (1 MiB, 4 MiB)
                1048577, 1114113, 2097152 + 17, 4194304 + 3]


def production_rt(seed, n, api, prefix, wrong_every=0, passwords=None):
    """Production-size round trips through the public API only: lengths around the chunk
    size and random ones, random read partitions (1-byte reads for small inputs, reads that
    stop exactly on a chunk boundary), partial writes, fresh key sets."""
    rnd = random.Random(seed * 7919 + hash(api) % 1000)
    out = []
    for i in range(n):
        if i < len(EDGE_LENGTHS):
            plen = EDGE_LENGTHS[i]
        else:
            plen = rnd.choice([rnd.randint(0, 300), rnd.randint(0, 200000), rnd.randint(65536 * 2, 65536 * 4 + 5)])
        sid = "%s%d" % (prefix, i)
        mode = i % 4
        rs = []
        rgen = 0
        if mode == 1:
            # stop exactly on the chunk boundary, then one byte, then the rest
            rs = [65535, 1, 1, 65535]
        elif mode == 2:
            rgen = 1 if plen <= 300 else rnd.choice([4096, 30000, 65536, 70000])
        elif mode == 3:
            rs = [rnd.randint(1, 65536) for _ in range(6)]
        e = {"op": "enc", "api": api, "aad": "key" if api == "key" else "pass", "cs": 65536, "plen": plen, "rs": rs, "ws": [], "fs": [],
             "rgen": rgen, "wgen": rnd.choice([0, 0, 100000, 5000]) if plen > 300 else rnd.choice([0, 1, 7]),
             "kseed": 100 + i, "rseed": 1 + (i % 3), "pseed": 10 + i, "pwseed": 1 + (i % 6), "id": sid,
             "inject": (i % 2 == 0), "eph": ["none", "pub_only", "priv_only", "payload_only"][(i // 2) % 4]}
        if passwords:
            e["password_hex"] = passwords[i % len(passwords)]
        d = {"rs": [], "ws": [], "fs": [],
             "rgen": (1 if plen <= 200 else rnd.choice([0, 65552, 3000, 16])) if i % 3 else 0,
             "wgen": rnd.choice([0, 1000, 65536]) if plen > 300 else rnd.choice([0, 1, 5])}
        if wrong_every and i % wrong_every == wrong_every - 1:
            d["wrong_key"] = True
            if passwords:
                pw = bytes.fromhex(e["password_hex"])
                # a near miss: one bit flipped, or a trailing NUL, or truncated
                alt = [bytes([pw[0] ^ 1]) + pw[1:] if pw else b"\x01", pw + b"\x00", pw[:-1] if pw else b"x",
                       pw + b"\x01", pw + b"\n", pw + b"\r\n", pw + b" ", b" " + pw, pw.upper() if pw.upper() != pw else pw + b"A",
                       pw.rstrip(b"\r\n") if pw.rstrip(b"\r\n") != pw else pw + b"\r"][(i // wrong_every) % 10]
                d["wrong_password_hex"] = alt.hex()
                from checks_keyring import hmac_equivalent
                if hmac_equivalent(pw.hex(), alt.hex()):
                    # RFC 2104: the same HMAC key, hence the same PBKDF2/scrypt password (known finding)
                    sid = sid + ".hmaceq"
                    e["id"] = sid
        out.append({"op": "rt", "id": sid, "enc": e, "dec": d})
    return out


def finish(rep, runs):
    n, ex = st.drift(runs)
    if n:
        rep.notes.append("MODEL-DRIFT on %d runs (Layer-B prediction differs from the implementation; not a violation): %s"
                         % (n, json.dumps(ex)))
    rep.extra["model_drift"] = "none" if n == 0 else "%d runs differ from the Layer-B prediction" % n
    return rep.finish()


# --------------------------------------------------------------------------
# C01
# --------------------------------------------------------------------------

def c01(pid, tier, seed, selftest=False):
    rep = Report(pid, tier, seed)
    rep.rule = ("behaviours enumerated by TLC from the Layer-B model EncLoop (every plaintext length up to the bound, "
                "every partition into reads, partial-accept budget) are replayed as encrypt-then-decrypt round trips "
                "on the hooked chunk loops (same tiny chunk size) and, scaled, on key_encrypt/key_decrypt; plus "
                "production-size round trips through the public API; distinct = distinct scenario, non-trivial = some "
                "short read, partial write or non-default schedule")
    rep.assumptions = ["X25519/AEAD correctness is C19's matter; here the primitives only have to be mutually consistent",
                       "the harness observes the code at the Read/Write boundary"]
    build_harness()
    tpl, tres = st.get_templates(pid)
    rep.add_model("terms", tres, "byte-layout templates printed from WireFormat/NoiseX")
    thorough = tier == "thorough"
    # 1. design-level verdict on Layer B
    check_model(rep, pid, "enc-mc", "MC_EncLoop",
                st.enc_constants(cs=2, maxlen=7 if thorough else 5, hdr="HdrSmall"), st.ENC_INVARIANTS, ENC_ACTIONS)
    check_model(rep, pid, "dec-mc", "MC_DecLoop",
                st.dec_constants(cs=2, src="Src322" if thorough else "Src21", hdr="HdrSmall", edits=0),
                st.DEC_INVARIANTS, DEC_ACTIONS)
    if thorough or selftest:
        for v, inv in [("ShortReadIsEof", ["LegalOutput"]), ("SealCurrentBuffer", ["LegalOutput"]),
                       ("WriteNotAll", ["LegalOutput"])]:
            negative_variant(rep, pid, "neg-" + v, "MC_EncLoop",
                             st.enc_constants(cs=2, maxlen=5, hdr="HdrSmall", variant=v), st.ENC_INVARIANTS, inv)
    # 2. behaviours -> round trips on the hooked loops
    scenarios = []
    for cs in ([1, 2, 3] if thorough else [1, 2]):
        em = st.emit(pid, "enc-emit-cs%d" % cs, "MC_EncLoop",
                     st.enc_constants(cs=cs, maxlen=(3 * cs + 1) if thorough else (2 * cs + 1), hdr="HdrNone",
                                      splits=1, shorts=-1))
        rep.add_model("enc-emit-cs%d" % cs, em, "behaviour enumeration for replay")
        scenarios += rt_from_enc(em.replays, "chunks", "key", "h%d." % cs)
    # 3. the same behaviours, with the header phase, scaled to the public key API
    em = st.emit(pid, "enc-emit-api", "MC_EncLoop",
                 st.enc_constants(cs=2, maxlen=5 if thorough else 4, hdr="HdrSmall", splits=1,
                                  shorts=-1 if thorough else 2))
    rep.add_model("enc-emit-api", em, "behaviour enumeration (with header phase) for the public API")
    api = rt_from_enc(em.replays, "key", "key", "k.")
    if not thorough:
        api = api[::3]
    scenarios += api
    scenarios += production_rt(seed, 400 if thorough else 44, "key", "p.")
    # counters crossing a byte boundary: more than 256 chunks (hooked loop, one-byte chunks); thorough: more than 65536
    for i, plen in enumerate([600] + ([66000] if thorough else [])):
        e = {"op": "enc", "api": "chunks", "aad": "key", "cs": 1, "plen": plen, "rs": [], "ws": [], "fs": [], "kseed": 60 + i, "pseed": 4, "id": "ctr%d" % i}
        scenarios.append({"op": "rt", "id": "ctr%d" % i, "enc": e, "dec": {"rs": [], "ws": [], "fs": []}})
    account(rep, scenarios)
    for s in scenarios[:2] + scenarios[-2:]:
        rep.sample(s)
    runs = st.run_and_validate(rep, pid, "rt", scenarios, tpl, seed)
    # 4. the same statement through the tool: kestrel encrypt | decrypt via files and pipes, fresh and re-used output paths
    import cli_rt
    cli_rt.run(rep, pid, tpl, seed, "C01", "key", thorough)
    # "for every sender and recipient key pair": thousands of random key pairs (a fault that depends on a key's value)
    from oneshot import run_oneshot
    ks = [{"op": "keysweep", "id": "ks%d" % k, "k": k, "n": 1500} for k in range(16 if thorough else 4)]
    for s_ in ks:
        rep.case("keysweep:%d" % s_["k"], True)
    run_oneshot(rep, pid, "keysweep", "noise", ks, tpl, seed, "Trace_Noise", nproc=4, only_prefixes=["C01_"])
    return finish(rep, runs)


# --------------------------------------------------------------------------
# C02
# --------------------------------------------------------------------------

PASSWORDS = ["", "61", "70c3a4c39f776f7264e29c93", "00", "6100", "ff" * 64, "41" * 1024,
             "70617373776f7264", "70617373776f7265",
             "6861636b6d650a", "636166c3a90d", "70770d0a", "2070772009", "0a", "7077200a0a"]   # line endings / blanks at the ends


def c02(pid, tier, seed, selftest=False):
    rep = Report(pid, tier, seed)
    rep.rule = ("TLC-enumerated EncLoop behaviours replayed as password-mode round trips (hooked loops with the password "
                "AAD prefix; pass_encrypt/pass_decrypt at production size), each third decrypted under a different key / "
                "password (near misses: one bit flipped, trailing NUL, truncated); passwords incl. empty, NUL, non-ASCII "
                "UTF-8, 64 x 0xff, 1 KiB; distinct = distinct scenario, non-trivial = non-default schedule or wrong password")
    rep.assumptions = ["scrypt/AEAD correctness is C18/C19's matter; the symbolic model assumes Scrypt is injective in the password"]
    build_harness()
    tpl, tres = st.get_templates(pid)
    rep.add_model("terms", tres, "byte-layout templates printed from WireFormat/NoiseX")
    thorough = tier == "thorough"
    check_model(rep, pid, "enc-mc", "MC_EncLoop", st.enc_constants(cs=2, maxlen=5, hdr="HdrSmall"),
                st.ENC_INVARIANTS, ENC_ACTIONS)
    # wrong password = the header does not authenticate (AdvHdr): nothing released, never ok
    check_model(rep, pid, "dec-mc", "MC_DecLoop",
                st.dec_constants(cs=2, src="Src322" if thorough else "Src21", hdr="HdrSmall", edits=1),
                st.DEC_INVARIANTS + ["WrongKeyReleasesNothing"], DEC_ACTIONS + ["AdvHdr"])
    scenarios = []
    for cs in ([1, 2, 3] if thorough else [2]):
        em = st.emit(pid, "enc-emit-cs%d" % cs, "MC_EncLoop",
                     st.enc_constants(cs=cs, maxlen=(3 * cs + 1) if thorough else (2 * cs + 1), hdr="HdrNone",
                                      splits=1, shorts=-1))
        rep.add_model("enc-emit-cs%d" % cs, em, "behaviour enumeration for replay")
        scenarios += rt_from_enc(em.replays, "chunks", "pass", "h%d." % cs, wrong_every=3)
    em = st.emit(pid, "enc-emit-api", "MC_EncLoop",
                 st.enc_constants(cs=2, maxlen=4, hdr="HdrSmall", splits=1, shorts=1))
    rep.add_model("enc-emit-api", em, "behaviour enumeration (with header phase) for the public API")
    api = rt_from_enc(em.replays, "pass", "pass", "k.", wrong_every=3)
    api = api if thorough else api[::6]
    for i, s in enumerate(api):
        s["enc"]["password_hex"] = PASSWORDS[i % len(PASSWORDS)]
        s["enc"]["kseed"] = 1 + i % 4
    scenarios += api
    scenarios += production_rt(seed, 600 if thorough else 90, "pass", "p.", wrong_every=3, passwords=PASSWORDS)
    # the known finding (HMAC-equivalent passwords) is exercised on purpose, so that it stays visible
    for j, (pw, other) in enumerate([("61", "6100"), ("", "00"), ("ff" * 65, __import__("hashlib").sha256(b"\xff" * 65).hexdigest())]):
        sid = "q.%d.hmaceq" % j
        scenarios.append({"op": "rt", "id": sid,
                          "enc": {"op": "enc", "api": "pass", "aad": "pass", "cs": 65536, "plen": 70000, "rs": [], "ws": [], "fs": [],
                                  "kseed": 900 + j, "pseed": 3, "id": sid, "password_hex": pw},
                          "dec": {"rs": [], "ws": [], "fs": [], "wrong_key": True, "wrong_password_hex": other}})
    # near the block size of the HMAC inside scrypt, a password and its SHA-256 digest are DIFFERENT keys up to 64 bytes
    # (RFC 2104 only hashes longer keys): the digest of a 63- or 64-byte password must be refused like any wrong password
    import hashlib as _h
    for j, pw in enumerate(["42" * 63, "43" * 64, "6b" * 32 + "2d" * 32, "c3a9" * 32]):
        other = _h.sha256(bytes.fromhex(pw)).hexdigest()
        for plen in (0, 70000):
            sid = "qb.%d.%d" % (j, plen)
            scenarios.append({"op": "rt", "id": sid,
                              "enc": {"op": "enc", "api": "pass", "aad": "pass", "cs": 65536, "plen": plen, "rs": [], "ws": [], "fs": [],
                                      "kseed": 950 + j, "pseed": 3, "id": sid, "password_hex": pw},
                              "dec": {"rs": [], "ws": [], "fs": [], "wrong_key": True, "wrong_password_hex": other}})
            scenarios.append({"op": "rt", "id": sid + "s",
                              "enc": {"op": "enc", "api": "pass", "aad": "pass", "cs": 65536, "plen": plen, "rs": [], "ws": [], "fs": [],
                                      "kseed": 950 + j, "pseed": 3, "id": sid + "s", "password_hex": pw},
                              "dec": {"rs": [], "ws": [], "fs": []}})
    account(rep, scenarios)
    for s in scenarios[:1] + scenarios[-3:]:
        rep.sample(s)
    runs = st.run_and_validate(rep, pid, "rt", scenarios, tpl, seed, nproc=16)
    import cli_rt
    cli_rt.run(rep, pid, tpl, seed, "C02", "pass", thorough)
    return finish(rep, runs)


# --------------------------------------------------------------------------
# C03
# --------------------------------------------------------------------------

DEC_NEG = [("NoEofProbe", ["AcceptMeansComplete"]), ("EofAtBoundaryOk", ["AcceptMeansComplete"]),
           ("FlagNotInAad", ["AcceptMeansComplete", "ReleasedIsAuthenticPrefix"]),
           ("NonceFromFile", ["AcceptMeansComplete", "ReleasedIsAuthenticPrefix"]),
           ("HeaderNotChecked", ["AcceptMeansComplete", "ReleasedIsAuthenticPrefix", "WrongKeyReleasesNothing"])]


def bitflip_scenarios(api, aad, chunks, prefix, step=1, hstep=1):
    """Every single-bit change of a complete file (C03: every bit outside the advisory counter
    field is rejected; a flipped counter bit may be accepted)."""
    hreal = st.HDR_REAL[api]
    srcs = [{"chunks": chunks, "kseed": 1, "pseed": 1}]
    out = []
    # header bits: every one, on every tier (each field of the header has its own way of being authenticated)
    for bit in range(0, hreal * 8, hstep):
        out.append({"op": "dec", "api": api, "aad": aad, "cs": 65536 if api != "chunks" else max(chunks + [1]),
                    "srcs": srcs, "file": {"hsrc": 0, "hdr": "flip:%d" % bit,
                                           "recs": [{"src": 0, "idx": i} for i in range(len(chunks))],
                                           "cut": -1, "trail": 0},
                    "rs": [], "ws": [], "fs": [], "id": "%sh%d" % (prefix, bit), "edits": ["bit"]})
    for k, c in enumerate(chunks):
        nb = (c + 16) * 8
        for bit in range(0, nb, step):
            recs = [{"src": 0, "idx": i} for i in range(len(chunks))]
            recs[k]["tam"] = bit
            out.append({"op": "dec", "api": api, "aad": aad, "cs": 65536 if api != "chunks" else max(chunks + [1]),
                        "srcs": srcs, "file": {"hsrc": 0, "hdr": "ok", "recs": recs, "cut": -1, "trail": 0},
                        "rs": [], "ws": [], "fs": [], "id": "%sr%d.%d" % (prefix, k, bit), "edits": ["bit"]})
        # flag / length / counter field bits
        for fld, width in (("flagf", 32), ("lenf", 32), ("ctrf", 64)):
            for b in range(0, width, max(1, step // 2)):
                recs = [{"src": 0, "idx": i} for i in range(len(chunks))]
                base = {"flagf": 1 if k == len(chunks) - 1 else 0, "lenf": c, "ctrf": k}[fld]
                recs[k][fld] = base ^ (1 << b)
                out.append({"op": "dec", "api": api, "aad": aad, "cs": 65536 if api != "chunks" else max(chunks + [1]),
                            "srcs": srcs, "file": {"hsrc": 0, "hdr": "ok", "recs": recs, "cut": -1, "trail": 0},
                            "rs": [], "ws": [], "fs": [], "id": "%sf%d.%s%d" % (prefix, k, fld, b), "edits": ["bit"]})
    return out


def truncation_scenarios(api, aad, chunks, prefix, every=1):
    """Every proper prefix of a complete file."""
    hreal = st.HDR_REAL[api]
    total = hreal + sum(32 + c for c in chunks)
    srcs = [{"chunks": chunks, "kseed": 1, "pseed": 1}]
    out = []
    for cut in range(0, total, every):
        out.append({"op": "dec", "api": api, "aad": aad, "cs": 65536 if api != "chunks" else max(chunks + [1]),
                    "srcs": srcs, "file": {"hsrc": 0, "hdr": "ok",
                                           "recs": [{"src": 0, "idx": i} for i in range(len(chunks))],
                                           "cut": cut, "trail": 0},
                    "rs": [], "ws": [], "fs": [], "id": "%st%d" % (prefix, cut), "edits": ["truncate"]})
    return out


def dec_from_model(rep, pid, name, consts, srcname, apis, variants=1, stride=1):
    em = st.emit(pid, name, "MC_DecLoop", consts)
    rep.add_model(name, em, "behaviour enumeration (adversarial files x schedules) for replay")
    seen = set()
    out = []
    for i, raw in enumerate(em.replays):
        k = json.dumps([raw["file"], raw["rs"], raw["ws"], raw["fs"]], sort_keys=True)
        if k in seen:
            continue
        seen.add(k)
        for (api, aad, st_) in apis:
            if len(seen) % st_ != 0:
                continue
            out += st.conv_dec(raw, srcname, api=api, aad=aad, sid="%s.%s%s.%d" % (name, api[0], aad[0], i),
                               variants=variants)
    return out


def c03(pid, tier, seed, selftest=False):
    rep = Report(pid, tier, seed)
    rep.rule = ("every abstract file reachable in <= k adversary edits (flip header / ciphertext / flag / length / counter, "
                "delete, duplicate, swap, splice or replace a record from another authentic file, swap headers, truncate in "
                "every field class, append) from two authentic files, as enumerated by TLC on DecLoop, is concretised "
                "(spec-built authentic records, several bit positions / offsets per class) and given to the real decryptor "
                "(hooked loop with both AAD prefixes, key_decrypt, pass_decrypt); plus every single-bit flip and every "
                "proper prefix of complete files; verdicts are compared with the contract's class (MUST_ACCEPT / MAY / "
                "MUST_REJECT) in the trace specification; non-trivial = at least one edit")
    rep.assumptions = ["AEAD opens exactly what was sealed with the same key, nonce and AD (exercised in C19)",
                       "distinct files have distinct keys (C07)"]
    build_harness()
    tpl, tres = st.get_templates(pid)
    rep.add_model("terms", tres, "byte-layout templates")
    thorough = tier == "thorough"
    edits = 3 if thorough else 2
    check_model(rep, pid, "dec-mc", "MC_DecLoop",
                st.dec_constants(cs=2, src="Src21", hdr="HdrSmall", edits=edits, shorts=0, splits=0),
                st.DEC_INVARIANTS + ["WrongKeyReleasesNothing"] + st.DEC_REFINEMENT,
                DEC_ACTIONS + ["AdvHdr", "AdvSwapHdr", "AdvTamper", "AdvFlag", "AdvLen", "AdvCtr", "AdvDelete", "AdvDup",
                               "AdvSwap", "AdvSplice", "AdvReplace", "AdvForge", "AdvTruncate", "AdvAppend"], workers=8)
    if thorough:
        check_model(rep, pid, "dec-mc-322", "MC_DecLoop",
                    st.dec_constants(cs=2, src="Src322", hdr="HdrSmall", edits=2, shorts=0, splits=0),
                    st.DEC_INVARIANTS + ["WrongKeyReleasesNothing"] + st.DEC_REFINEMENT, DEC_ACTIONS, workers=8)
        check_model(rep, pid, "dec-mc-0", "MC_DecLoop",
                    st.dec_constants(cs=2, src="Src0", hdr="HdrSmall", edits=2, shorts=0, splits=0),
                    st.DEC_INVARIANTS + ["WrongKeyReleasesNothing"] + st.DEC_REFINEMENT, DEC_ACTIONS, workers=8)
    if thorough or selftest:
        for v, inv in DEC_NEG:
            negative_variant(rep, pid, "neg-" + v, "MC_DecLoop",
                             st.dec_constants(cs=2, src="Src21", hdr="HdrSmall", edits=1, shorts=0, splits=0, variant=v),
                             st.DEC_INVARIANTS + ["WrongKeyReleasesNothing"], inv)
    scenarios = []
    scenarios += dec_from_model(rep, pid, "adv-21", st.dec_constants(cs=2, src="Src21", hdr="HdrNone", edits=edits,
                                                                     shorts=0, splits=0),
                                "Src21", [("chunks", "key", 1), ("chunks", "pass", 2)], variants=3 if thorough else 2)
    # final chunks that are exactly full: one edit each (extension, truncation, forged record, ...) on every API
    scenarios += dec_from_model(rep, pid, "adv-22", st.dec_constants(cs=2, src="Src22", hdr="HdrNone", edits=1,
                                                                     shorts=0, splits=0),
                                "Src22", [("chunks", "key", 1), ("chunks", "pass", 2)], variants=1)
    scenarios += dec_from_model(rep, pid, "adv-22-api", st.dec_constants(cs=2, src="Src22", hdr="HdrSmall", edits=1,
                                                                         shorts=0, splits=0),
                                "Src22", [("key", "key", 2), ("pass", "pass", 3)], variants=1)
    # non-final chunks shorter than the chunk size
    scenarios += dec_from_model(rep, pid, "adv-121", st.dec_constants(cs=2, src="Src121", hdr="HdrNone", edits=1,
                                                                      shorts=0, splits=0),
                                "Src121", [("chunks", "key", 1), ("chunks", "pass", 2)], variants=1)
    scenarios += dec_from_model(rep, pid, "adv-121-api", st.dec_constants(cs=2, src="Src121", hdr="HdrSmall", edits=1,
                                                                          shorts=0, splits=0),
                                "Src121", [("key", "key", 2), ("pass", "pass", 3)], variants=1)
    scenarios += dec_from_model(rep, pid, "adv-0", st.dec_constants(cs=2, src="Src0", hdr="HdrNone", edits=1,
                                                                    shorts=0, splits=0),
                                "Src0", [("chunks", "key", 1)], variants=2)
    # the same with real headers through the public API (header parts are read too)
    scenarios += dec_from_model(rep, pid, "adv-api", st.dec_constants(cs=2, src="Src21", hdr="HdrSmall",
                                                                      edits=2 if thorough else 1, shorts=0, splits=0),
                                "Src21", [("key", "key", 1), ("pass", "pass", 1 if thorough else 2)], variants=3)
    if thorough:
        scenarios += dec_from_model(rep, pid, "adv-322", st.dec_constants(cs=2, src="Src322", hdr="HdrNone", edits=2,
                                                                          shorts=0, splits=0),
                                    "Src322", [("chunks", "key", 1)], variants=1)
    step = 1 if thorough else 5
    scenarios += bitflip_scenarios("chunks", "key", [3, 2], "bc.", step=1)
    scenarios += bitflip_scenarios("key", "key", [5], "bk.", step=step)
    scenarios += bitflip_scenarios("pass", "pass", [4], "bp.", step=step * 3 if not thorough else 2)
    # prefixes that lack only the last byte(s) of the final tag, of files chosen so that a decoder reusing a record buffer
    # would find the missing byte there anyway (zero, or the previous record's byte at that offset)
    for j, (api, aad, cs_, chunks, mode) in enumerate([("chunks", "key", 3, [2], "zero"), ("chunks", "pass", 3, [3, 1], "zero"),
                                                      ("chunks", "key", 3, [3, 2], "prev"), ("key", "key", 65536, [7], "zero"),
                                                      ("key", "key", 65536, [65536, 1000], "prev"), ("key", "key", 65536, [40, 9], "prev")]):
        scenarios.append({"op": "dec", "api": api, "aad": aad, "cs": cs_, "srcs": [{"chunks": chunks, "kseed": 3000 + 7000 * j, "pseed": 2}],
                          "file": {"hsrc": 0, "hdr": "ok", "recs": [{"src": 0, "idx": i} for i in range(len(chunks))], "cut": -1, "trail": 0},
                          "rs": [], "ws": [], "fs": [], "id": "tz.%d" % j, "edits": ["truncate"], "stale_fill": mode})
    scenarios += truncation_scenarios("chunks", "key", [3, 2, 1], "tc.")
    scenarios += truncation_scenarios("key", "key", [7, 2], "tk.", every=1 if thorough else 3)
    scenarios += truncation_scenarios("pass", "pass", [2], "tp.", every=1 if thorough else 7)
    account(rep, scenarios)
    for s in scenarios[:1] + scenarios[len(scenarios) // 2:len(scenarios) // 2 + 2] + scenarios[-1:]:
        rep.sample(s)
    runs = st.run_and_validate(rep, pid, "adv", scenarios, tpl, seed, nproc=16)
    acc = sum(1 for r in runs if r["end"] and r["end"]["res"] == "ok")
    rep.extra["accepted_runs"] = acc
    rep.extra["rejected_runs"] = len(runs) - acc
    # at the tool: what `kestrel decrypt` leaves at the output path after a success is exactly the plaintext, also when the
    # path held a longer file before (round trips through the tool, files and pipes)
    import cli_rt
    cli_rt.run(rep, pid, tpl, seed, "C03", "key", thorough)
    # ... and a modified, truncated or extended file never ends in exit status 0 at the tool, whatever the tool does with
    # the error on its way out
    import checks_cli
    checks_cli.tool_clause(rep, pid, tpl, seed, ["decrypt", "pass_decrypt"],
                           ["bad_header", "corrupt_header", "truncated_header", "corrupt_first_chunk", "truncated_first_chunk",
                            "corrupt_later_chunk", "truncated_later_chunk", "appended_data", "other_mode_file"], "C03_")
    return finish(rep, runs)


# --------------------------------------------------------------------------
# C04
# --------------------------------------------------------------------------

def c04(pid, tier, seed, selftest=False):
    rep = Report(pid, tier, seed)
    rep.rule = ("decryption runs over authentic and adversarial files (<= 1-2 edits) x read/write schedules (short reads, "
                "partial accepts) x one injected fault at every position on either side, enumerated by TLC on DecLoop; every "
                "write call recorded with its bytes and the ciphertext consumed so far is checked against "
                "ReleasedIsAuthenticPrefix (D1), success conditions (D2) and whole-chunk release (D5) in the trace "
                "specification; non-trivial = an edit, a fault or a non-default schedule")
    rep.assumptions = ["'no byte before the chunk verifies' is observed as: no byte of a chunk that does not verify, and none "
                       "before its tag has been read"]
    build_harness()
    tpl, tres = st.get_templates(pid)
    rep.add_model("terms", tres, "byte-layout templates")
    thorough = tier == "thorough"
    check_model(rep, pid, "dec-mc", "MC_DecLoop",
                st.dec_constants(cs=2, src="Src21", hdr="HdrSmall", edits=2 if thorough else 1, faults=1),
                st.DEC_INVARIANTS + ["WrongKeyReleasesNothing"] + st.DEC_REFINEMENT, DEC_ACTIONS + DEC_FAULT_ACTIONS,
                workers=8)
    rep.notes.append("refinement: every step of DecLoop (adversarial file, faults, short reads, partial accepts) is a step of "
                     "DecLoopInd under the projection ProjA/ProjAuth/... (TLC action property RefinesDecLoopInd)")
    if thorough or selftest:
        negative_variant(rep, pid, "neg-WriteBeforeVerify", "MC_DecLoop",
                         st.dec_constants(cs=2, src="Src21", hdr="HdrSmall", edits=1, shorts=0, splits=0,
                                          variant="WriteBeforeVerify"),
                         st.DEC_INVARIANTS, ["ReleasedIsAuthenticPrefix"])
        negative_variant(rep, pid, "neg-NoEofProbe", "MC_DecLoop",
                         st.dec_constants(cs=2, src="Src21", hdr="HdrSmall", edits=1, shorts=0, splits=0,
                                          variant="NoEofProbe"),
                         st.DEC_INVARIANTS, ["AcceptMeansComplete"])
        apalache_inductive(rep, pid, "DecLoopInd")
    scenarios = []
    scenarios += dec_from_model(rep, pid, "sched", st.dec_constants(cs=2, src="Src21", hdr="HdrNone", edits=1, faults=1,
                                                                    splits=1, shorts=1),
                                "Src21", [("chunks", "key", 1 if thorough else 2), ("chunks", "pass", 3)], variants=1)
    scenarios += dec_from_model(rep, pid, "sched-api", st.dec_constants(cs=2, src="Src21", hdr="HdrSmall", edits=1,
                                                                        faults=1, splits=1 if thorough else 0,
                                                                        shorts=1 if thorough else 0),
                                "Src21", [("key", "key", 2 if thorough else 3), ("pass", "pass", 5 if thorough else 9)],
                                variants=1)
    # every adversarial file of C03's exploration (two edits, incl. forged records), default schedule: D1 / D2 at every write
    scenarios += dec_from_model(rep, pid, "adv-21", st.dec_constants(cs=2, src="Src21", hdr="HdrNone", edits=2, shorts=0, splits=0),
                                "Src21", [("chunks", "key", 1), ("chunks", "pass", 3)], variants=1)
    scenarios += dec_from_model(rep, pid, "adv-22", st.dec_constants(cs=2, src="Src22", hdr="HdrNone", edits=1, shorts=0, splits=0),
                                "Src22", [("chunks", "key", 1), ("chunks", "pass", 2)], variants=1)
    scenarios += dec_from_model(rep, pid, "adv-121", st.dec_constants(cs=2, src="Src121", hdr="HdrNone", edits=1, shorts=0, splits=0),
                                "Src121", [("chunks", "key", 1), ("chunks", "pass", 2)], variants=1)
    scenarios += dec_from_model(rep, pid, "adv-121-api", st.dec_constants(cs=2, src="Src121", hdr="HdrSmall", edits=0, shorts=0, splits=0),
                                "Src121", [("key", "key", 1), ("pass", "pass", 1)], variants=1)
    if thorough:
        scenarios += dec_from_model(rep, pid, "sched-322", st.dec_constants(cs=2, src="Src322", hdr="HdrNone", edits=1,
                                                                            faults=1, splits=1, shorts=1),
                                    "Src322", [("chunks", "key", 2)], variants=1)
    account(rep, scenarios)
    for s in scenarios[:1] + scenarios[len(scenarios) // 2:len(scenarios) // 2 + 2] + scenarios[-1:]:
        rep.sample(s)
    runs = st.run_and_validate(rep, pid, "sched", scenarios, tpl, seed, nproc=16)
    if thorough or selftest:
        # the same predicates at the process boundary: kestrel decrypt under strace
        import checks_cli
        checks_cli.process_level_stream(rep, pid, tpl, seed)
    nwrites = sum(1 for r in runs for e in r["events"] if e["ev"] == "write")
    rep.extra["write_events_checked"] = nwrites
    # at the tool: `kestrel decrypt` / `password decrypt` never exit 0 unless the final chunk verified AND was delivered
    # (damaged later chunks, appended data, a full device, a reader that has gone away)
    import checks_cli
    checks_cli.tool_clause(rep, pid, tpl, seed, ["decrypt", "pass_decrypt"],
                           ["none", "corrupt_first_chunk", "corrupt_later_chunk", "truncated_later_chunk", "appended_data", "stdout_closed", "stdout_full",
                            "output_device_full"], "C04_", priors=("absent", "present"))
    checks_cli.tty_damaged_file(rep, pid, tpl, seed)
    return finish(rep, runs)


# --------------------------------------------------------------------------
# C10
# --------------------------------------------------------------------------

def production_faults(seed, n, prefix):
    """Production-size runs through the four public functions with one fault at a sampled call
    (first / last call, both sides of a chunk boundary)."""
    rnd = random.Random(seed * 31 + 5)
    out = []
    for i in range(n):
        api = ["key", "pass"][i % 2]
        plen = rnd.choice([0, 1, 65536, 65537, 131072, 150000])
        nrec = max(1, (plen + 65535) // 65536)
        kind = rnd.choice(["other", "intr", 0]) if i % 3 else "other"
        side = i % 3
        e = {"op": "enc", "api": api, "aad": "key" if api == "key" else "pass", "cs": 65536, "plen": plen,
             "rs": [], "ws": [], "fs": [], "kseed": 200 + i, "pseed": 3 + i, "id": "%s%d" % (prefix, i)}
        if side == 0:
            pos = rnd.choice([0, 1, nrec, nrec + 1])
            e["rs"] = ["full"] * pos + [kind if kind != 0 else "other"]
        elif side == 1:
            pos = rnd.choice([0, 1, 2, 3, 2 + 2 * nrec - 1, 2 + 2 * nrec])
            e["ws"] = ["full"] * pos + [kind]
        else:
            pos = rnd.choice([0, 1, nrec, nrec - 1 if nrec > 1 else 0])
            e["fs"] = ["full"] * pos + [kind if kind != 0 else "other"]
        out.append(e)
        # and a decryption of a specification-built file with a fault
        chunks = [65536] * (plen // 65536) + ([plen % 65536] if plen % 65536 or plen == 0 else [])
        d = {"op": "dec", "api": api, "aad": e["aad"], "cs": 65536,
             "srcs": [{"chunks": chunks, "kseed": 300 + i, "pseed": 5 + i}],
             "file": {"hsrc": 0, "hdr": "ok", "recs": [{"src": 0, "idx": j} for j in range(len(chunks))], "cut": -1, "trail": 0},
             "rs": [], "ws": [], "fs": [], "id": "%sd%d" % (prefix, i)}
        if side == 0:
            pos = rnd.choice([0, 1, 2, 3, 2 + 2 * len(chunks)])
            d["rs"] = ["full"] * pos + [kind if kind != 0 else "intr"]
        elif side == 1:
            pos = rnd.choice([0, len(chunks) - 1])
            d["ws"] = ["full"] * pos + [kind]
        else:
            pos = rnd.choice([0, len(chunks) - 1])
            d["fs"] = ["full"] * pos + [kind if kind != 0 else "other"]
        out.append(d)
    return out


def c10(pid, tier, seed, selftest=False):
    rep = Report(pid, tier, seed, level="model_checking")
    rep.rule = ("every (schedule, fault position, fault kind) of EncLoop / DecLoop with one injected fault (I/O error, "
                "ErrorKind::Interrupted, zero-length write, flush failure), enumerated by TLC, replayed through scripted "
                "Read/Write objects on the hooked loops (exhaustive, small scope) and on the four public functions (sampled "
                "positions); traces validated against E2/E3/D3/D4 (error names the failing side; success after a fault only "
                "if it was Interrupted and retried; written bytes are a prefix of the same implementation's fault-free run); "
                "non-trivial = a fault or a partial read/write")
    rep.assumptions = ["a conforming source returns 0 only at end of data; a non-conforming one (data after end of data) is "
                       "only required not to crash or hang the encryptor"]
    build_harness()
    tpl, tres = st.get_templates(pid)
    rep.add_model("terms", tres, "byte-layout templates")
    thorough = tier == "thorough"
    check_model(rep, pid, "enc-mc", "MC_EncLoop",
                st.enc_constants(cs=2, maxlen=5, hdr="HdrSmall", faults=2 if thorough else 1, nonconf=True),
                st.ENC_INVARIANTS, ENC_ACTIONS + ENC_FAULT_ACTIONS)
    check_model(rep, pid, "dec-mc", "MC_DecLoop",
                st.dec_constants(cs=2, src="Src322" if thorough else "Src21", hdr="HdrSmall", edits=0,
                                 faults=2 if thorough else 1),
                st.DEC_INVARIANTS, DEC_ACTIONS + DEC_FAULT_ACTIONS)
    if thorough or selftest:
        negative_variant(rep, pid, "neg-SwallowFlushError", "MC_EncLoop",
                         st.enc_constants(cs=2, maxlen=3, hdr="HdrSmall", faults=1, variant="SwallowFlushError"),
                         st.ENC_INVARIANTS, ["FaultSurfaces"])
        negative_variant(rep, pid, "neg-WriteNotAll", "MC_EncLoop",
                         st.enc_constants(cs=2, maxlen=3, hdr="HdrSmall", faults=0, variant="WriteNotAll"),
                         st.ENC_INVARIANTS, ["LegalOutput"])
        negative_variant(rep, pid, "neg-dec-SwallowFlushError", "MC_DecLoop",
                         st.dec_constants(cs=2, src="Src21", hdr="HdrSmall", edits=0, faults=1, variant="SwallowFlushError"),
                         st.DEC_INVARIANTS, ["FaultSurfaces"])
    scenarios = []
    for cs in ([2, 3] if thorough else [2]):
        em = st.emit(pid, "enc-faults-cs%d" % cs, "MC_EncLoop",
                     st.enc_constants(cs=cs, maxlen=(3 * cs + 1) if thorough else 2 * cs + 1, hdr="HdrNone", faults=1,
                                      splits=1, shorts=-1 if cs == 2 else 2, nonconf=True))
        rep.add_model("enc-faults-cs%d" % cs, em, "behaviour enumeration for replay")
        for i, raw in enumerate(em.replays):
            scenarios.append(st.conv_enc(raw, api="chunks", aad=["key", "pass"][i % 2], kseed=1 + i % 3, pseed=1 + i % 5,
                                         sid="ef%d.%d" % (cs, i)))
    em = st.emit(pid, "enc-faults-api", "MC_EncLoop",
                 st.enc_constants(cs=2, maxlen=4 if thorough else 3, hdr="HdrSmall", faults=1, splits=1,
                                  shorts=1 if thorough else 0))
    rep.add_model("enc-faults-api", em, "behaviour enumeration (header phase) for the public API")
    for i, raw in enumerate(em.replays):
        api = ["key", "pass"][i % 3 == 0]
        scenarios.append(st.conv_enc(raw, api=api, aad="key" if api == "key" else "pass", kseed=1 + i % 3, pseed=1 + i % 5,
                                     sid="ea.%d" % i))
    scenarios += dec_from_model(rep, pid, "dec-faults", st.dec_constants(cs=2, src="Src322" if thorough else "Src21",
                                                                         hdr="HdrNone", edits=0, faults=1, splits=1, shorts=1),
                                "Src322" if thorough else "Src21", [("chunks", "key", 1), ("chunks", "pass", 2)])
    scenarios += dec_from_model(rep, pid, "dec-faults-api", st.dec_constants(cs=2, src="Src21", hdr="HdrSmall", edits=0,
                                                                             faults=1, splits=1, shorts=1),
                                "Src21", [("key", "key", 1 if thorough else 2), ("pass", "pass", 4 if thorough else 8)])
    # ciphertexts whose non-final chunks are shorter than the chunk size (written from short reads): read back over every
    # partition and fault position as well
    scenarios += dec_from_model(rep, pid, "dec-faults-121", st.dec_constants(cs=2, src="Src121", hdr="HdrNone", edits=0, faults=1,
                                                                             splits=1, shorts=1),
                                "Src121", [("chunks", "key", 2), ("chunks", "pass", 3)])
    scenarios += dec_from_model(rep, pid, "dec-121-api", st.dec_constants(cs=2, src="Src121", hdr="HdrSmall", edits=0, faults=0,
                                                                          splits=0, shorts=1),
                                "Src121", [("key", "key", 1), ("pass", "pass", 2)])
    scenarios += production_faults(seed, 150 if thorough else 20, "pf.")
    # runs of CONSECUTIVE transient interruptions (a signal storm): whatever is retried, a success still means everything was
    # read to the real end of data and written
    k = 0
    for n in (2, 15, 16, 17, 33, 64, 200):
        for api in ("key", "pass"):
            for pos in (0, 1, 2):
                aad = "key" if api == "key" else "pass"
                scenarios.append({"op": "enc", "api": api, "aad": aad, "cs": 65536, "plen": 150000, "rs": ["full"] * pos + ["intr"] * n,
                                  "ws": [], "fs": [], "kseed": 400 + k, "pseed": 7, "id": "bi.%d" % k})
                scenarios.append({"op": "enc", "api": api, "aad": aad, "cs": 65536, "plen": 150000, "rs": [], "ws": ["full"] * pos + ["intr"] * n,
                                  "fs": [], "kseed": 400 + k, "pseed": 7, "id": "bw.%d" % k})
                scenarios.append({"op": "dec", "api": api, "aad": aad, "cs": 65536, "srcs": [{"chunks": [65536, 65536, 18928], "kseed": 500 + k, "pseed": 9}],
                                  "file": {"hsrc": 0, "hdr": "ok", "recs": [{"src": 0, "idx": j} for j in range(3)], "cut": -1, "trail": 0},
                                  "rs": ["full"] * (2 * pos) + ["intr"] * n, "ws": [], "fs": [], "id": "bd.%d" % k})
                k += 1
    account(rep, scenarios)
    for s in scenarios[:2] + scenarios[len(scenarios) // 2:len(scenarios) // 2 + 1] + scenarios[-1:]:
        rep.sample(s)
    runs = st.run_and_validate(rep, pid, "faults", scenarios, tpl, seed, nproc=16)
    rep.extra["runs_ending_in_error"] = sum(1 for r in runs if r["end"] and r["end"]["res"] != "ok")
    # at the tool: an output that cannot be written (full device, missing directory, reader gone) or an input that
    # cannot be read ends every command with exit 1 and an error message
    import checks_cli
    # (a partial write is no failure: to stdout, which takes complete lines first, nothing is lost either)
    w10 = checks_cli.World(pid, tpl, seed)
    cfg10 = [{"cmd": cmd, "cause": "none", "prior": "absent", "inp": inp, "outp": "stdout", "kr": "opt", "long": False, "alias": False, "sender": "first"}
             for cmd in ("decrypt", "pass_decrypt", "encrypt", "pass_encrypt") for inp in ("file", "stdin")]
    checks_cli.run_configs(rep, pid, "tool-stdout", w10, cfg10, ["C10_"], psize="longline")
    checks_cli.tool_clause(rep, pid, tpl, seed, ["encrypt", "decrypt", "pass_encrypt", "pass_decrypt", "key_generate"],
                           ["stdout_closed", "stdout_full", "output_device_full", "output_dir_missing", "input_read_error"], "C10_")
    return finish(rep, runs)


# --------------------------------------------------------------------------
# C11
# --------------------------------------------------------------------------

def c11(pid, tier, seed, selftest=False):
    rep = Report(pid, tier, seed, level="model_checking")
    rep.rule = ("Lag invariant checked by TLC on every state of EncLoop/DecLoop; recorded traces carry per event the peak "
                "live heap of the code under test (counting allocator) and the consumed / covered byte counts, validated "
                "against E4/E5/D7/D8: hooked loops with chunk size 4 on inputs up to 64 KiB, and the public functions on "
                "generated streams of many MiB that are never held in memory (source and sink are generators); "
                "non-trivial = input longer than one chunk")
    rep.assumptions = ["heap bound K(CS) = 8*CS + 1 MiB (+34 MiB while scrypt runs at N=32768, r=8): generous constants so "
                       "that only a length-dependent allocation can cross them",
                       "memory is a monitored field of the trace, not something TLC derives from the model (DESIGN.md 7)"]
    build_harness()
    tpl, tres = st.get_templates(pid)
    rep.add_model("terms", tres, "byte-layout templates")
    thorough = tier == "thorough"
    check_model(rep, pid, "enc-mc", "MC_EncLoop", st.enc_constants(cs=2, maxlen=9 if thorough else 7, hdr="HdrSmall"),
                st.ENC_INVARIANTS + st.ENC_REFINEMENT, ENC_ACTIONS)
    check_model(rep, pid, "dec-mc", "MC_DecLoop", st.dec_constants(cs=2, src="Src322", hdr="HdrSmall", edits=0),
                st.DEC_INVARIANTS, DEC_ACTIONS)
    if thorough or selftest:
        negative_variant(rep, pid, "neg-ReadAllFirst", "MC_EncLoop",
                         st.enc_constants(cs=2, maxlen=7, hdr="HdrSmall", variant="ReadAllFirst"), st.ENC_INVARIANTS, ["Lag"])
        apalache_inductive(rep, pid, "EncLoopInd")
    MiB = 1 << 20
    scenarios = []
    # small scope: chunk size 4; any length-proportional buffer crosses the bound (1 MiB + 32 B) ... the
    # bound is dominated by the 1 MiB slack, so small-scope runs use long inputs relative to CS
    for i, plen in enumerate([0, 3, 4, 5, 4096, 65536, 3 * MiB if thorough else MiB]):
        e = {"op": "enc", "api": "chunks", "aad": "key", "cs": 4 if plen <= 65536 else 1024, "plen": plen, "rs": [], "ws": [],
             "fs": [], "kseed": 1, "pseed": 2, "id": "s%d" % i, "store": plen <= 65536, "heapref": True}
        scenarios.append({"op": "rt", "id": "s%d" % i, "enc": e, "dec": {"rs": [], "ws": [], "fs": []}} if plen <= 65536 else e)
    # thorough: also past 4 GiB (offsets and byte counts that no longer fit 32 bits)
    sizes = [(16 * MiB, "key"), (48 * MiB, "pass")] if not thorough else [(1000 * MiB, "key"), (600 * MiB, "pass"), (64 * MiB, "key"),
                                                                          (4096 * MiB + 70001, "key")]
    for i, (plen, api) in enumerate(sizes):
        aad = "key" if api == "key" else "pass"
        scenarios.append({"op": "enc", "api": api, "aad": aad, "cs": 65536, "plen": plen, "rs": [], "ws": [], "fs": [],
                          "kseed": 1, "pseed": 4, "id": "be%d" % i, "store": False, "heapref": True,
                          "rgen": 0 if i == 0 else 65536, "wgen": 0 if i == 0 else 100000})
        scenarios.append({"op": "bigdec", "api": api, "aad": aad, "plen": plen, "chunk": 65536, "rs": [], "ws": [], "fs": [],
                          "kseed": 1, "pseed": 4, "id": "bd%d" % i, "rgen": 0 if i == 0 else 40000, "heapref": True})
        scenarios.append({"op": "bigdec", "api": api, "aad": aad, "plen": plen // 4 + 17, "chunk": 1000, "rs": [], "ws": [],
                          "fs": [], "kseed": 2, "pseed": 5, "id": "bs%d" % i, "heapref": True})
    # a length field that asks for far more than a chunk: refused without the memory it names ever being requested
    for i, (api, k, lenf) in enumerate([("key", 0, 0x10000000), ("pass", 1, 0x7fffffff), ("key", 1, 65537 + 16), ("pass", 0, 0xffffffff)]):
        recs = [{"src": 0, "idx": 0}, {"src": 0, "idx": 1}]
        recs[k]["lenf"] = lenf
        scenarios.append({"op": "dec", "api": api, "aad": "key" if api == "key" else "pass", "cs": 65536,
                          "srcs": [{"chunks": [65536, 100], "kseed": 7, "pseed": 8}],
                          "file": {"hsrc": 0, "hdr": "ok", "recs": recs, "cut": -1, "trail": 0},
                          "rs": [], "ws": [], "fs": [], "id": "lf%d" % i, "edits": ["len"]})
    # a small authentic file followed by a long tail of junk (generated, never held): rejected, and rejected in constant memory
    for i, (api, trail) in enumerate([("key", 24 * MiB), ("pass", 24 * MiB)] + ([("key", 700 * MiB)] if thorough else [])):
        scenarios.append({"op": "bigdec", "api": api, "aad": "key" if api == "key" else "pass", "plen": 4 * 65536 + 13, "chunk": 65536, "trail": trail,
                          "rs": [], "ws": [], "fs": [], "kseed": 3, "pseed": 6, "id": "bt%d" % i, "heapref": True})
    for s in scenarios:
        e = s["enc"] if s["op"] == "rt" else s
        rep.case(key_of(s), e.get("plen", 65636) > e.get("cs", 65536))
    for s in scenarios[:1] + scenarios[-2:]:
        rep.sample(s)
    # TLC's integers are 32-bit: runs of 2 GiB and more are recorded in the same way and judged by the same predicates in
    # 64-bit arithmetic (st.wide_monitor), everything else by TLC
    wide = [s for s in scenarios if s.get("plen", 0) >= (1 << 31) - (1 << 22)]
    scenarios = [s for s in scenarios if s not in wide]
    runs = st.run_and_validate(rep, pid, "big", scenarios, tpl, seed, nproc=len(scenarios))
    if wide:
        st.run_wide(rep, pid, "wide", wide, tpl, seed)
    import checks_cli as _cc
    _cc.process_level_rss_chunkings(rep, pid, tpl, seed, 256 if thorough else 128)
    if thorough or selftest:
        # the same clause at the process boundary: peak RSS of the real binary, large vs small input
        import checks_cli
        checks_cli.process_level_rss(rep, pid, tpl, seed, 512 if thorough else 48)
    peak = 0
    for r in runs:
        for e in r["events"]:
            peak = max(peak, e["heap"])
    rep.extra["max_heap_peak_bytes"] = peak
    rep.extra["largest_input_bytes"] = max(s.get("plen", 0) for s in scenarios if "plen" in s)
    # the lag clause at the process boundary: the tool's own reads and writes (strace) on files of many small chunks
    import checks_cli
    checks_cli.process_level_lag(rep, pid, tpl, seed)
    return finish(rep, runs)
