"""Checks of the stream engine: C01, C02, C03, C04, C10, C11."""
import json
import random

import stream as st
from vlib import Report, ToolError, build_harness, log

ENC_ACTIONS = ["ReadFirst", "ReadNext", "Seal", "Write", "Flush"]
ENC_FAULT_ACTIONS = ["ReadFail", "WriteFail", "FlushFail"]
DEC_ACTIONS = ["Start", "Read", "LenCheck", "Open", "Probe", "Write", "Flush"]
DEC_FAULT_ACTIONS = ["ReadFail", "ProbeFail", "WriteFail", "FlushFail"]


def nontrivial(s):
    """A scenario is non-trivial when the environment does anything other than
    'full read, full write, no fault, no edit'."""
    def dev(seq):
        return any(x != "full" for x in seq)
    if s["op"] == "rt":
        e, d = s["enc"], s["dec"]
        return (dev(e.get("ws", [])) or dev(e.get("fs", [])) or len(e.get("rs", [])) > 2
                or dev(d.get("rs", [])) or dev(d.get("ws", [])) or d.get("rgen", 0) > 0 or d.get("wgen", 0) > 0
                or d.get("wrong_key", False))
    if s["op"] == "enc":
        return dev(s.get("ws", [])) or dev(s.get("fs", [])) or len(s.get("rs", [])) > 2 or s.get("rgen", 0) > 0
    return (dev(s.get("rs", [])) or dev(s.get("ws", [])) or dev(s.get("fs", [])) or bool(s.get("edits"))
            or s.get("wrong_key", False))


def key_of(s):
    t = dict(s)
    t.pop("id", None)
    t.pop("exp", None)
    return json.dumps(t, sort_keys=True)


def account(rep, scenarios):
    for s in scenarios:
        rep.case(key_of(s), nontrivial(s))


def check_model(rep, pid, name, module, consts, invariants, expect_actions, workers=6, timeout=1500):
    res = st.model_check(pid, name, module, consts, invariants, workers=workers, timeout=timeout)
    rep.add_model(name, res, "exhaustive TLC check of %s with %s" % (module, json.dumps(consts)))
    if res.violated:
        # the design model itself breaks a Layer-A invariant: this is a statement about my
        # model of the code, not about the code; it must be fixed in the model.
        raise ToolError("model %s violates %s on the Layer-B model (model bug)" % (name, res.violated))
    dead = st.never_taken(res, expect_actions)
    if dead:
        raise ToolError("vacuous model check %s: actions never taken: %s" % (name, dead))
    return res


def negative_variant(rep, pid, name, module, consts, invariants, must_break):
    """The named deviation must make TLC report one of the named invariants (the
    invariant bites)."""
    res = st.run_tlc(pid, name, module, st.mc_cfg(consts, invariants, fair=False, termination=False), workers=4,
                     timeout=600)
    rep.add_model(name, res, "negative configuration: deviation %s must break %s" % (consts["Variant"], must_break))
    if res.violated not in must_break:
        raise ToolError("negative variant %s: expected %s to be violated, got %s" % (name, must_break, res.violated))
    rep.notes.append("deviation %s refuted by %s" % (consts["Variant"], res.violated))


DEC_PATTERNS = [
    {"rs": [], "ws": [], "fs": []},
    {"rs": [], "ws": [], "fs": [], "rgen": 1, "wgen": 1},
    {"rs": ["allbut1", 1, "allbut1", 1, "allbut1"], "ws": [1, "allbut1"], "fs": []},
    {"rs": [], "ws": [], "fs": [], "rgen": 5, "wgen": 2},
    {"rs": [1, 1, 1, "allbut1"], "ws": ["allbut1"], "fs": [], "rgen": 17},
]


# for production-size files: no byte-at-a-time schedules (the traces would run to 10^5 events each)
DEC_PATTERNS_BIG = [
    {"rs": [], "ws": [], "fs": []},
    {"rs": [1, "allbut1", 1], "ws": [1, "allbut1"], "fs": [], "rgen": 40000, "wgen": 50000},
    {"rs": ["allbut1", 1, "allbut1", 1, "allbut1", 1], "ws": ["allbut1", 1], "fs": []},
    {"rs": [], "ws": [], "fs": [], "rgen": 9000, "wgen": 70000},
]


def rt_from_enc(raws, api, aad, prefix, kseed0=1, wrong_every=0, cs=None):
    out = []
    for i, raw in enumerate(raws):
        sid = "%s%d" % (prefix, i)
        e = st.conv_enc(raw, api=api, aad=aad, cs=cs, kseed=kseed0 + (i % 5), pseed=1 + (i % 7), sid=sid)
        if e["exp"]["res"] != "ok":
            continue
        pats = DEC_PATTERNS if api == "chunks" else DEC_PATTERNS_BIG
        d = dict(pats[i % len(pats)])
        if wrong_every and i % wrong_every == 0:
            d["wrong_key"] = True
        out.append({"op": "rt", "id": sid, "enc": e, "dec": d})
    return out


EDGE_LENGTHS = [0, 1, 2, 65535, 65536, 65537, 131071, 131072, 131073]


def production_rt(seed, n, api, prefix, wrong_every=0, passwords=None):
    """Production-size round trips through the public API only: lengths around the chunk
    size and random ones, random read partitions (1-byte reads for small inputs, reads that
    stop exactly on a chunk boundary), partial writes, fresh key sets."""
    rnd = random.Random(seed * 7919 + hash(api) % 1000)
    out = []
    for i in range(n):
        if i < len(EDGE_LENGTHS):
            plen = EDGE_LENGTHS[i]
        else:
            plen = rnd.choice([rnd.randint(0, 300), rnd.randint(0, 200000), rnd.randint(65536 * 2, 65536 * 4 + 5)])
        sid = "%s%d" % (prefix, i)
        mode = i % 4
        rs = []
        rgen = 0
        if mode == 1:
            # stop exactly on the chunk boundary, then one byte, then the rest
            rs = [65535, 1, 1, 65535]
        elif mode == 2:
            rgen = 1 if plen <= 300 else rnd.choice([4096, 30000, 65536, 70000])
        elif mode == 3:
            rs = [rnd.randint(1, 65536) for _ in range(6)]
        e = {"op": "enc", "api": api, "aad": "key" if api == "key" else "pass", "cs": 65536, "plen": plen, "rs": rs, "ws": [], "fs": [],
             "rgen": rgen, "wgen": rnd.choice([0, 0, 100000, 5000]) if plen > 300 else rnd.choice([0, 1, 7]),
             "kseed": 100 + i, "rseed": 1 + (i % 3), "pseed": 10 + i, "pwseed": 1 + (i % 6), "id": sid,
             "inject": (i % 2 == 0)}
        if passwords:
            e["password_hex"] = passwords[i % len(passwords)]
        d = {"rs": [], "ws": [], "fs": [],
             "rgen": (1 if plen <= 200 else rnd.choice([0, 65552, 3000, 16])) if i % 3 else 0,
             "wgen": rnd.choice([0, 1000, 65536]) if plen > 300 else rnd.choice([0, 1, 5])}
        if wrong_every and i % wrong_every == wrong_every - 1:
            d["wrong_key"] = True
            if passwords:
                pw = bytes.fromhex(e["password_hex"])
                # a near miss: one bit flipped, or a trailing NUL, or truncated
                alt = [bytes([pw[0] ^ 1]) + pw[1:] if pw else b"\x00", pw + b"\x00", pw[:-1] if pw else b"x"][i % 3]
                d["wrong_password_hex"] = alt.hex()
        out.append({"op": "rt", "id": sid, "enc": e, "dec": d})
    return out


def finish(rep, runs):
    n, ex = st.drift(runs)
    if n:
        rep.notes.append("MODEL-DRIFT on %d runs (Layer-B prediction differs from the implementation; not a violation): %s"
                         % (n, json.dumps(ex)))
    rep.extra["model_drift_runs"] = n
    return rep.finish()


# --------------------------------------------------------------------------
# C01
# --------------------------------------------------------------------------

def c01(pid, tier, seed, selftest=False):
    rep = Report(pid, tier, seed)
    rep.rule = ("behaviours enumerated by TLC from the Layer-B model EncLoop (every plaintext length up to the bound, "
                "every partition into reads, partial-accept budget) are replayed as encrypt-then-decrypt round trips "
                "on the hooked chunk loops (same tiny chunk size) and, scaled, on key_encrypt/key_decrypt; plus "
                "production-size round trips through the public API; distinct = distinct scenario, non-trivial = some "
                "short read, partial write or non-default schedule")
    rep.assumptions = ["X25519/AEAD correctness is C19's matter; here the primitives only have to be mutually consistent",
                       "the harness observes the code at the Read/Write boundary"]
    build_harness()
    tpl, tres = st.get_templates(pid)
    rep.add_model("terms", tres, "byte-layout templates printed from WireFormat/NoiseX")
    thorough = tier == "thorough"
    # 1. design-level verdict on Layer B
    check_model(rep, pid, "enc-mc", "MC_EncLoop",
                st.enc_constants(cs=2, maxlen=7 if thorough else 5, hdr="HdrSmall"), st.ENC_INVARIANTS, ENC_ACTIONS)
    check_model(rep, pid, "dec-mc", "MC_DecLoop",
                st.dec_constants(cs=2, src="Src322" if thorough else "Src21", hdr="HdrSmall", edits=0),
                st.DEC_INVARIANTS, DEC_ACTIONS)
    if thorough or selftest:
        for v, inv in [("ShortReadIsEof", ["LegalOutput"]), ("SealCurrentBuffer", ["LegalOutput"]),
                       ("WriteNotAll", ["LegalOutput"])]:
            negative_variant(rep, pid, "neg-" + v, "MC_EncLoop",
                             st.enc_constants(cs=2, maxlen=5, hdr="HdrSmall", variant=v), st.ENC_INVARIANTS, inv)
    # 2. behaviours -> round trips on the hooked loops
    scenarios = []
    for cs in ([1, 2, 3] if thorough else [1, 2]):
        em = st.emit(pid, "enc-emit-cs%d" % cs, "MC_EncLoop",
                     st.enc_constants(cs=cs, maxlen=(3 * cs + 1) if thorough else (2 * cs + 1), hdr="HdrNone",
                                      splits=1, shorts=-1))
        rep.add_model("enc-emit-cs%d" % cs, em, "behaviour enumeration for replay")
        scenarios += rt_from_enc(em.replays, "chunks", "key", "h%d." % cs)
    # 3. the same behaviours, with the header phase, scaled to the public key API
    em = st.emit(pid, "enc-emit-api", "MC_EncLoop",
                 st.enc_constants(cs=2, maxlen=5 if thorough else 4, hdr="HdrSmall", splits=1,
                                  shorts=-1 if thorough else 2))
    rep.add_model("enc-emit-api", em, "behaviour enumeration (with header phase) for the public API")
    api = rt_from_enc(em.replays, "key", "key", "k.")
    if not thorough:
        api = api[::3]
    scenarios += api
    scenarios += production_rt(seed, 400 if thorough else 24, "key", "p.")
    account(rep, scenarios)
    for s in scenarios[:2] + scenarios[-2:]:
        rep.sample(s)
    runs = st.run_and_validate(rep, pid, "rt", scenarios, tpl, seed)
    return finish(rep, runs)
