"""Property id -> check function."""
import checks_stream
import checks_noise
import checks_keyring
import checks_cli
import checks_prims

CHECKS = {
    "C01": checks_stream.c01,
    "C02": checks_stream.c02,
    "C03": checks_stream.c03,
    "C04": checks_stream.c04,
    "C05": checks_noise.c05,
    "C06": checks_noise.c06,
    "C07": checks_noise.c07,
    "C08": checks_noise.c08,
    "C09": checks_cli.c09,
    "C10": checks_stream.c10,
    "C12": checks_cli.c12,
    "C13": checks_cli.c13,
    "C14": checks_cli.c14,
    "C15": checks_keyring.c15,
    "C16": checks_cli.c16,
    "C17": checks_keyring.c17,
    "C11": checks_stream.c11,
    "C18": checks_prims.c18,
    "C19": checks_prims.c19,
    "C20": checks_prims.c20,
}


def replay(pid, path, seed):
    """Re-run what a replay file recorded and validate it again (exit status as a check)."""
    import json
    import os
    import stream as st
    from oneshot import run_oneshot
    from vlib import Report, build_harness, FFILIB
    with open(path) as f:
        obj = json.load(f)
    rp = obj["replay"]
    seed = obj.get("seed", seed)
    eng = rp.get("engine")
    build_harness()
    rep = Report(pid, "quick", seed)
    rep.replay_mode = True
    rep.rule = "replay of one recorded scenario (%s engine)" % eng
    tpl, _ = st.get_templates(pid)
    prefix = [pid + "_"] if eng != "stream" else None
    if eng == "stream":
        st.run_and_validate(rep, pid, "replay", [rp["scenario"]], tpl, seed)
        rep.sample(rp["scenario"])
    elif eng in ("noise", "kr", "prims") and rp.get("scenario"):
        os.environ["VERIF_FFI_LIB"] = FFILIB
        run_oneshot(rep, pid, "replay", eng, [rp["scenario"]], tpl, seed, rp.get("module") or {"noise": "Trace_Noise", "kr": "Trace_Keyring", "prims": "Trace_Prims"}[eng])
        rep.sample(rp["scenario"])
    elif eng == "fuzz":
        e = rp["observed"]
        surface, kind, n, k = e["id"].rsplit(".", 3) if e["id"].count(".") >= 3 else (e["surface"], e["kind"], "0", "0")
        scn = {"op": "fuzz", "surface": e["surface"], "kind": e["kind"], "n": int(n), "k": int(k), "id": e["id"]}
        evs = checks_cli.run_fuzz_file(pid, tpl, seed, 0, [scn])
        from vlib import workdir, write_jsonl, validate_trace
        tp = os.path.join(workdir(pid, "run-replay", clean=True), "trace.ndjson")
        write_jsonl(tp, evs)
        v = validate_trace(pid, "replay", "Trace_Fuzz", tp, len(evs))
        rep.add_trace_run("replay", v, 1, len(evs))
        for (ln, pred) in v["viols"]:
            rep.violation("%s surface=%s kind=%s len=%s" % (pred, e["surface"], e["kind"], evs[ln - 1]["len"]), {"engine": "fuzz", "observed": evs[ln - 1]})
        rep.sample(scn)
    elif eng == "cli":
        w = checks_cli.World(pid, tpl, seed)
        checks_cli.run_configs(rep, pid, "replay", w, [rp["observed"]["cfg"]], [pid + "_", "C12_exit", "C12_error"],
                               psize=rp["observed"].get("psize"))
        rep.sample(rp["observed"]["cfg"])
    elif eng == "clirt":
        import cli
        import cli_rt
        from vlib import workdir, write_jsonl, validate_trace
        c = rp["case"]
        keys = cli.make_keys(pid, tpl, seed, [("alice", b"alice-pw"), ("bob", b"bob-pw")])
        ev = cli_rt.one(pid, tpl, seed, keys, c["prop"], c["mode"], c["plen"], c["wiring"], c["history"], c["idx"])
        tp = os.path.join(workdir(pid, "run-replay", clean=True), "trace.ndjson")
        write_jsonl(tp, [ev])
        v = validate_trace(pid, "replay", "Trace_Cli", tp, 1)
        rep.add_trace_run("replay", v, 1, 1)
        for (ln, pred) in v["viols"]:
            rep.violation("%s id=%s plen=%d wiring=%s history=%s" % (pred, ev["id"], ev["plen"], ev["wiring"], ev["history"]),
                          {"engine": "clirt", "observed": ev, "case": c})
        rep.sample(c)
    elif eng == "argv":
        import cli
        v = rp["observed"]["argv"]
        with cli.Sandbox(pid, "argv") as sb:
            sb.write("x", b"not a kestrel file")
            streams = rp["observed"].get("streams", "normal")
            faulty = streams != "normal"
            r = cli.kestrel([b"caf\xe9.ktl" if a == "<NONUTF8>" else a for a in v], env={"KESTREL_PASSWORD": "pw9", "KESTREL_NEW_PASSWORD": "pw10"} if faulty else {}, stdin=b"streamkey\n" if faulty else b"",
                            timeout=30, cwd=sb.dir, stdout_path="/dev/full" if streams == "stdout_full" else None,
                            stderr_path="/dev/full" if streams == "stderr_full" else None)
        ev = {"ev": "argv", "id": "replay", "argv": v, "streams": streams, "exit": r.rc, "errline": r.has_error_line, "timed_out": r.timed_out, "stderr": r.err_text[-200:]}
        checks_cli.validate_events_argv(rep, pid, [ev])
        rep.sample(ev)
    else:
        # history-level replays (fresh, cli-history, cliclear): the history is regenerated from the seed,
        # so the replay is the check itself with the recorded seed
        os.environ["VERIF_SEED"] = str(seed)
        return CHECKS[pid](pid, obj.get("tier", "quick"), seed)
    rep.case("replay", True)
    rep.case("replay-2", True)
    return rep.finish()
