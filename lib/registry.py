"""Property id -> check function."""
import checks_stream
import checks_noise
import checks_keyring
import checks_cli
import checks_prims

CHECKS = {
    "C01": checks_stream.c01,
    "C02": checks_stream.c02,
    "C03": checks_stream.c03,
    "C04": checks_stream.c04,
    "C05": checks_noise.c05,
    "C06": checks_noise.c06,
    "C07": checks_noise.c07,
    "C08": checks_noise.c08,
    "C09": checks_cli.c09,
    "C10": checks_stream.c10,
    "C12": checks_cli.c12,
    "C13": checks_cli.c13,
    "C14": checks_cli.c14,
    "C15": checks_keyring.c15,
    "C16": checks_cli.c16,
    "C17": checks_keyring.c17,
    "C11": checks_stream.c11,
    "C18": checks_prims.c18,
    "C19": checks_prims.c19,
    "C20": checks_prims.c20,
}


def replay(pid, path, seed):
    import json
    import stream as st
    from vlib import Report, build_harness
    with open(path) as f:
        obj = json.load(f)
    rp = obj["replay"]
    if rp.get("engine") == "stream":
        build_harness()
        rep = Report(pid, "quick", obj.get("seed", seed))
        tpl, _ = st.get_templates(pid)
        rep.rule = "replay of one recorded scenario"
        st.run_and_validate(rep, pid, "replay", [rp["scenario"]], tpl, obj.get("seed", seed))
        rep.case("replay", True)
        rep.case("replay2", True)
        rep.sample(rp["scenario"])
        return rep.finish()
    raise SystemExit("unknown replay engine")
