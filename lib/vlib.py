"""Common machinery for the kestrel checks: harness build, TLC runs, replay-line
parsing, trace validation, evidence and violation reporting.

Conventions (DESIGN.md section 5):
  exit 0  property held on everything explored (KNOWN-FINDING lines allowed)
  exit 1  VIOLATION property=<id> replay=<path>
  exit 2  failure of this tooling (cargo, TLC, JSON) - never a VIOLATION line
"""
import fcntl
import json
import os
import re
import shutil
import subprocess
import sys
import time

ROOT = os.path.dirname(os.path.dirname(os.path.abspath(__file__)))
SPEC = os.path.join(ROOT, "spec")
HARNESS = os.path.join(ROOT, "harness")
WORK = os.path.join(ROOT, "work")
EVID = os.path.join(ROOT, "evidence")
REPLAYS = os.path.join(ROOT, "replays")
BIN = os.path.join(HARNESS, "target", "release")
KDRV = os.path.join(BIN, "kdrv")
KRDRV = os.path.join(BIN, "krdrv")
KESTREL = os.path.join(BIN, "kestrel")
FFILIB = os.path.join(BIN, "libkestrel_ffi.so")
NCPU = os.cpu_count() or 4


class ToolError(Exception):
    """A failure of the verification tooling itself (exit 2)."""


def log(*a):
    print(*a, file=sys.stderr, flush=True)


def workdir(pid, sub=None, clean=False):
    d = os.path.join(WORK, pid) if sub is None else os.path.join(WORK, pid, sub)
    if clean and os.path.isdir(d):
        shutil.rmtree(d, ignore_errors=True)
    os.makedirs(d, exist_ok=True)
    return d


# --------------------------------------------------------------------------
# harness build (always from /repo's current working tree)
# --------------------------------------------------------------------------

def build_harness():
    """cargo build of the harness workspace. The shims and the driver compile the
    sources under /repo by path, so this always picks up the current working tree.
    Serialised with a file lock so parallel checks do not race in cargo."""
    os.makedirs(WORK, exist_ok=True)
    t0 = time.time()
    with open(os.path.join(WORK, ".build.lock"), "w") as lk:
        fcntl.flock(lk, fcntl.LOCK_EX)
        env = dict(os.environ)
        env["CARGO_NET_OFFLINE"] = "true"
        p = subprocess.run(
            ["cargo", "build", "--release", "--offline", "--quiet", "-p", "driver", "-p", "clishim", "-p", "ffishim"],
            cwd=HARNESS, env=env, stdout=subprocess.PIPE, stderr=subprocess.STDOUT, text=True)
        if p.returncode != 0:
            # A tree that no longer compiles is not something a property check can judge.
            raise ToolError("harness build failed:\n" + p.stdout[-4000:])
        # the second driver binary links the tool's PRIVATE keyring code; when a refactoring of those private interfaces
        # breaks it, only the checks that need it fail (with a tool error), the others still run
        p2 = subprocess.run(["cargo", "build", "--release", "--offline", "--quiet", "-p", "krdriver"],
                            cwd=HARNESS, env=env, stdout=subprocess.PIPE, stderr=subprocess.STDOUT, text=True)
        marker = os.path.join(WORK, ".krdrv_failed")
        if p2.returncode != 0:
            with open(marker, "w") as f:
                f.write(p2.stdout[-3000:])
            if os.path.exists(KRDRV):
                os.remove(KRDRV)
        elif os.path.exists(marker):
            os.remove(marker)
    for f in (KDRV, KESTREL, FFILIB):
        if not os.path.exists(f):
            raise ToolError("missing build product " + f)
    return time.time() - t0


def krdrv():
    """Path of the driver binary that includes the tool's private keyring code; a tool error when it did not build."""
    if not os.path.exists(KRDRV):
        why = ""
        try:
            why = open(os.path.join(WORK, ".krdrv_failed")).read()
        except OSError:
            pass
        raise ToolError("the harness part that compiles the tool's private keyring code (krdrv) does not build against this tree; "
                        "checks that need it cannot judge it:\n" + why[-1500:])
    return KRDRV


# --------------------------------------------------------------------------
# TLC
# --------------------------------------------------------------------------

class TLCResult:
    def __init__(self):
        self.rc = None
        self.out = ""
        self.generated = 0
        self.distinct = 0
        self.depth = 0
        self.violated = None      # name of violated invariant / property
        self.error = None         # other error text
        self.replays = []         # decoded REPLAY payloads
        self.prints = []          # other PrintT tuples (raw text)
        self.wall = 0.0
        self.coverage = {}        # action name -> (distinct, total) when -coverage was on

    @property
    def ok(self):
        return self.rc == 0 and self.violated is None and self.error is None


_REPLAY_RE = re.compile(r'^<<"REPLAY", (".*")>>$')
_STATES_RE = re.compile(r'^(\d+) states generated, (\d+) distinct states found')
_DEPTH_RE = re.compile(r'^The depth of the complete state graph search is (\d+)')
_COV_RE = re.compile(r'^<(\w+) line \d+, col \d+ to line \d+, col \d+ of module (\w+)>: (\d+):(\d+)')


def parse_tlc_output(res, out):
    res.out = out
    for line in out.splitlines():
        m = _REPLAY_RE.match(line)
        if m:
            try:
                res.replays.append(json.loads(json.loads(m.group(1))))
            except Exception as e:  # pragma: no cover
                raise ToolError("cannot decode REPLAY line: %s (%s)" % (line[:200], e))
            continue
        m = _STATES_RE.match(line)
        if m:
            res.generated, res.distinct = int(m.group(1)), int(m.group(2))
            continue
        m = _DEPTH_RE.match(line)
        if m:
            res.depth = int(m.group(1))
            continue
        m = _COV_RE.match(line)
        if m:
            res.coverage[m.group(1)] = (int(m.group(3)), int(m.group(4)))
            continue
        m = re.match(r'^Error: Invariant (\w+) is violated', line)
        if m:
            res.violated = m.group(1)
            continue
        m = re.match(r'^Error: Action property (\w+) is violated', line)
        if m:
            res.violated = m.group(1)
            continue
        if line.startswith("Error: Temporal properties were violated"):
            res.violated = "TemporalProperty"
            continue
        if line.startswith("Error: Deadlock reached"):
            res.violated = "Deadlock"
            continue
        if line.startswith("Error:") and res.error is None and res.violated is None:
            res.error = line
        if line.startswith("<<") and not line.startswith('<<"REPLAY"'):
            res.prints.append(line)


def run_tlc(pid, name, module, cfg_text, workers=4, env=None, timeout=900, simulate=None,
            coverage=False, deque=False, xmx="4g", extra=None, seed=None):
    """Run TLC on /verif/spec/<module>.tla with a generated config.
    Returns TLCResult. Raises ToolError on timeout or when TLC itself breaks
    (parse errors, evaluation errors) - an invariant violation is *not* a ToolError."""
    wd = workdir(pid, "tlc-" + name, clean=True)
    cfg = os.path.join(wd, module + ".cfg")
    with open(cfg, "w") as f:
        f.write(cfg_text)
    jopts = "-Xss1g"
    if deque:
        jopts += " -Dtlc2.tool.queue.IStateQueue=StateDeque"
    e = dict(os.environ)
    if env:
        e.update({k: str(v) for k, v in env.items()})
    e["JAVA_TOOL_OPTIONS"] = jopts
    cmd = ["java", "-XX:+UseParallelGC", "-Xmx" + xmx, "-cp",
           "/opt/veriftools/tla/tla2tools.jar:/opt/veriftools/tla/CommunityModules-deps.jar",
           "tlc2.TLC", "-workers", str(workers), "-metadir", os.path.join(wd, "md"),
           "-cleanup", "-noGenerateSpecTE", "-checkpoint", "0", "-config", cfg]      # (the depth-first queue cannot be checkpointed)
    if coverage:
        cmd += ["-coverage", "1"]
    if simulate:
        cmd += ["-simulate", simulate]
    if seed is not None:
        cmd += ["-seed", str(seed)]
    if extra:
        cmd += extra
    cmd.append(os.path.join(SPEC, module + ".tla"))
    t0 = time.time()
    try:
        p = subprocess.run(cmd, cwd=SPEC, env=e, stdout=subprocess.PIPE, stderr=subprocess.STDOUT,
                           text=True, timeout=timeout)
    except subprocess.TimeoutExpired:
        raise ToolError("TLC timed out after %ss on %s/%s" % (timeout, module, name))
    res = TLCResult()
    res.rc = p.returncode
    res.wall = time.time() - t0
    with open(os.path.join(wd, "out.txt"), "w") as f:
        f.write(p.stdout)
    parse_tlc_output(res, p.stdout)
    shutil.rmtree(os.path.join(wd, "md"), ignore_errors=True)
    if res.error is not None and res.violated is None:
        raise ToolError("TLC error in %s/%s: %s\n%s" % (module, name, res.error, p.stdout[-3000:]))
    if res.rc not in (0, 10, 11, 12, 13) and res.violated is None:
        raise ToolError("TLC exit %s in %s/%s\n%s" % (res.rc, module, name, p.stdout[-3000:]))
    return res


def apalache_inductive(rep, pid, module, safety="Safety", timeout=600):
    """Unbounded argument: discharge with Apalache (a) Init => IndInv, (b) IndInv /\\ Next => IndInv',
    (c) IndInv => Safety for the integer projection spec/<module>.tla (arbitrary chunk size,
    arbitrary number of chunks).  A timeout is 'inconclusive' (recorded, never a violation); a
    counterexample means the projection or its invariant is wrong (a model bug: ToolError)."""
    wd = workdir(pid, "apalache-" + module, clean=True)
    src = os.path.join(SPEC, module + ".tla")
    steps = [("init", ["--init=Init", "--inv=IndInv", "--length=0"]),
             ("consecution", ["--init=IndInit", "--inv=IndInv", "--length=1"]),
             ("implies_safety", ["--init=IndInit", "--inv=" + safety, "--length=0"])]
    done = 0
    t0 = time.time()
    for name, args in steps:
        cmd = ["apalache-mc", "check", "--cinit=ConstInit", "--out-dir=" + os.path.join(wd, "out"), "--run-dir=" + os.path.join(wd, "run-" + name)] + args + [src]
        try:
            p = subprocess.run(cmd, cwd=wd, stdout=subprocess.PIPE, stderr=subprocess.STDOUT, text=True, timeout=timeout)
        except subprocess.TimeoutExpired:
            rep.notes.append("Apalache %s/%s: inconclusive (timeout %ss)" % (module, name, timeout))
            continue
        if "EXITCODE: OK" in p.stdout:
            done += 1
        elif "violated" in p.stdout or "EXITCODE: ERROR (12)" in p.stdout:
            raise ToolError("Apalache found a counterexample to %s/%s (projection or invariant wrong)\n%s" % (module, name, p.stdout[-1500:]))
        else:
            rep.notes.append("Apalache %s/%s: inconclusive (%s)" % (module, name, p.stdout.strip().splitlines()[-1] if p.stdout.strip() else "no output"))
    shutil.rmtree(wd, ignore_errors=True)
    rep.models.append({"name": "apalache-" + module, "obligations": len(steps), "discharged": done, "wall_s": round(time.time() - t0, 2),
                       "what": "inductive invariant of the integer projection (any chunk size, any number of chunks): Init => IndInv, "
                               "IndInv /\\ Next => IndInv', IndInv => " + safety})
    if done == len(steps):
        rep.notes.append("unbounded: %s.%s proved inductively by Apalache (3/3 obligations)" % (module, safety))
    return done


def cfg(spec=None, init=None, next_=None, constants=None, invariants=(), properties=(),
        constraint=None, view=None, deadlock=False, postcondition=None, action_constraint=None):
    lines = []
    if spec:
        lines.append("SPECIFICATION " + spec)
    else:
        lines.append("INIT " + init)
        lines.append("NEXT " + next_)
    if constants:
        lines.append("CONSTANTS")
        for k, v in constants.items():
            lines.append("  %s = %s" % (k, tla_val(v)))
    for i in invariants:
        lines.append("INVARIANT " + i)
    for p in properties:
        lines.append("PROPERTY " + p)
    if constraint:
        lines.append("CONSTRAINT " + constraint)
    if action_constraint:
        lines.append("ACTION_CONSTRAINT " + action_constraint)
    if view:
        lines.append("VIEW " + view)
    if postcondition:
        lines.append("POSTCONDITION " + postcondition)
    lines.append("CHECK_DEADLOCK " + ("TRUE" if deadlock else "FALSE"))
    return "\n".join(lines) + "\n"


def tla_val(v):
    if isinstance(v, bool):
        return "TRUE" if v else "FALSE"
    if isinstance(v, int):
        return str(v)
    if isinstance(v, str):
        return '"%s"' % v
    if isinstance(v, (set, frozenset)):
        return "{" + ", ".join(tla_val(x) for x in sorted(v, key=str)) + "}"
    if isinstance(v, (list, tuple)):
        return "<<" + ", ".join(tla_val(x) for x in v) + ">>"
    raise ValueError(v)


# --------------------------------------------------------------------------
# trace validation (impl -> spec)
# --------------------------------------------------------------------------

def validate_trace(pid, name, module, trace_path, n_events, constants=None, timeout=900):
    """Check a recorded ndjson trace against a trace specification.

    The trace specifications are total monitors: every well-formed event can be
    consumed, the contract predicates are evaluated at every event, and a broken
    predicate is recorded in the state variable `viol`, which the invariant
    NoViolation watches. So TLC either (a) consumes the whole trace with every
    invariant true at every event, (b) reports NoViolation with the offending
    event index and predicate name, or (c) cannot consume an event, which means the
    trace is not well-formed (a tool problem, reported as such).

    Returns dict(ok, viol, line, states, generated)."""
    c = cfg(spec="TraceSpec", constants=constants, postcondition="TraceAccepted")
    # long traces (hundreds of thousands of events for multi-GiB inputs) get time in proportion: about 2 500 events per
    # second on an idle machine, a twentieth of that allowed for when the machine is busy
    timeout = max(timeout, 300 + n_events // 100)
    res = run_tlc(pid, name, module, c, workers=1, env={"TRACE": trace_path}, deque=True,
                  timeout=timeout, xmx="6g")
    out = {"ok": False, "viols": [], "states": res.distinct, "generated": res.generated, "wall": res.wall}
    if res.violated is not None:
        raise ToolError("trace spec %s reported %s\n%s" % (module, res.violated, res.out[-3000:]))
    m = re.search(r'TRACE-NOT-CONSUMED at line", (\d+)', res.out)
    if m or res.rc != 0:
        raise ToolError("trace %s not consumed by %s (diameter %s of %d events)\n%s"
                        % (trace_path, module, m.group(1) if m else "?", n_events, res.out[-2000:]))
    if not res.replays:
        raise ToolError("trace spec %s printed no verdict for %s" % (module, trace_path))
    out["viols"] = [(v["line"], v["pred"]) for v in res.replays[-1]["viol"]]
    out["ok"] = not out["viols"]
    return out


# --------------------------------------------------------------------------
# driver
# --------------------------------------------------------------------------

class DriverDied(ToolError):
    """The driver process was started and did not end with status 0 (killed by a signal, aborted, exit status of a panic,
    timed out).  Whether that is an observation about the code under test or a failure of the harness is decided by the
    caller (oneshot._harness_own_failure); a driver that could not be built or started is a plain ToolError."""


def run_driver(args, stdin_text=None, timeout=1800, env=None, check=True):
    e = dict(os.environ)
    if env:
        e.update({k: str(v) for k, v in env.items()})
    exe = krdrv() if args and args[0] in ("kr", "fuzz") else KDRV
    try:
        p = subprocess.run([exe] + args, input=stdin_text, stdout=subprocess.PIPE,
                           stderr=subprocess.PIPE, text=True, timeout=timeout, env=e)
    except subprocess.TimeoutExpired:
        raise DriverDied("driver timed out: kdrv " + " ".join(args))
    if check and p.returncode != 0:
        raise DriverDied("driver failed (%s): kdrv %s\n%s" % (p.returncode, " ".join(args), p.stderr[-3000:]))
    return p


def write_jsonl(path, items):
    with open(path, "w") as f:
        for it in items:
            f.write(json.dumps(it, separators=(",", ":")) + "\n")


def read_jsonl(path):
    out = []
    with open(path) as f:
        for line in f:
            line = line.strip()
            if line:
                out.append(json.loads(line))
    return out


# --------------------------------------------------------------------------
# known findings / violations / evidence
# --------------------------------------------------------------------------

def known_findings(pid):
    path = os.path.join(ROOT, "known-findings.json")
    if not os.path.exists(path):
        return []
    with open(path) as f:
        data = json.load(f)
    return [x for x in data.get("open", []) if x.get("property") == pid]


class Report:
    """Collects what a check did; writes evidence; decides the exit status."""

    def __init__(self, pid, tier, seed, level="model_checking"):
        self.pid = pid
        self.tier = tier
        self.seed = seed
        self.level = level
        self.t0 = time.time()
        self.states = 0
        self.transitions = 0
        self.traces = 0
        self.evaluations = 0
        self.distinct = set()
        self.distinct_count_extra = 0
        self.samples = []
        self.violations = []      # (what, replay_obj)
        self.known = []
        self.notes = []
        self.models = []          # per TLC run: name, states, transitions, wall
        self.assumptions = []
        self.rule = ""
        self.extra = {}
        self.exhaustive = None
        self.replay_mode = False   # a --replay run neither rewrites the evidence file nor clears earlier replays

    def add_model(self, name, res, what=""):
        self.states += res.distinct
        self.transitions += res.generated
        self.models.append({"name": name, "distinct_states": res.distinct,
                            "states_generated": res.generated, "depth": res.depth,
                            "wall_s": round(res.wall, 2), "what": what})

    def add_trace_run(self, name, v, n_runs, n_events):
        self.states += v["states"]
        self.transitions += v["generated"]
        self.traces += n_runs
        self.models.append({"name": name, "trace_events": n_events, "runs": n_runs,
                            "distinct_states": v["states"], "wall_s": round(v["wall"], 2),
                            "what": "recorded implementation events checked against the trace specification"})

    def sample(self, s, limit=6):
        if len(self.samples) < limit:
            self.samples.append(s)

    def case(self, key, nontrivial=True):
        self.evaluations += 1
        if nontrivial:
            self.distinct.add(key)

    def violation(self, what, replay_obj):
        self.violations.append((what, replay_obj))

    def finish(self):
        os.makedirs(EVID, exist_ok=True)
        if not self.replay_mode:
            shutil.rmtree(os.path.join(REPLAYS, self.pid), ignore_errors=True)   # replays of earlier runs
        known = known_findings(self.pid)
        real = []
        for what, obj in self.violations:
            k = None
            for kf in known:
                ms = kf.get("match")
                if isinstance(ms, str):
                    ms = [ms]
                if ms and all(m in what for m in ms):
                    k = kf
                    break
            if k is not None:
                if k not in self.known:
                    self.known.append(k)
            else:
                real.append((what, obj))
        cov = {
            "states": self.states,
            "transitions": self.transitions,
            "traces_validated_against_impl": self.traces,
            "evaluations": self.evaluations,
            "distinct_nontrivial": len(self.distinct) + self.distinct_count_extra,
            "rule": self.rule,
            "samples": self.samples if self.samples else ["(no sample recorded)"],
            "models": self.models,
            "notes": self.notes,
        }
        if self.exhaustive is not None:
            cov["exhaustive"] = self.exhaustive
        cov.update(self.extra)
        ev = {
            "property_id": self.pid,
            "tier": self.tier,
            "seed": self.seed,
            "level": self.level,
            "coverage": cov,
            "assumptions": self.assumptions,
            "wall_s": round(time.time() - self.t0, 2),
            "violations": len(real),
        }
        if not self.replay_mode:
            with open(os.path.join(EVID, self.pid + ".json"), "w") as f:
                json.dump(ev, f, indent=1, sort_keys=True)
                f.write("\n")
        for kf in self.known:
            print("KNOWN-FINDING: property=%s %s" % (self.pid, kf.get("what", kf.get("match"))))
        if real:
            d = os.path.join(REPLAYS, self.pid)
            os.makedirs(d, exist_ok=True)
            log("%d violations; the first %d are written out" % (len(real), min(len(real), 5)))
            for i, (what, obj) in enumerate(real[:5]):
                path = os.path.join(d, ("replayed-%d.json" if self.replay_mode else "%d.json") % i)
                with open(path, "w") as f:
                    json.dump({"property": self.pid, "what": what, "seed": self.seed,
                               "tier": self.tier, "replay": obj}, f, indent=1)
                    f.write("\n")
                print("VIOLATION property=%s replay=%s" % (self.pid, path))
                log("  " + what)
            return 1
        return 0
