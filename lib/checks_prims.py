"""Checks of the primitive engine: C18, C19, C20."""
import hashlib
import hmac as pyhmac
import json
import os
import random

import stream as st
from oneshot import run_oneshot
from vlib import Report, ToolError, build_harness, run_tlc, validate_trace, workdir, write_jsonl, read_jsonl, run_driver, FFILIB, NCPU


def run_prims(rep, pid, name, scen, tpl, seed, prefixes, nproc=None):
    os.environ["VERIF_FFI_LIB"] = FFILIB
    return run_oneshot(rep, pid, name, "prims", scen, tpl, seed, "Trace_Prims", nproc=nproc, only_prefixes=prefixes)


def oracle_events(pid, tpl, seed, cases):
    """Supplementary (not a TLA+ result): the working tree's primitive vs an external reference."""
    wd = workdir(pid, "oracle", clean=True)
    sp, op = os.path.join(wd, "s.jsonl"), os.path.join(wd, "o.jsonl")
    write_jsonl(sp, [c[0] for c in cases])
    run_driver(["prims", tpl, sp, op], env={"VERIF_SEED": seed})
    outs = read_jsonl(op)
    evs = []
    for (scn, want), o in zip(cases, outs):
        evs.append({"ev": "oracle", "id": scn["id"], "fn": scn["fn"], "same": o["res"] == "ok" and o["out_hex"] == want,
                    "reference": scn.get("ref", "")})
    return evs


def validate_list(rep, pid, name, evs, prefixes):
    wd = workdir(pid, "run-" + name, clean=True)
    tp = os.path.join(wd, "trace.ndjson")
    write_jsonl(tp, evs)
    v = validate_trace(pid, name, "Trace_Prims", tp, len(evs))
    rep.add_trace_run(name, v, len(evs), len(evs))
    for (ln, pred) in v["viols"]:
        if pred.startswith("TOOL_"):
            raise ToolError("trace tooling mismatch " + pred)
        if not any(pred.startswith(p) for p in prefixes):
            continue
        rep.violation("%s id=%s" % (pred, evs[ln - 1].get("id")), {"engine": "prims", "observed": evs[ln - 1]})


def ffi_cfg(variant):
    return 'SPECIFICATION Spec\nCONSTANT Variant = "%s"\nINVARIANT Frame\n%sCHECK_DEADLOCK FALSE\n' % (variant, "INVARIANT Emit\n" if variant == "none" else "")


SALSA_IN = ("7e879a214f3ec9867ca940e641718f26baee555b8c61c1b50df846116dcd3b1dee24f319df9b3d8514121e4b5ac5aa3276021d2909c74829edebc68db8b8c25e")
SALSA_OUT = ("a41f859c6608cc993b81cacb020cef05044b2181a2fd337dfd7b1c6396682f29b4393168e3c9e6bcfe6bc5b7a06d96bae424cc102c91745c24ad673dc7618f81")


def c18(pid, tier, seed, selftest=False):
    rep = Report(pid, tier, seed)
    rep.rule = ("call shapes {password length 0,1,7,64,65} x {salt length 0,3,16,33} x N in {2,4,16,1024} x r in {1,2,4} x p in {1,2,3} x "
                "dkLen in {1,31,32,33,64,65,200} enumerated by TLC from Ffi.tla (frame condition: guards, inputs, exactly dkLen bytes); "
                "each call is made through the working tree's cdylib (dlopen) with 64 guard bytes on both sides and compared with the "
                "library function; the laws the specification assumes of SCRYPT (deterministic, sensitive to each of password, salt, "
                "N, r, p, shorter output is a prefix) are checked on the same grid; supplementary, outside the TLA+ method: the "
                "library function against OpenSSL's scrypt (hashlib) on a parameter grid incl. the production parameters; "
                "non-trivial = unequal password / salt lengths or dkLen not 32")
    rep.assumptions = ["whether the Salsa20/8 - BlockMix - ROMix core IS RFC 7914 is not decidable by TLC (DESIGN.md 7): that clause is covered "
                       "only by the supplementary differential comparison with OpenSSL, stated as such",
                       "unequal password and salt lengths make an argument swap visible"]
    build_harness()
    tpl, tres = st.get_templates(pid)
    rep.add_model("terms", tres, "byte-layout templates")
    thorough = tier == "thorough"
    res = run_tlc(pid, "ffi-mc", "Ffi", ffi_cfg("none"), workers=1, timeout=300)
    rep.add_model("ffi-mc", res, "frame condition on every call shape; emits the shapes")
    if res.violated:
        raise ToolError("Ffi model violates " + res.violated)
    if thorough or selftest:
        for v in ("OverrunByOne", "SwapPwSalt", "TruncatedCopy"):
            r = run_tlc(pid, "neg-" + v, "Ffi", ffi_cfg(v), workers=1, timeout=120)
            rep.add_model("neg-" + v, r, "deviation must break Frame")
            if r.violated != "Frame":
                raise ToolError("negative variant %s: got %s" % (v, r.violated))
    calls = [r["call"] for r in res.replays]
    if not thorough:
        calls = [c for i, c in enumerate(calls) if i % 5 == 0 or (c["n"] == 1024 and c["r"] == 4 and c["dklen"] in (32, 200) and i % 2 == 0)]
    scen = []
    for i, c in enumerate(calls):
        scen.append({"op": "ffi", "id": "f%d" % i, "call": c})
        if thorough or i % 3 == 0:
            scen.append({"op": "scrypt_axiom", "id": "x%d" % i, "call": c})
    for s in scen:
        rep.case(json.dumps(s, sort_keys=True), s["call"]["pwlen"] != s["call"]["saltlen"] or s["call"]["dklen"] != 32)
    rep.sample(scen[0])
    run_prims(rep, pid, "ffi", scen, tpl, seed, ["C18_"], nproc=16)
    # RFC 7914 itself, as far as it is structure: the term of Scrypt7914.tla (PBKDF2 over HMAC, ROMix, BlockMix, Integerify
    # over the Salsa20/8 core) evaluated with the tree's hmac_sha256 / Salsa20/8 against the tree's scrypt()
    sres = run_tlc(pid, "scrypt7914", "Scrypt7914", "SPECIFICATION Spec\nINVARIANT WellFormed\nINVARIANT Emit\nCHECK_DEADLOCK FALSE\n",
                   workers=1, timeout=600, xmx="6g")
    rep.add_model("scrypt7914", sres, "RFC 7914 sections 4-6 as terms over HMAC and the Salsa20/8 core for every case of the grid; emits the terms")
    if sres.violated:
        raise ToolError("Scrypt7914 violates " + sres.violated)
    sc = sres.replays
    if not thorough:
        sc = [r for i, r in enumerate(sc) if i % 4 == 0]
    rscen = [{"op": "rfc", "id": "s7914.%d" % i, "kind": "scrypt", "c": r["c"], "term": r["term"]} for i, r in enumerate(sc)]
    for s in rscen:
        rep.case(json.dumps(s["c"], sort_keys=True), True)
    run_prims(rep, pid, "rfc7914", rscen, tpl, seed, ["C18_"], nproc=16)
    rep.extra["rfc7914_structural_cases"] = len(rscen)
    # supplementary reference comparison
    rnd = random.Random(seed)
    cases = []
    grid = [(2, 1, 1), (4, 2, 1), (16, 1, 2), (64, 3, 3), (1024, 8, 1), (16384, 8, 1), (32768, 8, 1), (256, 16, 2), (8, 4, 8)]
    if thorough:
        grid += [(2 ** k, r, p) for k in range(1, 13) for r in (1, 5, 16) for p in (1, 4, 8) if 128 * r * 2 ** k <= 16 << 20]
    # the far corner of the stated bounds (N = 2^15 and 2^14 with r p up to 128: lanes of 16..64 MiB, several of them, 256 MiB
    # and more in total), where an implementation may switch strategy (lanes in parallel under a memory budget, in sequence
    # above it); one call shape each, they take seconds
    corner = [(32768, 16, 5), (32768, 9, 8), (16384, 16, 8), (32768, 16, 8), (32768, 11, 6), (32768, 16, 4), (32768, 8, 8), (16384, 13, 7)]
    if thorough:
        corner += [(32768, r, p) for r in (8, 10, 12, 14, 15, 16) for p in (2, 3, 5, 7, 8) if (32768, r, p) not in corner]
    ngrid = len(grid)
    grid += corner
    for i, (n, r, p) in enumerate(grid):
        for j, (pl, sl, dk) in enumerate([(0, 0, 32), (8, 32, 32), (65, 1, 200), (1, 64, 1), (64, 16, 32), (63, 65, 33), (128, 63, 64)]):
            if j >= 4 and i % 3 and not thorough:
                continue
            if i >= ngrid and j != 1 + i % 3:
                continue
            pw = bytes(rnd.getrandbits(8) for _ in range(pl))
            salt = bytes(rnd.getrandbits(8) for _ in range(sl))
            want = hashlib.scrypt(pw, salt=salt, n=n, r=r, p=p, dklen=dk, maxmem=(128 if i < ngrid else 2000) * 1024 * 1024).hex()
            cases.append(({"op": "prim", "id": "o%d.%d" % (i, j), "fn": "scrypt", "password": pw.hex(), "salt": salt.hex(), "n": n, "r": r, "p": p,
                           "len": dk, "ref": "OpenSSL scrypt via hashlib"}, want))
    # the leaf: Salsa20/8 core, RFC 7914 section 8
    cases.append(({"op": "prim", "id": "salsa", "fn": "salsa20_8", "block": SALSA_IN, "ref": "RFC 7914 section 8"}, SALSA_OUT))
    evs = oracle_events(pid, tpl, seed, cases)
    validate_list(rep, pid, "oracle", evs, ["C18_"])
    for e in evs:
        rep.case(e["id"], True)
    rep.extra["reference_comparisons"] = len(evs)
    return rep.finish()


RFC8439_VEC = {
    "key": "808182838485868788898a8b8c8d8e8f909192939495969798999a9b9c9d9e9f",
    "nonce": "070000004041424344454647",
    "aad": "50515253c0c1c2c3c4c5c6c7",
    "pt": "4c616469657320616e642047656e746c656d656e206f662074686520636c617373206f66202739393a204966204920636f756c64206f6666657220796f75206f6e6c79206f6e652074697020666f7220746865206675747572652c2073756e73637265656e20776f756c642062652069742e",
    "out": "d31a8d34648e60db7b86afbc53ef7ec2a4aded51296e08fea9e2b5a736ee62d63dbea45e8ca9671282fafb69da92728b1a71de0a9e060b2905d6a5b67ecd3b3692ddbd7f2d778b8c9803aee328091b58fab324e4fad675945585808b4831d7bc3ff4def08e4b7a9de576d26586cec64b61161ae10b594f09e26a7e902ecbd0600691",
}
RFC7748_VECS = [
    ("a546e36bf0527c9d3b16154b82465edd62144c0ac1fc5a18506a2244ba449ac4", "e6db6867583030db3594c1a424b15f7c726624ec26b3353b10a903a6d0ab1c4c",
     "c3da55379de9c6908e94ea4df28d084f32eccf03491c71f754b4075577a28552"),
    ("4b66e9d4d1b4673c5ad22691957d6af5c11b6421e0ea01d42ca4169e7918ba0d", "e5210f12786811d3f4b7959d0538ae2c31dbe7106fc03c3efc4cd549c715a493",
     "95cbde9476e8907d7aade45cb4b873f88b595a68799fa152e6f8f7647aac7957"),
    ("77076d0a7318a57d3c16c17251b26645df4c2f87ebc0992ab177fba51db92c2a", "de9edb7d7b7dc1b4d35b61c2ece435373f8343c85b78674dadfc7e146f882b4f",
     "4a5d9d5ba4ce2de1728e3bf480350f25e07e21c947d19e3376f09b3c1e161742"),
]


def py_hkdf(salt, ikm, info, n):
    prk = pyhmac.new(salt if salt else b"\x00" * 32, ikm, hashlib.sha256).digest()
    out, t, i = b"", b"", 1
    while len(out) < n:
        t = pyhmac.new(prk, t + info + bytes([i]), hashlib.sha256).digest()
        out += t
        i += 1
    return out[:n]


def c19(pid, tier, seed, selftest=False):
    rep = Report(pid, tier, seed)
    rep.rule = ("(a) the axioms of the symbolic algebra against the exported functions: the case analysis of AEAD open (what changed "
                "between seal and open x plaintext length class x AD length) and of X25519 (scalar class x point class incl. all 14 "
                "low-order / non-canonical encodings), enumerated by TLC from Rfc.tla with the symbolic verdict; (b) structural RFC "
                "definitions as terms: HMAC (RFC 2104) over the exported sha256 for key x message length classes, HKDF (RFC 5869) over "
                "the exported hmac_sha256 for salt / ikm / info / output length classes up to 8160, evaluated and compared with the "
                "exported outer function; (c) the counter nonce through the hook; supplementary, outside the TLA+ method: SHA-256 / "
                "HMAC / HKDF against hashlib, X25519 and the AEAD against RFC 7748 / 8439 vectors; non-trivial = any case with a change "
                "or a non-empty input")
    rep.assumptions = ["the leaves (SHA-256 compression, ChaCha20 block, Poly1305, the X25519 ladder) are orion code outside finfet/kestrel; "
                       "TLC cannot decide their RFC conformance (DESIGN.md 7): covered only by the supplementary reference comparison"]
    build_harness()
    tpl, tres = st.get_templates(pid)
    rep.add_model("terms", tres, "byte-layout templates")
    thorough = tier == "thorough"
    res = run_tlc(pid, "rfc-mc", "Rfc", "SPECIFICATION Spec\nINVARIANT AeadAxiom\nINVARIANT Emit\nCHECK_DEADLOCK FALSE\n", workers=1, timeout=600)
    rep.add_model("rfc-mc", res, "case analysis of the axioms and structural terms; AeadAxiom")
    if res.violated:
        raise ToolError("Rfc model violates " + res.violated)
    scen = []
    for i, r in enumerate(res.replays):
        k = r["kind"]
        if k in ("hmac", "hkdf"):
            if not thorough and k == "hkdf" and r["c"]["len"] > 300 and i % 4:
                continue
            scen.append({"op": "rfc", "id": "%s%d" % (k, i), "kind": k, "c": r["c"], "term": r["term"]})
        elif k == "aead":
            for rep_i in range(3 if thorough else 1):
                scen.append({"op": "aead", "id": "aead%d.%d" % (i, rep_i), "c": r["c"], "opens": r["opens"]})
        else:
            for rep_i in range(8 if thorough else 2):
                scen.append({"op": "dh", "id": "dh%d.%d" % (i, rep_i), "c": r["c"], "fails": r["fails"]})
    # derivation vs base-point multiplication for thousands of scalars (a fault that hits one key in a few hundred)
    for k in range(16 if thorough else 4):
        scen.append({"op": "derive_sweep", "id": "sweep%d" % k, "k": k, "n": 4000})
    for s in scen:
        rep.case(s["id"], True)
    rep.sample({k: v for k, v in scen[0].items() if k != "term"})
    run_prims(rep, pid, "axioms", scen, tpl, seed, ["C19_"], nproc=16)
    # counter nonce (shared with C06)
    import checks_noise
    one = [{"op": "nonce", "id": "n%d" % i, "ctr": c, "adlen": i % 7, "ptlen": (i * 5) % 40} for i, c in enumerate(checks_noise.COUNTERS)]
    run_oneshot(rep, pid, "nonce", "noise", one, tpl, seed, "Trace_Noise", nproc=2, only_prefixes=["C19_"])
    for s in one:
        rep.case(s["id"], True)
    # supplementary reference comparison
    rnd = random.Random(seed + 19)
    cases = []
    for i, n in enumerate([0, 1, 55, 56, 63, 64, 65, 119, 120, 1000, 100000] + ([rnd.randint(0, 5000) for _ in range(200)] if thorough else [])):
        d = bytes(rnd.getrandbits(8) for _ in range(n))
        cases.append(({"op": "prim", "id": "sha%d" % i, "fn": "sha256", "data": d.hex(), "ref": "hashlib"}, hashlib.sha256(d).hexdigest()))
    for i, (kl, ml) in enumerate([(0, 0), (1, 1), (32, 50), (64, 64), (65, 10), (130, 130), (20, 1000)]):
        k = bytes(rnd.getrandbits(8) for _ in range(kl))
        d = bytes(rnd.getrandbits(8) for _ in range(ml))
        cases.append(({"op": "prim", "id": "hm%d" % i, "fn": "hmac", "key": k.hex(), "data": d.hex(), "ref": "python hmac"}, pyhmac.new(k, d, hashlib.sha256).hexdigest()))
    for i, (sl, il, fl, n) in enumerate([(0, 22, 0, 42), (13, 22, 10, 42), (80, 80, 80, 82), (32, 32, 0, 1), (0, 0, 0, 32), (7, 1, 3, 8160), (64, 5, 64, 255)]):
        s_, ik, inf = [bytes(rnd.getrandbits(8) for _ in range(x)) for x in (sl, il, fl)]
        cases.append(({"op": "prim", "id": "hk%d" % i, "fn": "hkdf", "salt": s_.hex(), "ikm": ik.hex(), "info": inf.hex(), "len": n,
                       "ref": "RFC 5869 in python over hashlib"}, py_hkdf(s_, ik, inf, n).hex()))
    for i, (k, u, out) in enumerate(RFC7748_VECS):
        cases.append(({"op": "prim", "id": "x%d" % i, "fn": "x25519", "k": k, "u": u, "ref": "RFC 7748 vector"}, out))
    v = RFC8439_VEC
    cases.append(({"op": "prim", "id": "ae0", "fn": "aead_seal", "key": v["key"], "nonce": v["nonce"], "aad": v["aad"], "pt": v["pt"],
                   "ref": "RFC 8439 2.8.2"}, v["out"]))
    evs = oracle_events(pid, tpl, seed, cases)
    validate_list(rep, pid, "oracle", evs, ["C19_"])
    for e in evs:
        rep.case(e["id"], True)
    rep.extra["reference_comparisons"] = len(evs)
    return rep.finish()


def erase_cfg(steps, slots, variant, emit):
    return ('SPECIFICATION Spec\nCONSTANTS\n  MaxSteps = %d\n  NSlots = %d\n  Variant = "%s"\nINVARIANT ErasedAtRelease\nINVARIANT LiveUntouched\nINVARIANT HoldersExact\n%sCHECK_DEADLOCK FALSE\n'
            % (steps, slots, variant, "INVARIANT Emit\n" if emit else ""))


def c20(pid, tier, seed, selftest=False):
    rep = Report(pid, tier, seed)
    rep.rule = ("every program of n construct / clone / explicit zeroize / clone_from into a live object / drop / drop-while-the-thread-unwinds-from-a-panic / drop-two-handles-concurrently steps over 3 slots and the constructors {PrivateKey::generate, "
                "PrivateKey::try_from, PayloadKey::new (boxed)}, enumerated by TLC from Erase.tla (ErasedAtRelease, LiveUntouched), is "
                "executed on the real containers with each secret's heap block registered in the harness allocator, which inspects the "
                "bytes at the moment the block is released; objects still live at the end are dropped in slot order; "
                "non-trivial = program with at least one clone")
    rep.assumptions = ["only heap blocks owned by the containers are observed (PayloadKey is boxed by the harness); stack copies made by "
                       "moves are outside the property, as the code comments say",
                       "secrets contain no zero byte, so 'all zero at release' cannot be accidental"]
    build_harness()
    tpl, tres = st.get_templates(pid)
    rep.add_model("terms", tres, "byte-layout templates")
    thorough = tier == "thorough"
    n = 5 if thorough else 4
    res = run_tlc(pid, "erase-mc", "Erase", erase_cfg(n, 3, "none", True), workers=1, timeout=900)
    rep.add_model("erase-mc", res, "all programs of %d steps; emits them" % n)
    if res.violated:
        raise ToolError("Erase model violates " + res.violated)
    # the other conforming way of cloning (one shared block, the last holder wipes and releases) satisfies the same contract
    r2 = run_tlc(pid, "erase-shared", "Erase", erase_cfg(n, 3, "SharedLastWipes", False), workers=1, timeout=900)
    rep.add_model("erase-shared", r2, "the contract also admits clones that share one block released by the last holder")
    if r2.violated:
        raise ToolError("Erase model (SharedLastWipes) violates " + r2.violated)
    if thorough or selftest:
        for v, inv in [("NoDropErase", "ErasedAtRelease"), ("EraseCopy", "ErasedAtRelease"), ("SharedClone", "LiveUntouched"),
                       ("SharedRacy", "ErasedAtRelease"), ("SkipWipeWhenPanicking", "ErasedAtRelease"), ("StaleWipedFlag", "ErasedAtRelease")]:
            # (the stale flag needs construct, construct, zeroize, clone_from, drop)
            r = run_tlc(pid, "neg-" + v, "Erase", erase_cfg(5 if v == "StaleWipedFlag" else 3, 3, v, False), workers=4 if v == "StaleWipedFlag" else 1, timeout=600)
            rep.add_model("neg-" + v, r, "deviation must break " + inv)
            if r.violated != inv:
                raise ToolError("negative variant %s: got %s" % (v, r.violated))
    progs, seen = [], set()
    for r in res.replays:            # a program with a concurrent drop is printed once per interleaving
        k = json.dumps(r["prog"], sort_keys=True)
        if k not in seen:
            seen.add(k)
            progs.append(r["prog"])
    # programs with two handles dropped by two threads at once are executed many times (the interleaving is the machine's)
    scen = [{"op": "erase", "id": "e%d" % i, "prog": p, "repeat": (300 if thorough else 100) if any(x["op"] == "drop2" for x in p) else 1}
            for i, p in enumerate(progs)]
    # the same alphabet, long programs: MANY objects alive at once (a hundred and more; every constructor, clones of clones),
    # dropped first-in-first-out and last-in-first-out - nothing in the contract depends on how many keys are alive
    for j, (n_live, order) in enumerate([(40, "fifo"), (130, "lifo"), (130, "fifo")]):
        prog = []
        for i in range(n_live):
            if i % 3 == 2:
                prog.append({"op": "clone", "slot": i, "kind": "generate", "src": i - 1})
            else:
                prog.append({"op": "construct", "slot": i, "kind": ["generate", "from_bytes", "payload_new"][(i // 3) % 3], "src": 0})
        for i in (range(n_live) if order == "fifo" else reversed(range(n_live))):
            prog.append({"op": "drop", "slot": i, "kind": "generate", "src": 0})
        scen.append({"op": "erase", "id": "many%d" % j, "prog": prog, "repeat": 1})
    rep.extra["programs_with_concurrent_drops"] = sum(1 for s_ in scen if s_["repeat"] > 1)
    for s in scen:
        rep.case(json.dumps(s["prog"]), any(x["op"] == "clone" for x in s["prog"]))
    rep.sample(scen[len(scen) // 2])
    evs = run_prims(rep, pid, "erase", scen, tpl, seed, ["C20_"], nproc=8)
    rep.extra["blocks_released_zeroed"] = sum(e["released_zero"] for e in evs)
    rep.exhaustive = True
    return rep.finish()
