"""Run the kestrel binary on a pseudo-terminal (its controlling terminal, stdin, stdout and stderr),
typing scripted lines at its prompts: the interactive paths of ask_pass / confirm_loop / the unlock loop."""
import os
import pty
import select
import signal
import time

from vlib import KESTREL

PROMPTS = [b"key: ", b"password: ", b"Password: ", b"Key name: "]


def _default_signals():
    """In the child, before exec: the dispositions a program started from an interactive shell has.  (A check started as a
    background job of a non-interactive shell inherits SIGINT / SIGQUIT as ignored, and an ignored disposition survives
    exec: Ctrl-C typed at the pseudo-terminal would then do nothing and the scenario would look like a hang.)"""
    for sig in (signal.SIGINT, signal.SIGQUIT, signal.SIGTERM, signal.SIGHUP, signal.SIGPIPE, signal.SIGTSTP, signal.SIGTTIN, signal.SIGTTOU):
        try:
            signal.signal(sig, signal.SIG_DFL)
        except (OSError, ValueError):
            pass
    try:
        signal.pthread_sigmask(signal.SIG_SETMASK, [])
    except (OSError, ValueError):
        pass


def _waiting_for_terminal(pid):
    """The process is blocked in read() on a terminal device (Linux, x86-64 / aarch64 syscall numbers)."""
    try:
        f = open("/proc/%d/syscall" % pid).read().split()
        if f[0] not in ("0", "63"):
            return False
        target = os.readlink("/proc/%d/fd/%d" % (pid, int(f[1], 16)))
        return target.startswith("/dev/pts/") or target == "/dev/tty"
    except (OSError, ValueError, IndexError):
        return False


def _spawn(args, e, controlling, stdout_path=None, stderr_path=None):
    """controlling: the pseudo-terminal is the child's controlling terminal (so /dev/tty opens: prompt_password_tty).
    Otherwise the child has a session of its own WITHOUT a controlling terminal and the pseudo-terminal only as its
    stdin/stdout/stderr: /dev/tty does not open and ask_pass falls back to prompt_password_stdin."""
    if controlling:
        return pty.fork()
    master, slave = pty.openpty()
    pid = os.fork()
    if pid == 0:
        try:
            _default_signals()
            os.setsid()                      # new session; the slave was opened before, so it does not become controlling
            os.close(master)
            for fd in (0, 1, 2):
                os.dup2(slave, fd)
            if slave > 2:
                os.close(slave)
            # optionally only stdin stays on the terminal: stdout / stderr go to files (a pipeline, a log)
            for fd, pth in ((1, stdout_path), (2, stderr_path)):
                if pth:
                    f = os.open(pth, os.O_WRONLY | os.O_CREAT | os.O_TRUNC, 0o644)
                    os.dup2(f, fd)
                    os.close(f)
            os.execve(KESTREL, [KESTREL] + list(args), e)
        finally:
            os._exit(127)
    os.close(slave)
    return pid, master


def run_tty(args, lines, env=None, timeout=60, interrupt=True, controlling=True, stdout_path=None, stderr_path=None):
    """lines: what to type, one per prompt, in order.  When they run out and a prompt is still showing: Ctrl-C
    (interrupt).  (Ctrl-D is not used: passterm's read_line spins forever on end of input, see DESIGN.md 14.)
    Returns (exit status, transcript bytes, number of prompts answered)."""
    e = {"PATH": "/usr/bin:/bin", "HOME": "/nonexistent", "LANG": "C.UTF-8", "TERM": "dumb"}
    if env:
        e.update(env)
    if controlling:
        pid, fd = pty.fork()
        if pid == 0:
            try:
                _default_signals()
                os.execve(KESTREL, [KESTREL] + list(args), e)
            finally:
                os._exit(127)
    else:
        pid, fd = _spawn(args, e, False, stdout_path, stderr_path)
    out = b""
    answered = 0
    seen = 0          # bytes of `out` already scanned for a prompt
    t0 = time.time()
    status = None
    queue = list(lines)
    sent_eof = 0
    while True:
        if time.time() - t0 > timeout:
            os.kill(pid, signal.SIGKILL)
            os.waitpid(pid, 0)
            os.close(fd)
            return -999, out, answered
        r, _, _ = select.select([fd], [], [], 0.2)
        if r:
            try:
                chunk = os.read(fd, 4096)
            except OSError:
                chunk = b""
            if not chunk:
                break
            out += chunk
        if stdout_path or stderr_path:
            # prompts do not come over the terminal then: look for them in the redirected streams
            extra = b""
            for pth in (stderr_path, stdout_path):
                try:
                    with open(pth, "rb") as f_:
                        extra += f_.read()[-200000:]
                except OSError:
                    pass
            if len(extra) > len(out):
                out = extra
        # a prompt is pending when the unscanned output ends with one of the prompt endings
        tail = out[seen:]
        # (the pinned tree's prompts, or - other wording - an unfinished line while the process is blocked reading a terminal)
        generic = bool(tail.strip()) and not tail.endswith((b"\n", b"\r")) and _waiting_for_terminal(pid)
        if (generic or any(tail.rstrip(b"\r\n").endswith(p.rstrip()) or tail.endswith(p) for p in PROMPTS)) and tail.strip():
            seen = len(out)
            if queue:
                os.write(fd, queue.pop(0).encode() + b"\n")
                answered += 1
            elif interrupt and sent_eof < 3:
                os.write(fd, b"\x03")
                sent_eof += 1
        done, st = os.waitpid(pid, os.WNOHANG)
        if done:
            status = st
            # drain
            try:
                while True:
                    r, _, _ = select.select([fd], [], [], 0.1)
                    if not r:
                        break
                    chunk = os.read(fd, 4096)
                    if not chunk:
                        break
                    out += chunk
            except OSError:
                pass
            break
    if status is None:
        _, status = os.waitpid(pid, 0)
    os.close(fd)
    rc = os.WEXITSTATUS(status) if os.WIFEXITED(status) else -os.WTERMSIG(status)
    return rc, out, answered
