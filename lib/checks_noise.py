"""Checks of the noise engine: C05 (and shared pieces for C06, C07, C08)."""
import json

import stream as st
from oneshot import run_oneshot
from vlib import Report, ToolError, build_harness, run_tlc, cfg

C05_INV = ["Refused", "NoNullKey", "OnlyAddressed", "SenderAuthentic", "RespectsClass"]


def noise_cfg(invs, deviation=None):
    s = "SPECIFICATION Spec\n"
    if deviation:
        s += "CONSTANT Deviation <- %s\n" % deviation
    for i in invs:
        s += "INVARIANT %s\n" % i
    s += "CHECK_DEADLOCK FALSE\n"
    return s


def c05(pid, tier, seed, selftest=False):
    rep = Report(pid, tier, seed)
    rep.rule = ("full product {private key sealing} x {public key claimed, incl. a low-order point} x {recipient addressed, "
                "incl. low-order} x {ephemeral used} x {ephemeral claimed, incl. another message's and low-order} x "
                "{decrypting key} x {recipient_public argument} x {field spliced from another authentic message to the same "
                "recipient}, enumerated and decided by TLC on NoiseAdv (token-level Noise X over symbolic terms); every "
                "scenario is built with the real key_encrypt AND with the specification's terms, given to the real "
                "key_decrypt, and the outcome is validated against the declarative classification C05Contract; low-order "
                "scenarios are repeated for each concrete small-order / non-canonical encoding; non-trivial = anything but "
                "the honest construction")
    rep.assumptions = ["symbolic DH/AEAD/hash algebra of Terms.tla (collision freedom, DH commutativity, low-order => zero)",
                       "the attacker knows only its own private key A, public keys and other messages' bytes"]
    build_harness()
    tpl, tres = st.get_templates(pid)
    rep.add_model("terms", tres, "byte-layout templates")
    thorough = tier == "thorough"
    res = run_tlc(pid, "noise-mc", "NoiseAdv", noise_cfg(C05_INV + ["Emit"]), workers=1, timeout=600)
    rep.add_model("noise-mc", res, "exhaustive check of NoiseAdv (4608 scenarios) against the C05 invariants; emits scenarios")
    if res.violated:
        raise ToolError("NoiseAdv violates %s (model bug)" % res.violated)
    if thorough or selftest:
        for dev, must in [("DevSkipSS", ["NoNullKey", "SenderAuthentic", "RespectsClass"]),
                          ("DevIgnoreDhZero", ["Refused", "NoNullKey"])]:
            r = run_tlc(pid, "neg-" + dev, "NoiseAdv", noise_cfg(C05_INV, dev), workers=2, timeout=300)
            rep.add_model("neg-" + dev, r, "negative configuration: deviation must break " + str(must))
            if r.violated not in must:
                raise ToolError("negative variant %s: got %s" % (dev, r.violated))
            rep.notes.append("deviation %s refuted by %s" % (dev, r.violated))
    nlo = 14
    scenarios = []
    for i, r in enumerate(res.replays):
        sc = r["sc"]
        has_lo = "LO" in (sc["sClaim"], sc["rs"], sc["eClaim"])
        los = range(nlo) if (has_lo and (thorough or i % 7 == 0)) else ([i % nlo] if has_lo else [0])
        for lo in los:
            scenarios.append({"op": "hs", "id": "hs%d.%d" % (i, lo), "sc": sc, "class": r["class"], "lo": lo,
                              "plen": [10, 0, 70000][i % 3] if thorough else 10})
    seeds = [seed] if not thorough else [seed, seed + 1, seed + 2]
    for s in scenarios:
        honest = (s["sc"]["sClaim"] == s["sc"]["sPriv"] and s["sc"]["eClaim"] == s["sc"]["ePriv"] and s["sc"]["splice"] == "none"
                  and s["sc"]["rs"] == s["sc"]["rPriv"] == s["sc"]["rParam"])
        rep.case(json.dumps([s["sc"], s["lo"]], sort_keys=True), not honest)
    for s in scenarios[:1] + scenarios[len(scenarios) // 2:len(scenarios) // 2 + 2]:
        rep.sample(s)
    classes = {}
    for sd in seeds:
        evs = run_oneshot(rep, pid, "hs-%d" % sd, "noise", scenarios, tpl, sd, "Trace_Noise", nproc=16,
                          only_prefixes=["C05_"])
        for e in evs:
            classes[e["class"]] = classes.get(e["class"], 0) + 1
        # encoder agreement is C06's statement; here only recorded
        diff = [e["id"] for e in evs if not e["same"]]
        if diff:
            rep.notes.append("real encryptor and specification terms differ on %d scenarios (see C06): %s" % (len(diff), diff[:3]))
    rep.extra["scenarios_by_class"] = classes
    rep.exhaustive = True
    return rep.finish()


# --------------------------------------------------------------------------
# C06
# --------------------------------------------------------------------------

import base64
import os
import checks_stream as cs_
from vlib import ROOT

COUNTERS = ["0", "1", "255", "256", "65535", "65536", "4294967295", "4294967296", "4294967297",
            str(2 ** 40), str(2 ** 48 + 1), str(2 ** 56 - 1), str(2 ** 63 - 1), str(2 ** 63), str(2 ** 64 - 2)] \
    + [str(0x5A << (8 * k)) for k in range(8)]


def golden_scenarios():
    g = os.path.join(ROOT, "golden")
    man = json.load(open(os.path.join(g, "corpus.json")))
    out = []
    for m in man:
        s = {"op": "golden", "id": m["id"], "api": m["api"], "path": os.path.join(g, m["file"])}
        for k in ("plen", "pseed", "plain_hex", "r_priv_hex", "password_hex", "r_locked", "r_password_hex", "s_pub_hex"):
            if k in m:
                s[k] = m[k]
        if "s_pub_b64" in m:
            s["s_pub_hex"] = base64.b64decode(m["s_pub_b64"])[:32].hex()
        out.append(s)
    return out


def c06(pid, tier, seed, selftest=False):
    rep = Report(pid, tier, seed)
    rep.rule = ("(a) encoder: for TLC-enumerated read partitions (EncLoop) and injected keys / salts the output of "
                "key_encrypt / pass_encrypt / the chunk loop must equal byte for byte the evaluation of the WireFormat/NoiseX "
                "terms for the chunking found in the output (trace predicate E1), noise_encrypt's message and handshake hash "
                "equal the NoiseX terms, incl. mismatched key pairs (4608 NoiseAdv scenarios); (b) decoder: every legal "
                "chunking enumerated by TLC (Chunkings.tla) is built from the terms and must decrypt to plaintext and sender; "
                "(c) frozen corpus /verif/golden and the repository's golden files must keep decrypting and must parse under "
                "the terms; (d) counter nonce layout over the 64-bit range through the hook; non-trivial = more than one "
                "chunk, or a chunking the encryptor never emits, or mismatched keys")
    rep.assumptions = ["the evaluator interprets SHA256/HMAC/X25519/AEAD/HKDF/SCRYPT with the working tree's exported functions; "
                       "a change inside one of those that is consistent everywhere is visible only through the frozen corpus and C18/C19"]
    build_harness()
    tpl, tres = st.get_templates(pid)
    rep.add_model("terms", tres, "byte-layout templates printed from WireFormat/NoiseX")
    thorough = tier == "thorough"
    # the decoder model accepts every legal chunking (MustAccept), design level
    cs_.check_model(rep, pid, "dec-mc", "MC_DecLoop", st.dec_constants(cs=2, src="Src322", hdr="HdrSmall", edits=0),
                    st.DEC_INVARIANTS, cs_.DEC_ACTIONS)
    scenarios = []
    # (a) encoder
    for cs in ([1, 2, 3] if thorough else [2]):
        em = st.emit(pid, "enc-emit-cs%d" % cs, "MC_EncLoop",
                     st.enc_constants(cs=cs, maxlen=3 * cs + 1, hdr="HdrNone", splits=0, shorts=-1))
        rep.add_model("enc-emit-cs%d" % cs, em, "read partitions for the encoder comparison")
        for i, raw in enumerate(em.replays):
            scenarios.append(st.conv_enc(raw, api="chunks", aad=["key", "pass"][i % 2], kseed=1 + i % 5, pseed=1 + i % 3,
                                         sid="e%d.%d" % (cs, i)))
    em = st.emit(pid, "enc-emit-api", "MC_EncLoop", st.enc_constants(cs=2, maxlen=5, hdr="HdrSmall", splits=0, shorts=-1))
    rep.add_model("enc-emit-api", em, "read partitions (with header phase) for the public API")
    for i, raw in enumerate(em.replays):
        if not thorough and i % 2:
            continue
        api = ["key", "key", "pass"][i % 3]
        s = st.conv_enc(raw, api=api, aad="key" if api == "key" else "pass", kseed=10 + i, pseed=1 + i % 3, sid="ea.%d" % i)
        s["rseed"] = 1 + i % 4
        s["pwseed"] = 1 + i % 5
        scenarios.append(s)
    # (b) decoder: every legal chunking
    ck = run_tlc(pid, "chunkings", "Chunkings",
                 "SPECIFICATION Spec\nCONSTANTS\n  CS = 3\n  MaxLen = %d\nINVARIANT Legal\nINVARIANT Emit\nCHECK_DEADLOCK FALSE\n"
                 % (10 if thorough else 8), workers=1, timeout=300)
    rep.add_model("chunkings", ck, "all legal chunkings with parts 1..3 up to the length bound")
    pats = cs_.DEC_PATTERNS
    for i, r in enumerate(ck.replays):
        d = dict(pats[i % len(pats)])
        scenarios.append({"op": "dec", "api": "chunks", "aad": ["key", "pass"][i % 2], "cs": 3,
                          "srcs": [{"chunks": r["chunks"], "kseed": 1 + i % 3, "pseed": 1 + i % 4}],
                          "file": {"hsrc": 0, "hdr": "ok", "recs": [{"src": 0, "idx": j} for j in range(len(r["chunks"]))],
                                   "cut": -1, "trail": 0},
                          "rs": d.get("rs", []), "ws": d.get("ws", []), "fs": [], "rgen": d.get("rgen", 0), "wgen": d.get("wgen", 0),
                          "id": "c.%d" % i})
    odd = [[1], [65536], [65536, 1], [1, 65536], [65535, 1], [1] * 9, [65536, 65536, 65535], [3, 65536, 2, 1], [0],
           [40000, 40000, 40000], [65536, 65536]]
    for i, ch in enumerate(odd):
        for api in ("key", "pass"):
            scenarios.append({"op": "dec", "api": api, "aad": "key" if api == "key" else "pass", "cs": 65536,
                              "srcs": [{"chunks": ch, "kseed": 20 + i, "pseed": 2 + i, "rseed": 1 + i % 3, "pwseed": 1 + i % 4}],
                              "rseed": 1 + i % 3, "pwseed": 1 + i % 4,
                              "file": {"hsrc": 0, "hdr": "ok", "recs": [{"src": 0, "idx": j} for j in range(len(ch))],
                                       "cut": -1, "trail": 0},
                              "rs": [], "ws": [], "fs": [], "rgen": [0, 70000, 5000][i % 3], "id": "o.%s%d" % (api[0], i)})
    for s in scenarios:
        if s["op"] == "enc":
            rep.case(cs_.key_of(s), len(s["exp"]["chunks"]) > 1)
        else:
            rep.case(cs_.key_of(s), len(s["srcs"][0]["chunks"]) > 1)
    for s in scenarios[:1] + scenarios[-2:]:
        rep.sample(s)
    runs = st.run_and_validate(rep, pid, "fmt", scenarios, tpl, seed, nproc=16)
    # handshake level, incl. mismatched key pairs (scenarios of NoiseAdv)
    res = run_tlc(pid, "noise-emit", "NoiseAdv", noise_cfg(["Emit"]), workers=1, timeout=600)
    rep.add_model("noise-emit", res, "4608 handshake constructions (matched and mismatched pairs)")
    one = []
    for i, r in enumerate(res.replays):
        if r["sc"]["splice"] != "none":
            continue
        if not thorough and i % 3:
            continue
        one.append({"op": "hs", "id": "hs%d" % i, "sc": r["sc"], "class": r["class"], "lo": i % 14, "plen": 10})
    for k in range(40 if thorough else 12):
        one.append({"op": "hh", "id": "hh%d" % k, "k": k, "prologue_len": [4, 0, 1, 31, 32, 33, 64, 100][k % 8]})
    for i, c in enumerate(COUNTERS):
        one.append({"op": "nonce", "id": "n%d" % i, "ctr": c, "adlen": i % 7, "ptlen": (i * 5) % 40})
    one += golden_scenarios()
    for s in one:
        rep.case(json.dumps(s, sort_keys=True), True)
    rep.sample(one[-1])
    run_oneshot(rep, pid, "terms", "noise", one, tpl, seed, "Trace_Noise", nproc=8, only_prefixes=["C06_", "C19_"])
    n, ex = st.drift(runs)
    rep.extra["model_drift_runs"] = n
    return rep.finish()
