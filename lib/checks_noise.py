import os
"""Checks of the noise engine: C05 (and shared pieces for C06, C07, C08)."""
import json

import stream as st
from oneshot import run_oneshot
from vlib import Report, ToolError, build_harness, run_tlc, cfg

C05_INV = ["Refused", "NoNullKey", "OnlyAddressed", "SenderAuthentic", "RespectsClass"]


def noise_cfg(invs, deviation=None):
    s = "SPECIFICATION Spec\n"
    if deviation:
        s += "CONSTANT Deviation <- %s\n" % deviation
    for i in invs:
        s += "INVARIANT %s\n" % i
    s += "CHECK_DEADLOCK FALSE\n"
    return s


def c05(pid, tier, seed, selftest=False):
    rep = Report(pid, tier, seed)
    rep.rule = ("full product {private key sealing} x {public key claimed, incl. a low-order point} x {recipient addressed, "
                "incl. low-order} x {ephemeral used} x {ephemeral claimed, incl. another message's and low-order} x "
                "{decrypting key} x {recipient_public argument} x {field spliced from another authentic message to the same "
                "recipient}, enumerated and decided by TLC on NoiseAdv (token-level Noise X over symbolic terms); every "
                "scenario is built with the real key_encrypt AND with the specification's terms, given to the real "
                "key_decrypt, and the outcome is validated against the declarative classification C05Contract; low-order "
                "scenarios are repeated for each concrete small-order / non-canonical encoding; non-trivial = anything but "
                "the honest construction")
    rep.assumptions = ["symbolic DH/AEAD/hash algebra of Terms.tla (collision freedom, DH commutativity, low-order => zero)",
                       "the attacker knows only its own private key A, public keys and other messages' bytes"]
    build_harness()
    tpl, tres = st.get_templates(pid)
    rep.add_model("terms", tres, "byte-layout templates")
    thorough = tier == "thorough"
    res = run_tlc(pid, "noise-mc", "NoiseAdv", noise_cfg(C05_INV + ["Emit"]), workers=1, timeout=600)
    rep.add_model("noise-mc", res, "exhaustive check of NoiseAdv (13 824 scenarios incl. attacker-forged 'ss') against the C05 invariants; emits scenarios")
    if res.violated:
        raise ToolError("NoiseAdv violates %s (model bug)" % res.violated)
    if thorough or selftest:
        for dev, must in [("DevSkipSS", ["NoNullKey", "SenderAuthentic", "RespectsClass"]),
                          ("DevReaderIgnoresSsFailure", ["NoNullKey", "SenderAuthentic", "RespectsClass"]),
                          ("DevIgnoreDhZero", ["Refused", "NoNullKey"])]:
            r = run_tlc(pid, "neg-" + dev, "NoiseAdv", noise_cfg(C05_INV, dev), workers=2, timeout=300)
            rep.add_model("neg-" + dev, r, "negative configuration: deviation must break " + str(must))
            if r.violated not in must:
                raise ToolError("negative variant %s: got %s" % (dev, r.violated))
            rep.notes.append("deviation %s refuted by %s" % (dev, r.violated))
    nlo = 14
    scenarios = []
    for i, r in enumerate(res.replays):
        sc = r["sc"]
        if sc["forge"] != "none" and not thorough and sc["splice"] != "none":
            continue    # quick tier: forged handshakes without additional splicing
        has_lo = "LO" in (sc["sClaim"], sc["rs"], sc["eClaim"])
        los = range(nlo) if (has_lo and (thorough or i % 7 == 0)) else ([i % nlo] if has_lo else [0])
        for lo in los:
            scenarios.append({"op": "hs", "id": "hs%d.%d" % (i, lo), "sc": sc, "class": r["class"], "lo": lo,
                              "plen": [10, 0, 70000][i % 3] if thorough else 10})
    seeds = [seed] if not thorough else [seed, seed + 1, seed + 2]
    for s in scenarios:
        honest = (s["sc"]["forge"] == "none" and s["sc"]["sClaim"] == s["sc"]["sPriv"] and s["sc"]["eClaim"] == s["sc"]["ePriv"] and s["sc"]["splice"] == "none"
                  and s["sc"]["rs"] == s["sc"]["rPriv"] == s["sc"]["rParam"])
        rep.case(json.dumps([s["sc"], s["lo"]], sort_keys=True), not honest)
    for s in scenarios[:1] + scenarios[len(scenarios) // 2:len(scenarios) // 2 + 2]:
        rep.sample(s)
    classes = {}
    for sd in seeds:
        evs = run_oneshot(rep, pid, "hs-%d" % sd, "noise", scenarios, tpl, sd, "Trace_Noise", nproc=16,
                          only_prefixes=["C05_"])
        for e in evs:
            classes[e["class"]] = classes.get(e["class"], 0) + 1
        # encoder agreement is C06's statement; here only recorded
        diff = [e["id"] for e in evs if not e["same"]]
        if diff:
            rep.notes.append("real encryptor and specification terms differ on %d scenarios (see C06): %s" % (len(diff), diff[:3]))
    rep.extra["scenarios_by_class"] = classes
    # the reported identity at the tool: `kestrel decrypt` of alice's file with keyrings of 400+ entries in which alice's
    # entry is first, last or absent; the name (or "Unknown key" + encoding) printed must be the authenticated key's
    import checks_cli
    w = checks_cli.World(pid, tpl, seed)
    cfgs = [{"cmd": "decrypt", "cause": "none", "prior": "absent", "inp": inp, "outp": outp, "kr": kr, "long": lng,
             "alias": not lng, "sender": snd}
            for snd in ("first", "last", "absent") for inp in ("file", "stdin") for outp in ("file", "stdout")
            for kr in ("opt", "env", "both") for lng in (False, True)]
    # a long run of encryptions in ONE process with all randomness left to the library: the recovered ephemeral, payload and
    # file keys are never a public constant (then anybody could read the file) - Trace_Fresh, C05_ predicate
    hk = cli.make_keys(pid, tpl, seed, [("alice", b"alice-pw"), ("bob", b"bob-pw")])
    hevs = exec_history(pid, tpl, seed, "h900", ["kenc"] * 12, hk, 10, lib_only=True)
    hwd = workdir(pid, "run-fresh", clean=True)
    write_jsonl(hwd + "/trace.ndjson", hevs)
    hv = validate_trace(pid, "fresh", "Trace_Fresh", hwd + "/trace.ndjson", len(hevs))
    rep.add_trace_run("fresh", hv, 1, len(hevs))
    for (ln, pred) in hv["viols"]:
        if pred.startswith("TOOL_"):
            raise ToolError("trace tooling mismatch " + pred)
        if pred.startswith("C05_"):
            rep.violation("%s id=%s" % (pred, hevs[ln - 1].get("id")), {"engine": "fresh", "history": ["kenc"] * 12, "events": hevs})
    # ... and `kestrel encrypt -t NAME -f NAME`: the file opens under the private key of the entry called exactly NAME
    cfgs += [{"cmd": "encrypt", "cause": "none", "prior": "absent", "inp": inp, "outp": "file", "kr": kr, "long": lng, "alias": not lng, "sender": "first"}
             for inp in ("file", "stdin") for kr in ("opt", "env", "both") for lng in (False, True)]
    # ... and keyrings in which "alice" (or "bob") stands for two keys, or alice's key has two names
    cfgs += [{"cmd": cmd, "cause": "malformed_keyring", "prior": "absent", "inp": "file", "outp": "file", "kr": kr, "long": False, "alias": False,
              "sender": "first", "krbad": kb}
             for cmd in ("encrypt", "decrypt") for kr in ("opt", "env") for kb in ("dup_name", "dup_name_first", "dup_key", "dup_key_first", "dup_name_bob")]
    # ... and with "-f alice" added to a decryption whose sender is NOT in the keyring (an option a later version might grow)
    cfgs += [{"cmd": "decrypt", "cause": "none", "prior": "absent", "inp": "file", "outp": "file", "kr": "opt", "long": lng, "alias": False,
              "sender": snd, "probe_from": True} for snd in ("absent", "badsum", "last") for lng in (False, True)]
    cevs = checks_cli.run_configs(rep, pid, "cli-sender", w, cfgs, ["C05_"])
    rep.extra["cli_sender_reports"] = {k: sum(1 for e in cevs if e["named"] == k) for k in set(e["named"] for e in cevs)}
    rep.exhaustive = True
    return rep.finish()


# --------------------------------------------------------------------------
# C06
# --------------------------------------------------------------------------

import base64
import os
import checks_stream as cs_
from vlib import ROOT

COUNTERS = ["0", "1", "255", "256", "65535", "65536", "4294967295", "4294967296", "4294967297",
            str(2 ** 40), str(2 ** 48 + 1), str(2 ** 56 - 1), str(2 ** 63 - 1), str(2 ** 63), str(2 ** 64 - 2)] \
    + [str(0x5A << (8 * k)) for k in range(8)]


def golden_scenarios():
    g = os.path.join(ROOT, "golden")
    man = json.load(open(os.path.join(g, "corpus.json")))
    out = []
    for m in man:
        s = {"op": "golden", "id": m["id"], "api": m["api"], "path": os.path.join(g, m["file"])}
        for k in ("plen", "pseed", "plain_hex", "r_priv_hex", "password_hex", "r_locked", "r_password_hex", "s_pub_hex"):
            if k in m:
                s[k] = m[k]
        if "s_pub_b64" in m:
            s["s_pub_hex"] = base64.b64decode(m["s_pub_b64"])[:32].hex()
        out.append(s)
    return out


def c06(pid, tier, seed, selftest=False):
    rep = Report(pid, tier, seed)
    rep.rule = ("(a) encoder: for TLC-enumerated read partitions (EncLoop) and injected keys / salts the output of "
                "key_encrypt / pass_encrypt / the chunk loop must equal byte for byte the evaluation of the WireFormat/NoiseX "
                "terms for the chunking found in the output (trace predicate E1), noise_encrypt's message and handshake hash "
                "equal the NoiseX terms, incl. mismatched key pairs (4608 NoiseAdv scenarios); (b) decoder: every legal "
                "chunking enumerated by TLC (Chunkings.tla) is built from the terms and must decrypt to plaintext and sender; "
                "(c) frozen corpus /verif/golden and the repository's golden files must keep decrypting and must parse under "
                "the terms; (d) counter nonce layout over the 64-bit range through the hook; non-trivial = more than one "
                "chunk, or a chunking the encryptor never emits, or mismatched keys")
    rep.assumptions = ["the evaluator interprets SHA256/HMAC/X25519/AEAD/HKDF/SCRYPT with the working tree's exported functions; "
                       "a change inside one of those that is consistent everywhere is visible only through the frozen corpus and C18/C19"]
    build_harness()
    tpl, tres = st.get_templates(pid)
    rep.add_model("terms", tres, "byte-layout templates printed from WireFormat/NoiseX")
    thorough = tier == "thorough"
    # the decoder model accepts every legal chunking (MustAccept), design level
    cs_.check_model(rep, pid, "dec-mc", "MC_DecLoop", st.dec_constants(cs=2, src="Src322", hdr="HdrSmall", edits=0),
                    st.DEC_INVARIANTS, cs_.DEC_ACTIONS)
    scenarios = []
    # (a) encoder
    for cs in ([1, 2, 3] if thorough else [2]):
        em = st.emit(pid, "enc-emit-cs%d" % cs, "MC_EncLoop",
                     st.enc_constants(cs=cs, maxlen=3 * cs + 1, hdr="HdrNone", splits=0, shorts=-1))
        rep.add_model("enc-emit-cs%d" % cs, em, "read partitions for the encoder comparison")
        for i, raw in enumerate(em.replays):
            scenarios.append(st.conv_enc(raw, api="chunks", aad=["key", "pass"][i % 2], kseed=1 + i % 5, pseed=1 + i % 3,
                                         sid="e%d.%d" % (cs, i)))
    em = st.emit(pid, "enc-emit-api", "MC_EncLoop", st.enc_constants(cs=2, maxlen=5, hdr="HdrSmall", splits=0, shorts=-1))
    rep.add_model("enc-emit-api", em, "read partitions (with header phase) for the public API")
    for i, raw in enumerate(em.replays):
        if not thorough and i % 2:
            continue
        api = ["key", "key", "pass"][i % 3]
        s = st.conv_enc(raw, api=api, aad="key" if api == "key" else "pass", kseed=10 + i, pseed=1 + i % 3, sid="ea.%d" % i)
        s["rseed"] = 1 + i % 4
        s["pwseed"] = 1 + i % 5
        scenarios.append(s)
    # (b) decoder: every legal chunking
    ck = run_tlc(pid, "chunkings", "Chunkings",
                 "SPECIFICATION Spec\nCONSTANTS\n  CS = 3\n  MaxLen = %d\nINVARIANT Legal\nINVARIANT Emit\nCHECK_DEADLOCK FALSE\n"
                 % (10 if thorough else 8), workers=1, timeout=300)
    rep.add_model("chunkings", ck, "all legal chunkings with parts 1..3 up to the length bound")
    pats = cs_.DEC_PATTERNS
    for i, r in enumerate(ck.replays):
        d = dict(pats[i % len(pats)])
        scenarios.append({"op": "dec", "api": "chunks", "aad": ["key", "pass"][i % 2], "cs": 3,
                          "srcs": [{"chunks": r["chunks"], "kseed": 1 + i % 3, "pseed": 1 + i % 4}],
                          "file": {"hsrc": 0, "hdr": "ok", "recs": [{"src": 0, "idx": j} for j in range(len(r["chunks"]))],
                                   "cut": -1, "trail": 0},
                          "rs": d.get("rs", []), "ws": d.get("ws", []), "fs": [], "rgen": d.get("rgen", 0), "wgen": d.get("wgen", 0),
                          "id": "c.%d" % i})
    odd = [[1], [65536], [65536, 1], [1, 65536], [65535, 1], [1] * 9, [65536, 65536, 65535], [3, 65536, 2, 1], [0],
           [40000, 40000, 40000], [65536, 65536]]
    for i, ch in enumerate(odd):
        for api in ("key", "pass"):
            scenarios.append({"op": "dec", "api": api, "aad": "key" if api == "key" else "pass", "cs": 65536,
                              "srcs": [{"chunks": ch, "kseed": 20 + i, "pseed": 2 + i, "rseed": 1 + i % 3, "pwseed": 1 + i % 4}],
                              "rseed": 1 + i % 3, "pwseed": 1 + i % 4,
                              "file": {"hsrc": 0, "hdr": "ok", "recs": [{"src": 0, "idx": j} for j in range(len(ch))],
                                       "cut": -1, "trail": 0},
                              "rs": [], "ws": [], "fs": [], "rgen": [0, 70000, 5000][i % 3], "id": "o.%s%d" % (api[0], i)})
    # every plaintext length 0..2200 (thorough: ..8300) as one chunk through the public key API, and on top of one full chunk:
    # a buffer of some "small record" size, a block or padding boundary of a primitive would show at its exact length
    for L in range(0, 8300 if thorough else 2200):
        scenarios.append({"op": "enc", "api": "key", "aad": "key", "cs": 65536, "plen": L if L % 5 else 65536 + L, "rs": [], "ws": [], "fs": [],
                          "kseed": 70 + L % 7, "pseed": 1 + L % 3, "rseed": 1 + L % 4, "id": "len.%d" % L})
    for L in range(0, 2200, 37):
        scenarios.append({"op": "enc", "api": "pass", "aad": "pass", "cs": 65536, "plen": L, "rs": [], "ws": [], "fs": [],
                          "kseed": 70 + L % 7, "pseed": 1 + L % 3, "pwseed": 1 + L % 5, "id": "lenp.%d" % L})
    # conforming files read through sources that split the HEADER fields (magic, handshake message / salt) across calls
    hdr_rs = [[1] * 8, ["allbut1"] * 4, [1, "allbut1", 1, "allbut1", 1, "allbut1"], [3, 1, 100, 27, 1]]
    for i, rs in enumerate(hdr_rs):
        for api in ("key", "pass"):
            ch = [[5], [65536, 7], [0]][i % 3]
            scenarios.append({"op": "dec", "api": api, "aad": "key" if api == "key" else "pass", "cs": 65536,
                              "srcs": [{"chunks": ch, "kseed": 40 + i, "pseed": 3 + i, "rseed": 1 + i % 3, "pwseed": 1 + i % 4}],
                              "rseed": 1 + i % 3, "pwseed": 1 + i % 4,
                              "file": {"hsrc": 0, "hdr": "ok", "recs": [{"src": 0, "idx": j} for j in range(len(ch))],
                                       "cut": -1, "trail": 0},
                              "rs": rs, "ws": [], "fs": [], "rgen": [0, 7][i % 2], "id": "oh.%s%d" % (api[0], i)})
    for s in scenarios:
        if s["op"] == "enc":
            rep.case(cs_.key_of(s), len(s.get("exp", {}).get("chunks", [])) > 1 or s["plen"] > 0)
        else:
            rep.case(cs_.key_of(s), len(s["srcs"][0]["chunks"]) > 1)
    for s in scenarios[:1] + scenarios[-2:]:
        rep.sample(s)
    runs = st.run_and_validate(rep, pid, "fmt", scenarios, tpl, seed, nproc=16)
    # handshake level, incl. mismatched key pairs (scenarios of NoiseAdv)
    res = run_tlc(pid, "noise-emit", "NoiseAdv", noise_cfg(["Emit"]), workers=1, timeout=600)
    rep.add_model("noise-emit", res, "4608 handshake constructions (matched and mismatched pairs)")
    one = []
    for i, r in enumerate(res.replays):
        if r["sc"]["splice"] != "none":
            continue
        if not thorough and i % 3:
            continue
        one.append({"op": "hs", "id": "hs%d" % i, "sc": r["sc"], "class": r["class"], "lo": i % 14, "plen": 10})
    for k in range(40 if thorough else 12):
        one.append({"op": "hh", "id": "hh%d" % k, "k": k, "prologue_len": [4, 0, 1, 31, 32, 33, 64, 100][k % 8]})
    for i, c in enumerate(COUNTERS):
        one.append({"op": "nonce", "id": "n%d" % i, "ctr": c, "adlen": i % 7, "ptlen": (i * 5) % 40})
    one += golden_scenarios()
    for s in one:
        rep.case(json.dumps(s, sort_keys=True), True)
    rep.sample(one[-1])
    run_oneshot(rep, pid, "terms", "noise", one, tpl, seed, "Trace_Noise", nproc=8, only_prefixes=["C06_", "C19_"])
    # at the tool: the file the tool leaves on disk conforms (opened by the specification-directed reader) and conforming
    # files decrypt to their plaintext, on fresh and on re-used output paths, via files and pipes
    import cli_rt
    cli_rt.run(rep, pid, tpl, seed, "C06", "pass", thorough)
    cli_rt.run(rep, pid, tpl, seed, "C06", "key", False)
    # "every file conforming to that format - however it is split into chunks" also at the tool, named by path: spec-built
    # files whose size modulo a full record (65 568) is 1, 5, 16, 31, 32, 33 (short non-final chunks, as a pipe leaves them)
    import checks_cli
    w6 = checks_cli.World(pid, tpl, seed)
    evs6 = []
    for k, tail in enumerate([1, 5, 16, 31, 32, 33, 65567]):
        for api in ("key", "pass"):
            total = 65568 + tail - 96
            chunks = [30000, 30000, total - 60000] if total - 60000 <= 65536 else [65536, 100, total - 65636]
            out = os.path.join(w6.dir, "cz%d%s.ktl" % (k, api))
            op = {"op": "specfile", "api": api, "chunks": chunks, "pseed": 30 + k, "tag": "cz%d" % k, "out": out}
            if api == "key":
                op.update({"s_priv_hex": w6.keys["alice"]["sk_hex"], "r_pub_hex": w6.keys["bob"]["pk_hex"]})
            else:
                op["password_hex"] = b"file-pw".hex()
            cli.driver_ops(pid, tpl, [op], seed, "cz")
            plain = open(out + ".plain", "rb").read()
            with cli.Sandbox(pid, "cz") as sb:
                sb.write("kr.txt", w6.keyring())
                sb.write("in.ktl", open(out, "rb").read())
                if api == "key":
                    r = cli.kestrel(["decrypt", sb.path("in.ktl"), "-t", "bob", "-o", sb.path("o.bin"), "-k", sb.path("kr.txt"), "--env-pass"],
                                    env={"KESTREL_PASSWORD": "bob-pw"})
                else:
                    r = cli.kestrel(["password", "decrypt", sb.path("in.ktl"), "-o", sb.path("o.bin"), "--env-pass"], env={"KESTREL_PASSWORD": "file-pw"})
                got = sb.read("o.bin")
            evs6.append({"ev": "rt", "id": "rt%d" % (900 + 2 * k + (api == "pass")), "prop": "C06", "api": api, "plen": len(plain), "wiring": "files",
                         "history": "chunks %s" % chunks, "enc_exit": 0, "dec_exit": r.rc, "same": got == plain, "got_len": -1 if got is None else len(got),
                         "spec_ok": True, "named": True, "stderr": r.err_text[-200:]})
    for e_ in evs6:
        rep.case("by-path:" + e_["history"] + e_["api"], True)
    checks_cli.validate_events(rep, pid, "chunked-by-path", evs6, ["C06_"])
    n, ex = st.drift(runs)
    rep.extra["model_drift"] = "none" if n == 0 else "%d runs differ from the Layer-B prediction" % n
    return rep.finish()


# --------------------------------------------------------------------------
# C07
# --------------------------------------------------------------------------

import concurrent.futures as cf
import re
import cli
from vlib import validate_trace, write_jsonl, workdir, NCPU


def fresh_cfg(maxops, nchunks, reuse, invs):
    s = "SPECIFICATION Spec\nCONSTANTS\n  MaxOps = %d\n  NChunks = %d\n  Reuse = %s\n" % (maxops, nchunks, "TRUE" if reuse else "FALSE")
    for i in invs:
        s += "INVARIANT %s\n" % i
    s += "CHECK_DEADLOCK FALSE\n"
    return s


def exec_history(pid, tpl, seed, hid, ops, keys, plen, lib_only=False, intr=False, lo_recipient=False):
    """Run one history of operations with identical inputs through the library / the CLI and
    recover everything each operation drew.  Returns the event list."""
    evs = [{"ev": "begin", "id": hid, "ops": ops}]
    pw = b"same password"
    with cli.Sandbox(pid, "c07") as sb:
        sb.write("keyring.txt", cli.keyring_text([("alice", keys["alice"], True), ("bob", keys["bob"], True)]))
        sb.write("plain.bin", bytes((i * 7 + 1) % 251 for i in range(plen)))
        locked = keys["alice"]["locked"]
        locked_pw = keys["alice"]["password"]
        # every library-level key encryption of this history runs in ONE process, one after the other
        # (identical inputs): randomness cached across calls within a process must show
        lib_idx = [k for k, op in enumerate(ops) if op in ("rand", "rand32") or (op == "kenc" and (k % 2 == 0 or lib_only))]
        lib_ops = []
        for k in lib_idx:
            if ops[k] in ("rand", "rand32"):
                lib_ops.append({"op": ops[k], "id": "%s.%d" % (hid, k)})
                continue
            reads = [[], [7, 3], [1, 1, 1], [1000, 65536, 5], [65536, 100, 65536]][(k // 2 + len(hid)) % 5]
            lop = {"op": "kenc_draws", "kseed": 1, "rseed": 1, "plen": max(plen, 12), "reads": reads, "id": "%s.%d" % (hid, k)}
            if lo_recipient:
                lop["lo"] = [0, 4, 9, 13][k % 4]        # recipients that force all-zero shared secrets
            if intr and k % 2 == 1:
                # a transient read interruption after two chunks have been read: whatever the operation does (fail, or
                # carry on), no (key, nonce) pair may be used twice
                lop.update({"plen": 200000, "reads": [65536, 65536, 65536], "intr_at": 2 + k // 2})
            lib_ops.append(lop)
        lib_res = dict(zip(lib_idx, cli.driver_ops(pid, tpl, lib_ops, seed, hid + "lib"))) if lib_ops else {}
        for k, op in enumerate(ops):
            tag = "%s.%d" % (hid, k)

            def draw(kind, v, ok=True):
                # w: every 8-byte window of the value (25 of them): a value is fresh when NONE of its windows was handed out before
                evs.append({"ev": "draw", "id": tag, "op": op, "kind": kind, "v": v if v else "unrecovered-%s" % tag, "ok": bool(ok and v),
                            "w": [v[2 * j:2 * j + 16] for j in range(len(v) // 2 - 7)] if v else []})

            def seal(key, nonce, index):
                evs.append({"ev": "seal", "id": tag, "op": op, "key": key, "nonce": nonce, "index": index})
            if op in ("rand", "rand32"):
                o = lib_res[k]
                draw("random", o.get("random"), o.get("ok"))
                draw("privkey", o.get("privkey"), o.get("ok"))
                continue
            if op == "kenc" and k in lib_res:
                o = lib_res[k]
                if o.get("failed_as_allowed"):
                    continue
            elif op == "kenc":
                r = cli.kestrel(["encrypt", sb.path("plain.bin"), "-t", "bob", "-f", "alice", "-o", sb.path("c%d.ktl" % k),
                                 "-k", sb.path("keyring.txt"), "--env-pass"], env={"KESTREL_PASSWORD": keys["alice"]["password"].decode()})
                if r.rc != 0:
                    o = {"ok": False}
                else:
                    o = cli.driver_ops(pid, tpl, [{"op": "open", "path": sb.path("c%d.ktl" % k), "r_priv_hex": keys["bob"]["sk_hex"],
                                                   "id": tag}], seed, tag)[0]
            if op == "kenc":
                draw("ephemeral", o.get("e_pub"), o.get("ok"))
                draw("payload", o.get("payload"), o.get("ok"))
                draw("filekey", o.get("file_key"), o.get("ok"))
                if o.get("ok"):
                    seal("k1:" + o["k1"], 0, 0)
                    seal("k2:" + o["k2"], 0, 0)
                    for j, n in enumerate(o["nonces"]):
                        seal("fk:" + o["file_key"], n, j)
            elif op == "penc":
                r = cli.kestrel(["password", "encrypt", sb.path("plain.bin"), "-o", sb.path("p%d.ktl" % k), "--env-pass"],
                                env={"KESTREL_PASSWORD": pw.decode()})
                o = {"ok": False}
                if r.rc == 0:
                    o = cli.driver_ops(pid, tpl, [{"op": "open_pass", "path": sb.path("p%d.ktl" % k), "password_hex": pw.hex(),
                                                   "id": tag}], seed, tag)[0]
                draw("salt", o.get("salt"), o.get("ok"))
                if o.get("ok"):
                    for j, n in enumerate(o["nonces"]):
                        seal("fk:" + o["file_key"], n, j)
            elif op == "generate":
                if k % 2 == 1:
                    # the same on a terminal (the tool formats what it prints differently there)
                    import ptyrun
                    rc_, tr_, _ = ptyrun.run_tty(["key", "generate", "--env-pass"], ["samename"], env={"KESTREL_PASSWORD": pw.decode()}, timeout=60, interrupt=False)
                    r = cli.Run(rc_, tr_, b"")
                else:
                    r = cli.kestrel(["key", "generate", "--env-pass"], env={"KESTREL_PASSWORD": pw.decode()}, stdin=b"samename\n")
                m = re.search(rb"PrivateKey = (\S+)", r.out)
                o = {"ok": False}
                if r.rc == 0 and m:
                    o = cli.driver_ops(pid, tpl, [{"op": "unlock", "locked": m.group(1).decode(), "password_hex": pw.hex(), "id": tag}],
                                       seed, tag)[0]
                draw("privkey", o.get("sk_hex"), o.get("ok"))
                draw("salt", o.get("salt_hex"), o.get("ok"))
                if o.get("ok"):
                    seal("scrypt:" + o["salt_hex"], 0, 0)
                    locked, locked_pw = m.group(1).decode(), pw
            elif op == "changepass":
                if k % 2 == 1:
                    import ptyrun
                    rc_, tr_, _ = ptyrun.run_tty(["key", "change-pass", locked, "--env-pass"], [],
                                                 env={"KESTREL_PASSWORD": locked_pw.decode(), "KESTREL_NEW_PASSWORD": pw.decode()}, timeout=60, interrupt=False)
                    r = cli.Run(rc_, tr_, b"")
                else:
                    r = cli.kestrel(["key", "change-pass", locked, "--env-pass"],
                                    env={"KESTREL_PASSWORD": locked_pw.decode(), "KESTREL_NEW_PASSWORD": pw.decode()})
                m = re.search(rb"PrivateKey = (\S+)", r.out)
                o = {"ok": False}
                if r.rc == 0 and m:
                    o = cli.driver_ops(pid, tpl, [{"op": "unlock", "locked": m.group(1).decode(), "password_hex": pw.hex(), "id": tag}],
                                       seed, tag)[0]
                draw("salt", o.get("salt_hex"), o.get("ok"))
                if o.get("ok"):
                    seal("scrypt:" + o["salt_hex"], 0, 0)
                    locked, locked_pw = m.group(1).decode(), pw
    return evs


def c07(pid, tier, seed, selftest=False):
    rep = Report(pid, tier, seed)
    rep.rule = ("every history of <= n operations over {key encryption (library with randomness left to it / CLI, alternating), "
                "password encryption (CLI), key generation (CLI), password change (CLI)} with identical inputs, enumerated by TLC "
                "on Fresh.tla, is executed; each value the real code drew (ephemeral key, payload key, file key, salt, generated "
                "private key) is recovered from its output by specification-directed opening (freshness is judged per 8-byte window of a "
                "value against all earlier values of the history, one-process library histories up to 80 draws), and every AEAD seal (handshake "
                "keys at nonce 0, each record's key and the nonce it opens at) is logged; Trace_Fresh checks no value drawn "
                "twice, no (key, nonce) reused, chunk i sealed at nonce i; EncLoop's NonceOnce/NonceIsIndex are model-checked "
                "for every schedule; non-trivial = history with >= 2 operations")
    rep.assumptions = ["equality of 32-byte values is the only probabilistic judgement (collision probability 2^-256 per pair)",
                       "recovery uses the recipient's private key / the password, i.e. the specification as decryptor"]
    build_harness()
    tpl, tres = st.get_templates(pid)
    rep.add_model("terms", tres, "byte-layout templates")
    thorough = tier == "thorough"
    # ProjIndInv: every reachable state, projected to integers, satisfies the invariant Apalache proves inductive
    cs_.check_model(rep, pid, "enc-mc", "MC_EncLoop", st.enc_constants(cs=2, maxlen=7 if thorough else 5, hdr="HdrSmall", faults=1),
                    st.ENC_INVARIANTS + st.ENC_REFINEMENT, cs_.ENC_ACTIONS)
    n = 4 if thorough else 3
    res = run_tlc(pid, "fresh-mc", "Fresh", fresh_cfg(n, 2, False, ["AllFresh", "NonceOnce", "Emit"]), workers=1, timeout=300)
    rep.add_model("fresh-mc", res, "histories of %d operations: AllFresh, NonceOnce" % n)
    if res.violated:
        raise ToolError("Fresh violates %s (model bug)" % res.violated)
    if thorough or selftest:
        for inv in ("AllFresh", "NonceOnce"):
            r = run_tlc(pid, "neg-reuse-" + inv, "Fresh", fresh_cfg(2, 2, True, [inv]), workers=1, timeout=120)
            rep.add_model("neg-reuse-" + inv, r, "deviation Reuse must break " + inv)
            if r.violated != inv:
                raise ToolError("negative variant Reuse: expected %s, got %s" % (inv, r.violated))
        for v in ("CounterStuck", "CounterSkips"):
            cs_.negative_variant(rep, pid, "neg-" + v, "MC_EncLoop", st.enc_constants(cs=2, maxlen=5, hdr="HdrSmall", variant=v),
                                 st.ENC_INVARIANTS, ["NonceOnce", "NonceIsIndex", "LegalOutput"])
        from vlib import apalache_inductive
        apalache_inductive(rep, pid, "EncLoopInd")
    hists = [r["ops"] for r in res.replays]
    # shorter histories are prefixes of these; add a few long repeated-identical ones
    hists += [["kenc"] * 6, ["penc"] * 6, ["generate"] * 5, ["generate"] + ["changepass"] * 5]
    n_model = len(hists)
    hists += [["kenc"] * 5, ["kenc"] * 2, ["rand"] * 6, ["rand", "kenc", "rand", "kenc"]]       # library only, one process
    # long one-process histories (80 and 60 draws of 32 bytes): a pool or a cache that hands bytes out again after a while
    hists += [["rand32"] * 40, ["rand32", "kenc"] * 15]
    n_intr = len(hists)
    hists += [["kenc"] * 6]                     # library only, every second one with an interrupted read
    n_lo = len(hists)
    hists += [["kenc"] * 4]                     # library only, to recipients that force all-zero shared secrets: must be refused
    n_big = len(hists)
    hists += [["kenc"] * 2]                     # library only, plaintexts of 2.7 MiB (43 chunks: counters past any batch size)
    keys = cli.make_keys(pid, tpl, seed, [("alice", b"alice-pw"), ("bob", b"bob-pw")])
    all_evs = []

    def one(i_h):
        i, h = i_h
        return exec_history(pid, tpl, seed, "h%d" % i, h, keys, 2700000 if i >= n_big else (70000 if i % 5 == 0 else 10), lib_only=(i >= n_model),
                            intr=(n_intr <= i < n_lo), lo_recipient=(n_lo <= i < n_big))
    with cf.ThreadPoolExecutor(max_workers=NCPU) as ex:
        for evs in ex.map(one, list(enumerate(hists))):
            all_evs.append(evs)
    flat = [e for evs in all_evs for e in evs]
    wd = workdir(pid, "run-fresh", clean=True)
    tp = wd + "/trace.ndjson"
    write_jsonl(tp, flat)
    v = validate_trace(pid, "fresh", "Trace_Fresh", tp, len(flat))
    rep.add_trace_run("fresh", v, len(hists), len(flat))
    for (ln, pred) in v["viols"]:
        if pred.startswith("TOOL_"):
            raise ToolError("trace tooling mismatch " + pred)
        e = flat[ln - 1]
        hist = next((evs for evs in all_evs if evs[0]["id"] == e["id"].split(".")[0]), None)
        rep.violation("%s id=%s op=%s" % (pred, e["id"], e.get("op")), {"engine": "fresh", "history": hist[0]["ops"] if hist else None,
                                                                          "events": hist})
    for i, h in enumerate(hists):
        rep.case(json.dumps(h), len(h) >= 2)
    rep.sample({"history": hists[0], "events": all_evs[0][:8]})
    rep.extra["draws_recovered"] = sum(1 for e in flat if e["ev"] == "draw")
    rep.extra["seals_observed"] = sum(1 for e in flat if e["ev"] == "seal")
    import checks_cli as _cc7
    _cc7.multi_operand_probes(rep, pid, tpl, seed, "C07")
    return rep.finish()


# --------------------------------------------------------------------------
# C08
# --------------------------------------------------------------------------

import random
import struct


def parse_layout(data, h):
    """(nrec, framing_ok): walk header ++ records by the cleartext fields of WireFormat!ChunkHeader (record i carries the
    counter i, only the last record carries the final flag 1, every other one 0, and its length field says where the next
    record starts); a region that is not such a record (e.g. zero bytes left behind by a pre-sized file) breaks the framing."""
    off = h
    n = 0
    ok = True
    last_flag = None
    while off < len(data):
        if off + 32 > len(data):
            return n, False
        ctr, flag, ln = struct.unpack(">QII", data[off:off + 16])
        if ctr != n or flag not in (0, 1) or last_flag == 1:
            ok = False
        last_flag = flag
        off += 32 + ln
        n += 1
    return n, ok and off == len(data) and last_flag == 1


def cli_clear(pid, tpl, seed, idx, plen, mode):
    """kestrel encrypt / password encrypt with long random names; search the output."""
    rnd = random.Random(seed * 1000 + idx)
    # also short names (1..8 bytes fit into a counter field); for those only the cleartext positions are searched
    nlen = [12, 3, 40, 8, 127, 5, 1][idx % 7]
    names = ["".join(rnd.choice("abcdefghijklmnopqrstuvwxyzABCDEFGHIJKLMNOPQRSTUVWXYZ0123456789") for _ in range(nlen))
             for _ in range(2)]
    outs = []
    for ident in (0, 1):
        keys = cli.make_keys(pid, tpl, seed, [("c8s%d" % ident, b"pw-s"), ("c8r%d" % ident, b"pw-r")])
        ks, kr = keys["c8s%d" % ident], keys["c8r%d" % ident]
        with cli.Sandbox(pid, "c08") as sb:
            sb.write("kr.txt", cli.keyring_text([(names[0] + str(ident), ks, True), (names[1] + str(ident), kr, False)]))
            sb.write("plain.bin", bytes((i * 13 + 5) % 256 for i in range(plen)))
            if idx % 2 == 1:
                # the output path already holds a longer file that mentions the parties (an old note, an old ciphertext):
                # nothing of it may survive in the new file
                sb.write("o.ktl", (cli.keyring_text([(names[0] + str(ident), ks, False), (names[1] + str(ident), kr, False)]) * 3).encode()
                         + b"x" * (plen + 4000))
            # the plaintext is named by a path; every third time that path is /dev/stdin with the data on a pipe (what a
            # shell's process substitution amounts to): whatever the tool does with a named input, it must not eat from it
            in_arg, in_data = (sb.path("plain.bin"), b"") if idx % 3 != 2 else ("/dev/stdin", bytes((i * 13 + 5) % 256 for i in range(plen)))
            if mode == "key":
                r = cli.kestrel(["encrypt", in_arg, "-t", names[1] + str(ident), "-f", names[0] + str(ident), "-o", sb.path("o.ktl"),
                                 "-k", sb.path("kr.txt"), "--env-pass"], env={"KESTREL_PASSWORD": "pw-s"}, stdin=in_data)
            else:
                r = cli.kestrel(["password", "encrypt", in_arg, "-o", sb.path("o.ktl"), "--env-pass"],
                                env={"KESTREL_PASSWORD": names[ident]}, stdin=in_data)
            data = sb.read("o.ktl") or b""
        if r.rc != 0:
            # a valid invocation that fails is C12's statement; here it only means nothing can be observed
            raise ToolError("C08 CLI setup: kestrel %s encrypt failed: %s" % (mode, r.err_text[-300:]))
        forms = []
        for k in (ks, kr):
            pk = bytes.fromhex(k["pk_hex"])
            forms += [pk, base64.b64encode(pk), k["pub_enc"].encode(), base64.b64decode(k["pub_enc"]), k["pk_hex"].encode()]
        for nm in (names[0] + str(ident), names[1] + str(ident)):
            if len(nm) >= 12:
                forms += [nm.encode(), base64.b64encode(nm.encode()), nm[:12].encode()]
        outs.append((r.rc, data, forms))
    h = 132 if mode == "key" else 36
    (rc0, d0, f0), (rc1, d1, f1) = outs
    n0, fr0 = parse_layout(d0, h)
    found = any(f in d for d in (d0, d1) for f in f0 + f1 if mode == "key" or f in [x for x in f0 + f1 if len(x) >= 12 and not x.startswith(b"c8")])
    if mode == "pass":
        # in password mode only the names (used as passwords here) are identities
        found = any(nm.encode() in d or base64.b64encode(nm.encode()) in d for d in (d0, d1) for nm in names if len(nm) >= 12)
    n1, fr1 = parse_layout(d1, h)
    clear_equal = len(d0) == len(d1) and d0[:4] == d1[:4]
    clear_bytes = d0[:4] + d1[:4]
    def rec_lens(d):
        out, off = [], h
        while off + 16 <= len(d):
            ln_ = struct.unpack(">I", d[off + 12:off + 16])[0]
            out.append(ln_)
            off += 32 + ln_
        return out
    if idx % 3 == 2 and rec_lens(d0) != rec_lens(d1):
        # piped input: how the pipe happened to deliver the data decides the chunking, run by run; files of different
        # chunkings are each held to the size formula, and only their magic is compared
        clear_equal = d0[:4] == d1[:4]
    elif clear_equal:
        off = h
        while off + 16 <= len(d0):
            clear_bytes += d0[off:off + 16] + b"|" + d1[off:off + 16] + b"|"
            if d0[off:off + 16] != d1[off:off + 16]:
                clear_equal = False
                break
            off += 32 + struct.unpack(">I", d0[off + 12:off + 16])[0]
    # short names: an occurrence inside the cleartext fields (magic, chunk headers) is no accident
    if mode == "key":
        for ident in (0, 1):
            for nm in (names[0] + str(ident), names[1] + str(ident)):
                if 2 <= len(nm) < 12 and nm.encode() in clear_bytes:
                    found = True
    return {"ev": "clear", "id": "cli.%s.%d" % (mode, idx), "api": mode, "plen": plen, "H": h, "ok": rc0 == 0 and rc1 == 0,
            "flen": len(d0), "flen_b": len(d1), "nrec": n0, "nrec_b": n1, "framing_ok": fr0 and fr1, "clear_equal": clear_equal, "identity_found": found}


def c08(pid, tier, seed, selftest=False):
    rep = Report(pid, tier, seed)
    rep.rule = ("NoIdentityInClear / ClearIndependentOfIdentity checked by TLC on the 4608 NoiseAdv scenarios (anything sent outside "
                "an AEAD mentions no static key and is the same for another sender/recipient pair) and the size formula on every "
                "EncLoop schedule; real output: pairs of encryptions (library with identical injected ephemeral / payload key / "
                "salt, and CLI with keyrings whose names are long random strings) that differ only in identities are compared "
                "position by position on the cleartext fields, their length against 132|36 + 32*records + plaintext, and searched "
                "for each party's public key (raw, hex, base64, keyring encoding) and each keyring name (raw, base64); "
                "non-trivial = more than one record or a non-default read partition")
    rep.assumptions = ["identity search strings are >= 12 random bytes, so an accidental occurrence in ciphertext has probability < 2^-60 per file",
                       "AEAD output is treated as opaque (C19)"]
    build_harness()
    tpl, tres = st.get_templates(pid)
    rep.add_model("terms", tres, "byte-layout templates")
    thorough = tier == "thorough"
    res = run_tlc(pid, "clear-mc", "NoiseAdv", noise_cfg(["NoIdentityInClear", "ClearIndependentOfIdentity"]), workers=4, timeout=600)
    rep.add_model("clear-mc", res, "NoIdentityInClear, ClearIndependentOfIdentity on NoiseAdv")
    if res.violated:
        raise ToolError("NoiseAdv violates %s (model bug)" % res.violated)
    if thorough or selftest:
        r = run_tlc(pid, "neg-clear", "NoiseAdv", noise_cfg(["NoIdentityInClear", "ClearIndependentOfIdentity"], "DevStaticKeyInClear"),
                    workers=2, timeout=300)
        rep.add_model("neg-clear", r, "deviation StaticKeyInClear must break the invariants")
        if r.violated not in ("NoIdentityInClear", "ClearIndependentOfIdentity"):
            raise ToolError("negative variant StaticKeyInClear: got %s" % r.violated)
    cs_.check_model(rep, pid, "enc-mc", "MC_EncLoop", st.enc_constants(cs=2, maxlen=7 if thorough else 5, hdr="HdrSmall"),
                    st.ENC_INVARIANTS, cs_.ENC_ACTIONS)
    rnd = random.Random(seed)
    one = []
    n = 400 if thorough else 40
    for i in range(n):
        plen = [0, 1, 10, 65536, 65537, 131072, 200000][i % 7] if i < 21 else rnd.randint(0, 300000)
        reads = [] if i % 3 == 0 else [rnd.randint(1, 65536) for _ in range(rnd.randint(1, 5))]
        one.append({"op": "clear", "id": "cl%d" % i, "api": "key" if i % 4 else "pass", "plen": plen, "reads": reads, "k": i, "pseed": i,
                    "eph": ["both", "both", "priv_only", "pub_only", "none"][i % 5],
                    # how much the sink takes per write call (0: everything): below, at and above the header sizes
                    "wmax": [0, 1, 7, 35, 100, 131, 132, 4096, 65551][i % 9]})
    for s in one:
        rep.case(json.dumps(s, sort_keys=True), s["plen"] > 65536 or bool(s["reads"]))
    rep.sample(one[1])
    run_oneshot(rep, pid, "clear", "noise", one, tpl, seed, "Trace_Noise", nproc=16, only_prefixes=["C08_"])
    # CLI level
    # sizes include exact multiples of the chunk size at and above 1 MiB (where a tool might start to pre-size its output)
    jobs = [(i, [0, 5, 70000, 131072, 1048576, 1114112, 2097152 + 65536][i % 7], "key" if i % 3 else "pass") for i in range(70 if thorough else 14)]
    with cf.ThreadPoolExecutor(max_workers=NCPU) as ex:
        evs = list(ex.map(lambda j: cli_clear(pid, tpl, seed, *j), jobs))
    wd = workdir(pid, "run-cliclear", clean=True)
    tp = wd + "/trace.ndjson"
    write_jsonl(tp, evs)
    v = validate_trace(pid, "cliclear", "Trace_Noise", tp, len(evs))
    rep.add_trace_run("cliclear", v, len(evs), len(evs))
    for (ln, pred) in v["viols"]:
        if pred.startswith("TOOL_"):
            raise ToolError("trace tooling mismatch " + pred)
        rep.violation("%s id=%s" % (pred, evs[ln - 1]["id"]), {"engine": "cliclear", "observed": evs[ln - 1]})
    for e in evs:
        rep.case(e["id"], True)
    rep.sample(evs[0])
    # interactive use with only stdin on a terminal, the ciphertext redirected from stdout, stderr to a log: the file still is
    # the format and nothing else
    import checks_cli
    checks_cli.tty_extension(rep, pid, tpl, seed, thorough, ["C08_"], channels=("redirected",))
    return rep.finish()
