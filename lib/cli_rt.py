"""Round trips through the command-line tool (C01 key mode, C02 password mode): `kestrel encrypt` then
`kestrel decrypt` via files and via pipes, onto fresh output paths and onto paths that already hold a longer
file; the produced file is also opened by the specification-directed reader (golden op).  Events are checked
by Trace_Cli (RtChecks)."""
import concurrent.futures as cf
import json
import os
import re

import cli
from vlib import ToolError, workdir, write_jsonl, validate_trace

SIZES = [0, 1, 65535, 65536, 65537, 131072, 1048576]      # k*65536 also at 1 MiB, where output pre-sizing might start


def _plain(n, salt):
    """Contents vary too: mixed bytes, all zeros (disk images, sparse files), mixed with a long run of zeros at the end, 0xff."""
    kind = salt % 4
    if kind == 1:
        return bytes(n)
    if kind == 3:
        return b"\xff" * n
    b = bytes((i * 31 + 7 * salt + (i >> 8)) % 256 for i in range(n))
    if kind == 2 and n > 20000:
        return b[:n - 16384] + bytes(16384)
    return b


def one(pid, tpl, seed, keys, prop, mode, plen, wiring, history, idx):
    plain = _plain(plen, idx)
    old = b"OLD CONTENT OF THIS PATH\n" * 8000        # 200 000 bytes: longer than any output here
    with cli.Sandbox(pid, "rt") as sb:
        sb.write("kr.txt", cli.keyring_text([("alice", keys["alice"], True), ("bob", keys["bob"], True)]))
        sb.write("plain.bin", plain)
        if history == "over_longer":
            sb.write("ct.ktl", old)
            sb.write("out.bin", old)
        if mode == "key":
            enc = ["encrypt", "-t", "bob", "-f", "alice", "-k", sb.path("kr.txt"), "--env-pass"]
            dec = ["decrypt", "-t", "bob", "-k", sb.path("kr.txt"), "--env-pass"]
            pw_e, pw_d = "alice-pw", "bob-pw"
        else:
            enc = ["password", "encrypt", "--env-pass"]
            dec = ["password", "decrypt", "--env-pass"]
            # passwords as the environment hands them over, exactly: white space at either end, a line ending, non-ASCII
            pw_e = pw_d = ["file pw %d", "trailing blank %d ", "tab at the end %d\t", " leading blank %d", "line ending %d\n", "nbsp %d\u00a0",
                           "pässwörd %d"][idx % 7] % idx
        if wiring == "files":
            r1 = cli.kestrel(enc[:1 if mode == "key" else 2] + [sb.path("plain.bin")] + enc[1 if mode == "key" else 2:] + ["-o", sb.path("ct.ktl")],
                             env={"KESTREL_PASSWORD": pw_e})
            ct = sb.read("ct.ktl")
        else:
            r1 = cli.kestrel(enc, env={"KESTREL_PASSWORD": pw_e}, stdin=plain)
            ct = r1.out
            if history == "over_longer":
                # the shell's `>` truncates; what is exercised here is decrypt's -o onto an existing file below
                pass
            sb.write("ct.ktl", ct or b"")
        spec_ok = False
        if r1.rc == 0 and ct:
            op = {"op": "golden", "id": "x", "api": mode, "path": sb.path("ct.ktl"), "plain_hex": plain.hex()}
            if mode == "key":
                op.update({"r_priv_hex": keys["bob"]["sk_hex"], "s_pub_hex": keys["alice"]["pk_hex"]})
            else:
                op["password_hex"] = pw_d.encode().hex()
            g = cli.driver_ops(pid, tpl, [op], seed, "rt-golden")[0]
            spec_ok = bool(g["dec"] == "ok" and g["plain_ok"] and g["sender_ok"] and g["spec_ok"])
        if wiring == "files":
            r2 = cli.kestrel(dec[:1 if mode == "key" else 2] + [sb.path("ct.ktl")] + dec[1 if mode == "key" else 2:] + ["-o", sb.path("out.bin")],
                             env={"KESTREL_PASSWORD": pw_d})
            got = sb.read("out.bin")
        else:
            # pipe in; write with -o when a history is wanted (stdout has no history), else to the pipe
            if history == "over_longer":
                r2 = cli.kestrel(dec + ["-o", sb.path("out.bin")], env={"KESTREL_PASSWORD": pw_d}, stdin=ct or b"")
                got = sb.read("out.bin")
            else:
                r2 = cli.kestrel(dec, env={"KESTREL_PASSWORD": pw_d}, stdin=ct or b"")
                got = r2.out
        named = True
        if mode == "key":
            m = re.search(r"Success\. File from: (.*)", r2.err_text)
            # (other wording than the pinned tree's: the sender's name is reported somewhere on stderr)
            named = bool(m and m.group(1).strip() == "alice") or (not m and re.search(r"(?<![\w-])alice(?![\w-])", r2.err_text) is not None)
    return {"ev": "rt", "id": "rt%d" % idx, "prop": prop, "api": mode, "plen": plen, "wiring": wiring, "history": history,
            "enc_exit": r1.rc, "dec_exit": r2.rc, "same": got == plain, "got_len": -1 if got is None else len(got),
            "spec_ok": spec_ok, "named": named, "stderr": (r1.err_text[-150:] + " | " + r2.err_text[-150:])}


def foreign_passwords(pid, idx0):
    """Password mode with passwords that are not UTF-8 (a Latin-1 locale): the tool may refuse such a password; if it takes
    it, it takes it as given - a file encrypted under one byte string does not open under another."""
    evs = []
    pairs = [(b"caf\xe9", b"caf\xe8"), (b"\xff\xfe", b"\xfe\xff"), (b"na\xefve pw", "na\ufffdve pw".encode())]
    for k, (pa, pb) in enumerate(pairs):
        with cli.Sandbox(pid, "rtf") as sb:
            plain = b"attack at dawn %d\n" % k
            sb.write("plain.bin", plain)
            r1 = cli.kestrel(["password", "encrypt", sb.path("plain.bin"), "-o", sb.path("ct.ktl"), "--env-pass"], raw_env={b"KESTREL_PASSWORD": pa})
            ev = {"ev": "rtf", "id": "rtf%d" % (idx0 + k), "refused": r1.rc != 0, "own_ok": True, "other_rejected": True,
                  "stderr": r1.err_text[-150:]}
            if r1.rc == 0:
                r2 = cli.kestrel(["password", "decrypt", sb.path("ct.ktl"), "-o", sb.path("o1.bin"), "--env-pass"], raw_env={b"KESTREL_PASSWORD": pa})
                ev["own_ok"] = r2.rc == 0 and sb.read("o1.bin") == plain
                r3 = cli.kestrel(["password", "decrypt", sb.path("ct.ktl"), "-o", sb.path("o2.bin"), "--env-pass"], raw_env={b"KESTREL_PASSWORD": pb})
                ev["other_rejected"] = r3.rc != 0 and not sb.read("o2.bin")
                ev["stderr"] += " | " + r3.err_text[-100:]
            evs.append(ev)
    return evs


def run(rep, pid, tpl, seed, prop, mode, thorough):
    names = [("alice", b"alice-pw"), ("bob", b"bob-pw")]
    keys = cli.make_keys(pid, tpl, seed, names)
    cases = []
    sizes = SIZES + ([196607, 196608, 262145] if thorough else [])
    for plen in sizes:
        for wiring in ("files", "pipes"):
            for history in ("fresh", "over_longer"):
                cases.append((plen, wiring, history))
    with cf.ThreadPoolExecutor(max_workers=8) as ex:
        evs = list(ex.map(lambda ic: one(pid, tpl, seed, keys, prop, mode, ic[1][0], ic[1][1], ic[1][2], ic[0]), list(enumerate(cases))))
    for e in evs:
        e.setdefault("ev", "rt")
    if mode == "pass" and prop == "C02":
        evs += foreign_passwords(pid, len(evs))
    wd = workdir(pid, "run-clirt-" + mode, clean=True)
    tp = os.path.join(wd, "trace.ndjson")
    write_jsonl(tp, evs)
    v = validate_trace(pid, "clirt-" + mode, "Trace_Cli", tp, len(evs))
    rep.add_trace_run("cli-roundtrips-" + mode, v, len(evs), len(evs))
    for (ln, pred) in v["viols"]:
        if pred.startswith("TOOL_"):
            raise ToolError("trace tooling mismatch %s: %s" % (pred, json.dumps(evs[ln - 1])[:500]))
        e = evs[ln - 1]
        if e["ev"] == "rtf":
            rep.violation("%s id=%s" % (pred, e["id"]), {"engine": "history", "observed": e})
            continue
        rep.violation("%s id=%s plen=%d wiring=%s history=%s" % (pred, e["id"], e["plen"], e["wiring"], e["history"]),
                      {"engine": "clirt", "observed": e, "case": {"prop": prop, "mode": mode, "plen": e["plen"], "wiring": e["wiring"],
                                                                 "history": e["history"], "idx": int(e["id"][2:])}})
    rep.extra["cli_round_trips"] = len(evs)
    return evs
