"""Checks of the keyring engine: C15, C17 (library level); C14, C16 (CLI histories)."""
import json
import random

import stream as st
from oneshot import run_oneshot
from vlib import Report, ToolError, build_harness, run_tlc

KR_INV = ["RejectsWhatItMust", "AcceptsToolWritten", "ParseBack", "LookupUnique"]


def kr_cfg(maxlines, strip, invs):
    s = "SPECIFICATION Spec\nCONSTANTS\n  MaxLines = %d\n  StripTabs = %s\n" % (maxlines, "TRUE" if strip else "FALSE")
    for i in invs:
        s += "INVARIANT %s\n" % i
    s += "CHECK_DEADLOCK FALSE\n"
    return s


def c17(pid, tier, seed, selftest=False):
    rep = Report(pid, tier, seed)
    rep.rule = ("every sequence of up to n line tokens over {[Key], Name=a|b|interior-tab|empty|128B|129B, Name without '=', "
                "PublicKey=P1|P2|malformed, PrivateKey=K1|malformed, comment, blank, junk} that the parser model does not "
                "already refuse on a prefix, enumerated by TLC on Keyring.tla (transcription of parse_config/add_key, checked "
                "against the declarative contract KeyringContract), is rendered as text in several whitespace / line-ending "
                "styles and given to the tree's Keyring::new; verdict, entries in order and look-ups are validated against the "
                "contract (three-valued) by TLC; plus every single-character corruption of encoded public keys and wrong "
                "checksums; non-trivial = at least two lines")
    rep.assumptions = ["entries of an accepted keyring are observed through the look-ups the tool's commands use (get_key over the names of the "
                       "text and of the model, get_name_from_key), not through private fields or Debug output"]
    build_harness()
    tpl, tres = st.get_templates(pid)
    rep.add_model("terms", tres, "byte-layout templates (EncodedPub, LockedKey)")
    thorough = tier == "thorough"
    # at the tool (needs nothing of the tool's private interfaces): a keyring entry holding the sender's key bytes under a
    # checksum that does not match is not a usable key and names nobody
    import checks_cli
    w17 = checks_cli.World(pid, tpl, seed)
    cfg17 = [{"cmd": "decrypt", "cause": "none", "prior": "absent", "inp": inp, "outp": outp, "kr": "opt", "long": lng, "alias": lng, "sender": snd}
             for snd in ("badsum", "last") for inp in ("file", "stdin") for outp in ("file", "stdout") for lng in (False, True)]
    # keyrings of more than a megabyte: the entries used stand at the very end / the repeated name stands at the very end
    for krsize in ("huge", "huge_aligned"):
        for cmd in ("decrypt", "encrypt"):
            cfg17.append({"cmd": cmd, "cause": "malformed_keyring", "prior": "absent", "inp": "file", "outp": "file", "kr": "opt" if cmd == "decrypt" else "env",
                          "long": False, "alias": False, "sender": "first", "krsize": krsize})
    for snd in ("last", "first", "badsum"):
        for cmd in ("decrypt", "encrypt"):
            if cmd == "encrypt" and snd == "badsum":
                continue
            # (for encrypt the contract has no sender position; alice_pos says where the entry with the sender's private key stands)
            cfg17.append({"cmd": cmd, "cause": "none", "prior": "absent", "inp": "file", "outp": "file", "kr": "env" if snd == "first" else "opt",
                          "long": True, "alias": False, "sender": snd if cmd == "decrypt" else "first", "alice_pos": snd, "krsize": "huge"})
    checks_cli.run_configs(rep, pid, "tool", w17, cfg17, ["C17_"])
    if rep.violations:
        # a violation seen at the tool stands on its own; the parser-level part below may not even build against such a tree
        return rep.finish()
    n = 7 if thorough else 6
    res = run_tlc(pid, "kr-mc", "Keyring", kr_cfg(n, False, KR_INV + ["Emit"]), workers=1, timeout=1200)
    rep.add_model("kr-mc", res, "parser model vs contract for all token sequences up to %d lines; emits them" % n)
    if res.violated:
        raise ToolError("Keyring model violates %s (model bug, or the tree's parser deviates: see DESIGN.md D3)" % res.violated)
    if thorough or selftest:
        r = run_tlc(pid, "neg-striptabs", "Keyring", kr_cfg(4, True, KR_INV), workers=1, timeout=300)
        rep.add_model("neg-striptabs", r, "deviation StripTabs (the pinned parser, D3) must break ParseBack")
        if r.violated != "ParseBack":
            raise ToolError("negative variant StripTabs: got %s" % r.violated)
        rep.notes.append("deviation StripTabs refuted by ParseBack (defect D3 of the pinned tree)")
    scenarios = []
    for i, r in enumerate(res.replays):
        styles = [i % 30] if not thorough else [i % 30, (i * 7 + 3) % 30]
        if r["class"] == "must_accept":
            styles = list(range(0, 30, 3))
        for stl in styles:
            scenarios.append({"op": "kr", "id": "k%d.%d" % (i, stl), "toks": r["toks"], "class": r["class"], "style": stl})
    # what the model refuses or finds incomplete, CONTINUED: the model stops at the first refused line, a parser need not; a
    # text that goes on after the offending lines (e.g. a [Key] line typed twice, then a complete section) is still judged by
    # the declarative contract (its class is computed by TLC during trace validation, "auto" here)
    comps = [[{"t": "key"}, {"t": "name", "v": "b"}, {"t": "pub", "v": "P2"}], [{"t": "name", "v": "b"}, {"t": "pub", "v": "P2"}],
             [{"t": "pub", "v": "P2"}, {"t": "name", "v": "b"}], [{"t": "key"}, {"t": "name", "v": "a"}, {"t": "pub", "v": "P1"}, {"t": "priv", "v": "K1"}]]
    next_ = 0
    for i, r in enumerate(res.replays):
        if r["model"] or len(r["toks"]) > (5 if thorough else 4):
            continue
        for ci, comp in enumerate(comps):
            next_ += 1
            scenarios.append({"op": "kr", "id": "x%d.%d" % (i, ci), "toks": r["toks"] + comp, "class": "auto", "style": next_ % 30})
    rep.extra["continued_after_a_refused_or_incomplete_prefix"] = next_
    for s in scenarios:
        rep.case(json.dumps([s["toks"], s["style"]]), len(s["toks"]) >= 2)
    rep.sample(scenarios[len(scenarios) // 2])
    rep.sample(next(s for s in scenarios if s["class"] == "must_accept"))
    rep.sample(next(s for s in scenarios if s["class"] == "auto"))
    evs = run_oneshot(rep, pid, "kr", "kr", scenarios, tpl, seed, "Trace_Keyring", nproc=16, only_prefixes=["C17_"])
    rep.extra["accepted"] = sum(1 for e in evs if e["accepted"])
    rep.extra["by_class"] = {c: sum(1 for s in scenarios if s["class"] == c) for c in ("must_accept", "must_reject", "may")}
    # encoded public keys
    pubs = [{"op": "pub", "id": "pe%d" % k, "kind": "encode", "k": k} for k in range(20)]
    pubs += [{"op": "pub", "id": "pg%d" % k, "kind": "good", "k": k} for k in range(20)]
    for k in range(3 if not thorough else 12):
        for i in range(48):
            for c in ([1, 17] if not thorough else [1, 5, 17, 33, 63]):
                pubs.append({"op": "pub", "id": "pc%d.%d.%d" % (k, i, c), "kind": "char", "k": k, "i": i, "c": c})
    pubs += [{"op": "pub", "id": "px%d" % k, "kind": "checksum", "k": k} for k in range(400 if thorough else 60)]
    pubs += [{"op": "pub", "id": "ps%d" % k, "kind": "short", "k": 1, "n": k} for k in range(33)]
    for k in range(6 if thorough else 2):
        pubs += [{"op": "pub", "id": "pp%d.%d" % (k, n), "kind": "cs_pattern", "k": k, "n": n} for n in range(120 if thorough else 70)]
    # large keyrings (look-ups among many entries; keys that are not there)
    pubs += [{"op": "krbig", "id": "kb%d.%d" % (n, k), "n": n, "k": k} for n in (1, 2, 17, 120, 400) for k in range(4 if thorough else 2)]
    for s in pubs:
        rep.case(json.dumps(s, sort_keys=True), True)
    run_oneshot(rep, pid, "pub", "kr", pubs, tpl, seed, "Trace_Keyring", nproc=4, only_prefixes=["C17_"])
    return rep.finish()


# incl. the lengths around the block size of the HMAC inside the key derivation (63, 64, 65 bytes)
PASSWORDS = ["", "61", "70c3a4c39f776f7264e29c93", "00", "ff" * 65, "41" * 200, "42" * 63, "43" * 64, "6b" * 32 + "2d" * 32]


def hmac_key(pw):
    """RFC 2104: the key an HMAC-SHA256 computation actually uses for a given key string."""
    import hashlib
    k = hashlib.sha256(pw).digest() if len(pw) > 64 else pw
    return k + b"\x00" * (64 - len(k))


def hmac_equivalent(a_hex, b_hex):
    return hmac_key(bytes.fromhex(a_hex)) == hmac_key(bytes.fromhex(b_hex))


def c15(pid, tier, seed, selftest=False):
    rep = Report(pid, tier, seed)
    rep.rule = ("lock_private_key output must equal the evaluated LockedKey term of WireFormat.tla (documented format) for "
                "passwords incl. empty, NUL, non-ASCII, > 64 bytes; strings built by the term evaluator must unlock to the key; "
                "the tamper lattice - every single bit of the 84-byte blob (thorough: all 672; quick: one per byte and all bits of "
                "version and tag), every length 0..120, other alphabets / padding / whitespace, every other password incl. near "
                "misses - must fail with an error; enumerated from the case analysis of Unlock in LockModel (TLC); "
                "non-trivial = any altered string or password")
    rep.assumptions = ["scrypt and the AEAD are interpreted by the working tree's exported functions (C18, C19)"]
    build_harness()
    tpl, tres = st.get_templates(pid)
    rep.add_model("terms", tres, "byte-layout templates (LockedKey)")
    thorough = tier == "thorough"
    res = run_tlc(pid, "lock-mc", "LockModel", "SPECIFICATION Spec\nINVARIANT Lossless\nINVARIANT TamperEvident\nINVARIANT WrongPasswordFails\nINVARIANT Emit\nCHECK_DEADLOCK FALSE\n",
                  workers=1, timeout=300)
    rep.add_model("lock-mc", res, "symbolic Lock/Unlock over Terms: lossless, tamper evident; emits the case analysis")
    if res.violated:
        raise ToolError("LockModel violates %s" % res.violated)
    sc = []
    cases = res.replays
    nkeys = 2 if thorough else 1
    for k in range(nkeys):
        for pi, pw in enumerate(PASSWORDS):
            sc.append({"op": "lock", "id": "l%d.%d" % (k, pi), "kind": "lock", "k": k * 10 + pi, "password_hex": pw})
            sc.append({"op": "lock", "id": "u%d.%d" % (k, pi), "kind": "unlock_good", "k": k * 10 + pi, "password_hex": pw})
            import hashlib
            others = ["78", pw + "00", (pw[:-2] if pw else "20"), ("%02x" % (int(pw[:2], 16) ^ 1) + pw[2:]) if pw else "01",
                      pw + "01", hashlib.sha256(bytes.fromhex(pw)).hexdigest()]
            for oi, other in enumerate(others):
                if other != pw:
                    s = {"op": "lock", "id": "w%d.%d.%d" % (k, pi, oi), "kind": "wrong_password", "k": k * 10 + pi,
                         "password_hex": pw, "other_password_hex": other}
                    if hmac_equivalent(pw, other):
                        # RFC 2104 zero-pads / pre-hashes HMAC keys: these two byte strings are the same PBKDF2 password
                        s["tag"] = "hmac-equivalent-password"
                    sc.append(s)
        bits = range(672) if thorough else sorted(set(list(range(0, 672, 8)) + list(range(32)) + list(range(544, 672))))
        for b in bits:
            sc.append({"op": "lock", "id": "b%d.%d" % (k, b), "kind": "bitflip", "k": k, "bit": b})
        for n in range(0, 121):
            if n != 84:
                sc.append({"op": "lock", "id": "n%d.%d" % (k, n), "kind": "length", "k": k, "n": n})
        for n in range(8):
            sc.append({"op": "lock", "id": "a%d.%d" % (k, n), "kind": "alphabet", "k": k, "n": n})
        # conforming strings whose blob ends in zero bytes, presented without them (padded and unpadded base64)
        for kz in ((1, 2, 3) if thorough else (1, 2)):
            for form in (0, 1, 2):
                sc.append({"op": "lock", "id": "z%d.%d.%d" % (k, kz, form), "kind": "zero_tail", "k": k, "kz": kz, "form": form})
    kinds_model = sorted(set(c["kind"] for c in cases))
    rep.extra["model_case_kinds"] = kinds_model
    for s in sc:
        rep.case(json.dumps(s, sort_keys=True), s["kind"] not in ("lock", "unlock_good") and s.get("form") != 2)
    rep.sample(sc[0])
    rep.sample(sc[-1])
    run_oneshot(rep, pid, "lock", "kr", sc, tpl, seed, "Trace_Keyring", nproc=16, only_prefixes=["C15_"])
    # at the tool: a password that is not the one the key is locked under, or one the tool cannot take as given (bytes that
    # are not UTF-8 in KESTREL_PASSWORD), never unlocks or locks anything
    import checks_cli
    checks_cli.tool_clause(rep, pid, tpl, seed, ["encrypt", "decrypt", "key_generate"], ["wrong_password", "non_utf8_password"], "C15_")
    # ... for passwords of every length class at the tool (the property names no bound): generate under it, open the locked
    # key with the specification under it, extract the public key with the tool under it
    import cli
    import re as _re
    lens = [0, 1, 63, 64, 65, 128, 129, 200, 256, 1000, 1024, 1025, 4000]

    def one_len(n):
        pw = ("L%d-" % n + "p" * n)[:n]
        with cli.Sandbox(pid, "pwlen") as sb:
            g = cli.kestrel(["key", "generate", "--env-pass"], env={"KESTREL_PASSWORD": pw}, stdin=b"lenkey\n")
            m = _re.search(rb"PublicKey = (\S+)\nPrivateKey = (\S+)", g.out)
            ev = {"ev": "pwlen", "id": "pwlen%d" % n, "len": n, "gen_exit": g.rc, "spec_ok": False, "extract_exit": -1, "pub_ok": False,
                  "stderr": g.err_text[-150:]}
            if g.rc == 0 and m:
                u = cli.driver_ops(pid, tpl, [{"op": "unlock", "locked": m.group(2).decode(), "password_hex": pw.encode().hex()}], seed, "pwlen")[0]
                ev["spec_ok"] = bool(u.get("ok")) and u.get("pub_enc") == m.group(1).decode()
                x = cli.kestrel(["key", "extract-pub", m.group(2).decode(), "--env-pass"], env={"KESTREL_PASSWORD": pw})
                ev["extract_exit"] = x.rc
                ev["pub_ok"] = _re.search(rb"PublicKey = (\S+)", x.out) is not None and _re.search(rb"PublicKey = (\S+)", x.out).group(1) == m.group(1)
                ev["stderr"] += " | " + x.err_text[-100:]
            return ev
    import concurrent.futures as _cf
    with _cf.ThreadPoolExecutor(max_workers=8) as ex:
        pevs = list(ex.map(one_len, lens))
    for e_ in pevs:
        rep.case(e_["id"], True)
    checks_cli.validate_events(rep, pid, "pwlen", pevs, ["C15_"])
    # ... and typed at a terminal: the key unlocks under the password it is locked under at whichever attempt it is typed
    checks_cli.tty_extension(rep, pid, tpl, seed, thorough, ["C15_"], channels=("tty", "stdin"),
                             select=lambda s_: s_["cmd"] in ("decrypt", "encrypt") and s_["exp"]["res"] == "ok")
    return rep.finish()
