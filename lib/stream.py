"""Stream engine: Layer-B models EncLoop / DecLoop -> behaviours -> real code with
scripted I/O -> recorded traces -> Layer-A trace specification (Trace_Stream.tla)."""
import concurrent.futures as cf
import json
import os
import re

from vlib import (ToolError, cfg, log, run_tlc, run_driver, validate_trace, workdir,
                  write_jsonl, read_jsonl, NCPU)

D_OTHER, D_INTR, D_EXTRA, D_FULL, D_ALLBUT1 = -1, -2, -3, -4, -5

ENC_INVARIANTS = ["TypeOK", "NonceOnce", "NonceIsIndex", "LegalOutput", "Lag", "Completes",
                  "OnlyNonConfUnexpected", "FaultSurfaces", "PrefixShape"]
DEC_INVARIANTS = ["TypeOK", "ReleasedIsAuthenticPrefix", "AcceptMeansComplete", "MustAccept",
                  "FaultSurfaces", "WholeChunks", "Lag", "BoundedRequest"]

HDR_REAL = {"chunks": 0, "key": 132, "pass": 36}


# --------------------------------------------------------------------------
# templates (term evaluation binding)
# --------------------------------------------------------------------------

def get_templates(pid):
    wd = workdir(pid)
    path = os.path.join(wd, "templates.json")
    res = run_tlc(pid, "terms", "MC_Terms", cfg(init="Init", next_="Next", invariants=["Emit"]), workers=1,
                  timeout=120)
    if not res.replays:
        raise ToolError("MC_Terms printed no templates")
    with open(path, "w") as f:
        json.dump(res.replays[0], f)
    return path, res


# --------------------------------------------------------------------------
# model checking of Layer B
# --------------------------------------------------------------------------

def enc_constants(cs=2, maxlen=5, hdr="HdrNone", faults=0, splits=-1, shorts=-1, nonconf=False, variant="none"):
    return {"CS": cs, "MaxLen": maxlen, "HdrItems": "<-" + hdr, "MaxFaults": faults,
            "MaxSplits": splits if splits >= 0 else "<-Unbounded",
            "MaxShort": shorts if shorts >= 0 else "<-Unbounded",
            "NonConf": nonconf, "Variant": variant}


def dec_constants(cs=2, src="Src21", hdr="HdrNone", edits=1, faults=0, splits=-1, shorts=-1, variant="none"):
    return {"CS": cs, "Src": "<-" + src, "HdrParts": "<-" + hdr, "MaxEdits": edits, "MaxFaults": faults,
            "MaxSplits": splits if splits >= 0 else "<-Unbounded",
            "MaxShort": shorts if shorts >= 0 else "<-Unbounded",
            "Variant": variant}


def _cfg_constants(c):
    lines = ["CONSTANTS"]
    for k, v in c.items():
        if isinstance(v, str) and v.startswith("<-"):
            lines.append("  %s <- %s" % (k, v[2:]))
        elif isinstance(v, bool):
            lines.append("  %s = %s" % (k, "TRUE" if v else "FALSE"))
        elif isinstance(v, int):
            lines.append("  %s = %d" % (k, v))
        else:
            lines.append('  %s = "%s"' % (k, v))
    return "\n".join(lines) + "\n"


# the refinement link DecLoop -> DecLoopInd (baseline variant only): invariants and action property of MC_DecLoop
DEC_REFINEMENT = ["ProjDecIndInv", "ProjDecInit", "RefinesDecLoopInd"]
# the same for the encryptor (conforming source, baseline variant): MC_EncLoop
ENC_REFINEMENT = ["ProjIndInv", "ProjEncInit", "RefinesEncLoopInd"]
_PROPERTIES = {"RefinesDecLoopInd", "RefinesEncLoopInd"}


def mc_cfg(consts, invariants, fair=True, view=True, termination=True):
    s = "SPECIFICATION %s\n" % ("FairSpec" if fair else "Spec")
    s += _cfg_constants(consts)
    if "RefinesDecLoopInd" in invariants:
        s += "  Lens <- [DecLoopInd] MCLens\n"
    if "RefinesEncLoopInd" in invariants:
        s += "  Lens <- [EncLoopInd] MCLens\n"
    for i in invariants:
        s += "%s %s\n" % ("PROPERTY" if i in _PROPERTIES else "INVARIANT", i)
    if termination and fair:
        s += "PROPERTY Termination\n"
    if view:
        s += "VIEW View\n"
    s += "CHECK_DEADLOCK FALSE\n"
    return s


def model_check(pid, name, module, consts, invariants, workers=6, timeout=1200, coverage=True):
    """Exhaustive check of a Layer-B model against the Layer-A invariants."""
    res = run_tlc(pid, name, module, mc_cfg(consts, invariants), workers=workers, timeout=timeout,
                  coverage=coverage)
    return res


def emit(pid, name, module, consts, workers=1, timeout=1200):
    """Enumerate complete behaviours of a Layer-B model (schedule history visible)."""
    c = mc_cfg(consts, ["Emit"], fair=False, view=False, termination=False)
    res = run_tlc(pid, name, module, c, workers=workers, timeout=timeout)
    if not res.ok:
        raise ToolError("emission %s failed: %s" % (name, res.violated or res.error))
    return res


def never_taken(res, actions):
    """Vacuity guard: actions of the model that were never taken in an exhaustive run."""
    return [a for a in actions if a in res.coverage and res.coverage[a][1] == 0]


# --------------------------------------------------------------------------
# behaviours -> driver scenarios
# --------------------------------------------------------------------------

def _dirs(seq, scale=1, scaled=False):
    out = []
    extra = 0
    for d in seq:
        if d == D_OTHER:
            out.append("other")
        elif d == D_INTR:
            out.append("intr")
        elif d == D_FULL:
            out.append("full")
        elif d == D_ALLBUT1:
            out.append("allbut1")
        elif d == D_EXTRA:
            out.append("full")
            extra = 1
        else:
            out.append(d * scale if scaled else d)
    return out, extra


def conv_enc(raw, api="chunks", aad="key", cs=None, kseed=1, pseed=1, sid=""):
    """An EncLoop behaviour as a driver scenario.  With api key/pass the model's unit is
    scaled to the production chunk size (read sizes and lengths multiply, write
    directives are symbolic and stay)."""
    mcs = raw["cs"]
    real_cs = mcs if api == "chunks" else 65536
    if cs is not None:
        real_cs = cs
    scale = real_cs // mcs
    rs, extra = _dirs(raw["rs"], scale, scaled=True)
    ws, _ = _dirs(raw["ws"])
    fs, _ = _dirs(raw["fs"])
    return {"op": "enc", "api": api, "aad": aad, "cs": real_cs, "plen": raw["plen"] * scale,
            "rs": rs, "ws": ws, "fs": fs, "extra_after_eof": extra, "kseed": kseed, "pseed": pseed,
            "id": sid, "exp": {"res": raw["exp"]["res"], "chunks": [c * scale for c in raw["exp"]["chunks"]]}}


SRC_MODEL = {"Src322": [[2, 2, 1], [2, 1]], "Src21": [[2, 1], [1]], "Src1": [[2], [1]], "Src0": [[0], [2, 1]], "Src22": [[2, 2], [2]], "Src121": [[1, 2, 1], [1, 1]]}


def conv_dec(raw, srcname, api="chunks", aad="key", sid="", variants=1):
    """A DecLoop behaviour (abstract file + schedule) as driver scenarios.  Abstract edits
    are concretised: `tam` to a bit position, a modified header to flipped bits or a wrong
    key, truncation classes to byte offsets of the real layout."""
    mcs = raw["cs"]
    real_cs = mcs if api == "chunks" else 65536
    scale = real_cs // mcs
    model_src = SRC_MODEL[srcname]
    srcs = [{"chunks": [c * scale for c in ch], "kseed": 1 if api != "chunks" else i + 1, "pseed": i + 1}
            for i, ch in enumerate(model_src)]
    # same recipient / password for both files so that cross-file splices are meaningful:
    # in key and pass mode both sources use kseed 1 but then they would be the same file key;
    # give the second file its own ephemeral/payload (kseed 2) with the same recipient.
    for i, s in enumerate(srcs):
        s["kseed"] = i + 1
    f = raw["file"]
    hreal = HDR_REAL[api]
    out = []
    for v in range(variants):
        recs = []
        for r in f["recs"]:
            plen_m = r["plen"]
            plen_r = plen_m * scale
            lenf = r["lenf"]
            if lenf == plen_m:
                lenf_r = plen_r
            elif lenf == mcs + 1:
                lenf_r = real_cs + 1
            elif lenf == 0:
                lenf_r = 0
            else:
                lenf_r = plen_r + (lenf - plen_m)
            rec = {"src": r["src"], "idx": r["idx"], "flagf": r["flagf"], "lenf": lenf_r,
                   "ctrf": r["idx"] if r["ctrok"] else r["idx"] + 1 + v}
            if r["src"] == 99:
                # forged record: attacker-made bytes, body length = its length field (model scale = real scale here)
                rec = {"src": 99, "idx": r["idx"], "flagf": r["flagf"], "lenf": r["lenf"], "ctrf": r["idx"], "forged": True,
                       "plen": r["lenf"], "last": r["flagf"]}
                recs.append(rec)
                continue
            if r["tam"]:
                nbits = (plen_r + 16) * 8
                # first ciphertext byte, last tag byte, middle
                rec["tam"] = [0, nbits - 1, nbits // 2][v % 3]
            recs.append(rec)
        file = {"hsrc": f["hsrc"], "hdr": "ok", "recs": recs, "cut": -1, "trail": f["trail"]}
        wrong_key = False
        if not f["hdrok"]:
            if hreal == 0 or v % 3 == 2:
                wrong_key = True
            else:
                # a bit in the magic, in the ephemeral key / salt, or in the last header byte
                file["hdr"] = "flip:%d" % [5, 8 * 20 + 3, 8 * hreal - 1][v % 3]
        cr = raw["cutrec"]
        if cr["rec"] >= 0:
            if cr["rec"] == 0:
                hm = 5  # abstract header size of the model (HdrSmall)
                o = cr["off"]
                cut = 0 if o == 0 else (1 if o == 1 else hreal - 1)
            else:
                k = cr["rec"]
                start = hreal + sum(32 + f["recs"][i]["plen"] * (1 if f["recs"][i]["src"] == 99 else scale) for i in range(k - 1))
                plen_m = f["recs"][k - 1]["plen"]
                sc_k = 1 if f["recs"][k - 1]["src"] == 99 else scale
                o = cr["off"]
                if o <= 16:
                    off = o
                elif o == 16 + plen_m:
                    off = 16 + plen_m * sc_k
                else:
                    off = 31 + plen_m * sc_k
                cut = start + off
            file["cut"] = cut
        rs, _ = _dirs(raw["rs"])
        ws, _ = _dirs(raw["ws"])
        fs, _ = _dirs(raw["fs"])
        s = {"op": "dec", "api": api, "aad": aad, "cs": real_cs, "srcs": srcs, "file": file,
             "rs": rs, "ws": ws, "fs": fs, "id": "%s.%d" % (sid, v), "wrong_key": wrong_key,
             "exp": raw["exp"], "edits": raw.get("edits", [])}
        out.append(s)
        if not (f["hdrok"] is False or any(r["tam"] or not r["ctrok"] for r in f["recs"])):
            break  # nothing to vary
    return out


# --------------------------------------------------------------------------
# run scenarios, validate traces
# --------------------------------------------------------------------------

def split_runs(trace_path):
    """[(begin_line_index, begin, events..., end)] per run; indices are 1-based line numbers."""
    runs = []
    cur = None
    with open(trace_path) as f:
        for i, line in enumerate(f, 1):
            e = json.loads(line)
            if e["ev"] == "begin":
                cur = {"line": i, "begin": e, "events": [], "end": None}
                runs.append(cur)
            elif e["ev"] == "end":
                cur["end"] = e
                cur["last"] = i
            else:
                cur["events"].append(e)
    return runs


def run_and_validate(rep, pid, name, scenarios, templates, seed, nproc=None, module="Trace_Stream"):
    """Run scenarios through the driver (parallel), validate every recorded trace against
    the Layer-A trace specification.  Violations are added to `rep`.  Returns the list
    of runs (scenario, begin, end) for model-drift comparison."""
    if not scenarios:
        return []
    wd = workdir(pid, "run-" + name, clean=True)
    nproc = nproc or min(NCPU, max(1, len(scenarios) // 50))
    parts = [scenarios[i::nproc] for i in range(nproc)]
    parts = [p for p in parts if p]

    def one(i_part):
        i, part = i_part
        sp = os.path.join(wd, "scn%d.jsonl" % i)
        tp = os.path.join(wd, "trace%d.ndjson" % i)
        write_jsonl(sp, part)
        run_driver(["stream", templates, sp, tp], env={"VERIF_SEED": seed})
        n = sum(1 for _ in open(tp))
        v = validate_trace(pid, "%s-%d" % (name, i), module, tp, n)
        return i, part, tp, n, v

    results = []
    with cf.ThreadPoolExecutor(max_workers=min(len(parts), NCPU)) as ex:
        for r in ex.map(one, list(enumerate(parts))):
            results.append(r)
    allruns = []
    for i, part, tp, n, v in results:
        runs = split_runs(tp)
        if len(runs) != len(part) * (2 if part and part[0]["op"] == "rt" else 1):
            # rt scenarios produce two runs each; mixed files are not generated
            pass
        rep.add_trace_run("%s-%d" % (name, i), v, len(runs), n)
        byid = {}
        for s in part:
            byid[s.get("id", "")] = s
        for r in runs:
            r["scenario"] = byid.get(r["begin"].get("id", ""))
        allruns.extend(runs)
        for (ln, pred) in v["viols"]:
            if pred.startswith("TOOL_"):
                raise ToolError("projection mismatch %s at %s:%d" % (pred, tp, ln))
            run = None
            for r in runs:
                if r["line"] <= ln <= r.get("last", 10 ** 9):
                    run = r
            what = "%s op=%s id=%s" % (pred, run["begin"]["op"] if run else "?",
                                       run["begin"].get("id") if run else "?")
            trace = None
            if run:
                evs = run["events"]
                k = ln - run["line"] - 1
                trace = [run["begin"]] + evs[max(0, k - 20):k + 3] + [run["end"]]
            rep.violation(what, {"engine": "stream", "predicate": pred,
                                 "event_index": ln - (run["line"] if run else 0),
                                 "scenario": run["scenario"] if run else None, "trace_excerpt": trace})
    return allruns


def wide_monitor(tp):
    """The predicates of Trace_Stream for fault-free runs, evaluated in Python's unbounded integers: for the runs whose byte
    counters exceed TLC's 32-bit integers (inputs of 2 GiB and more).  Supplementary, outside TLC - the same events and the
    same predicate names; everything below 2 GiB is validated by TLC.  Returns [(line, predicate)]."""
    out = []
    b = None
    m = None
    for ln, e in enumerate(read_jsonl(tp), 1):
        ev = e["ev"]
        if ev == "begin":
            b = e
            m = {"eof": False, "maxheap": 0, "unflushed": 0, "faulty": False}
            continue
        if b is None:
            continue
        enc = b["op"] == "enc"
        total = b["plen"] if enc else b["flen"]
        if ev in ("read", "write", "flush"):
            if e["ret"] < 0 or (ev == "write" and e["ret"] == 0 and e["req"] > 0):
                m["faulty"] = True
            if e["heap"] > b["heapk"]:
                out.append((ln, "E5_heap_not_constant" if enc else "D8_heap_not_constant"))
            if enc:
                if e["cons"] - e["cov"] > 3 * b["cs"]:
                    out.append((ln, "E4_output_lags_input"))
            else:
                if e["acc"] < e["due"]:
                    out.append((ln, "D7_output_lags_input"))
                if ev == "write" and e["req"] > 0:
                    if e["off"] + e["req"] > e["authc"]:
                        out.append((ln, "D1_write_before_authenticated"))
                    if not e["ok"]:
                        out.append((ln, "D1_written_bytes_not_authentic_plaintext"))
            if ev == "read" and e["ret"] == 0 and e["req"] > 0 and e["cons"] == total:
                m["eof"] = True
            if ev == "write" and e["ret"] > 0:
                m["unflushed"] += e["ret"]
            if ev == "flush" and e["ret"] == 0:
                m["unflushed"] = 0
            m["maxheap"] = max(m["maxheap"], e["heap"])
        elif ev == "end":
            if m["faulty"]:
                raise ToolError("wide_monitor is for fault-free runs only")
            if e["res"] in ("panic", "hang"):
                out.append((ln, "E6_panic_or_hang" if enc else "D6_panic_or_hang"))
            elif enc:
                if e["res"] != "ok":
                    out.append((ln, "E2_error_without_cause"))
                else:
                    R = b["recs"]
                    legal = (len(R) >= 1 and all(r["ok"] and r["ctrok"] and r["n"] >= 1 and (1 <= r["len"] <= b["cs"] or (r["len"] == 0 and b["plen"] == 0 and len(R) == 1 and R[0]["n"] == 1)) for r in R)
                             and all(r["last"] == 0 for r in R[:-1]) and R[-1]["last"] == 1 and R[-1]["n"] == 1
                             and sum(r["n"] * r["len"] for r in R) == b["plen"] and b["residue"] == 0 and not b["dead"] and b["hdr_ok"]
                             and b["sinklen"] == b["H"] + 32 * sum(r["n"] for r in R) + b["plen"] and e["cons"] == b["plen"])
                    if not legal:
                        out.append((ln, "E1_illegal_output"))
                    if not m["eof"]:
                        out.append((ln, "E1_success_without_end_of_data"))
            else:
                if e["res"] != "ok":
                    out.append((ln, "D3_rejected_authentic_file"))
                else:
                    if e["acc"] != b["plen"]:
                        out.append((ln, "D2_success_with_incomplete_output"))
                    if not (e["cons"] == b["flen"] and m["eof"]):
                        out.append((ln, "D2_success_without_end_of_data"))
                    if not e["sender_ok"]:
                        out.append((ln, "D2_wrong_sender_reported"))
                if not e["boundary"]:
                    out.append((ln, "D5_partial_chunk_released"))
                if m["unflushed"] != 0:
                    out.append((ln, "D5_accepted_bytes_not_flushed_when_the_call_returns"))
            if b.get("heap_ref", -1) >= 0 and m["maxheap"] > b["heap_ref"] + 1024:
                out.append((ln, "E5_heap_grows_with_input_length" if enc else "D8_heap_grows_with_input_length"))
            if "heap" in e and e["heap"] > b["heapk"]:
                out.append((ln, "E5_heap_not_constant" if enc else "D8_heap_not_constant"))
            b = None
    return out


def run_wide(rep, pid, name, scenarios, templates, seed):
    """Runs whose counters do not fit TLC's integers: recorded by the same driver, judged by wide_monitor."""
    wd = workdir(pid, "run-" + name, clean=True)
    for i, s in enumerate(scenarios):
        sp = os.path.join(wd, "scn%d.jsonl" % i)
        tp = os.path.join(wd, "trace%d.ndjson" % i)
        write_jsonl(sp, [s])
        run_driver(["stream", templates, sp, tp], env={"VERIF_SEED": seed}, timeout=3600)
        viols = wide_monitor(tp)
        n = sum(1 for _ in open(tp))
        rep.extra.setdefault("runs_judged_in_64_bit_arithmetic_outside_tlc", []).append({"id": s.get("id"), "plen": s.get("plen"), "events": n})
        for (ln, pred) in viols[:5]:
            rep.violation("%s op=%s id=%s (64-bit evaluation outside TLC)" % (pred, s["op"], s.get("id")),
                          {"engine": "stream", "predicate": pred, "scenario": s})
        os.unlink(tp)


def drift(runs):
    """Compare what the implementation did with what the Layer-B model predicted for the same
    scenario.  A difference is MODEL-DRIFT (my model no longer describes the code), never a
    violation."""
    n = 0
    examples = []
    for r in runs:
        s = r.get("scenario")
        if not s or "exp" not in s or r["end"] is None:
            continue
        exp = s["exp"]
        got = r["end"]["res"]
        want = exp["res"]
        ok = (got == want) or (want == "err_hdr" and got.startswith("err")) \
            or (want in ("err_chunklen", "err_auth", "err_read") and s.get("file", {}).get("trail", 0) > 0 and got.startswith("err"))
        if s["op"] == "enc" and ok and want == "ok":
            lens = []
            for x in r["begin"]["recs"]:
                lens += [x["len"]] * x["n"]
            ok = lens == exp["chunks"]
        if not ok:
            n += 1
            if len(examples) < 3:
                examples.append({"id": s.get("id"), "model": want, "impl": got})
    if n:
        log("MODEL-DRIFT: %d runs differ from the Layer-B prediction, e.g. %s" % (n, json.dumps(examples)))
    return n, examples
