#!/bin/bash
# try_refactor.sh <patch.diff> [check id...]   apply a behaviour-PRESERVING change to /repo and run the checks (default: all):
# any VIOLATION is a false alarm of the machinery.  Undoes the change afterwards.
patch=$1; shift
ids="$@"; [ -z "$ids" ] && ids="C01 C02 C03 C04 C05 C06 C07 C08 C09 C10 C11 C12 C13 C14 C15 C16 C17 C18 C19 C20"
git -C /repo status --short | grep -q . && { echo "repo not clean"; exit 2; }
# PRE_REVERT=<diff>: a patch made against an older tree: that diff (e.g. a later fix) is taken out of the working tree first
[ -n "$PRE_REVERT" ] && { git -C /repo apply -R "$PRE_REVERT" || { echo "pre-revert failed"; exit 2; }; }
git -C /repo apply "$patch" || { echo "patch does not apply"; git -C /repo checkout -- .; exit 2; }
tag=$(basename $(dirname $patch))
for p in $ids; do
  cp /verif/evidence/$p.json /tmp/try_ev_$p.json 2>/dev/null
  s=$(date +%s)
  /verif/bin/check $p > /tmp/ref_${tag}_$p.out 2>&1; rc=$?
  echo "$p exit=$rc $(( $(date +%s)-s ))s $(grep -c '^VIOLATION' /tmp/ref_${tag}_$p.out) violations; $(grep -m3 -E '^  [A-Z][0-9]+_|^  [A-Z]+[0-9]*_|TOOL-ERROR' /tmp/ref_${tag}_$p.out | tr '\n' ';' | cut -c1-400)"
  [ -f /tmp/try_ev_$p.json ] && mv /tmp/try_ev_$p.json /verif/evidence/$p.json
done
git -C /repo checkout -- . ; git -C /repo clean -fdq -- src
