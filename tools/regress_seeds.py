#!/usr/bin/env python3
"""regress_seeds.py [name-prefix...]: apply every filed seeded change to /repo in turn, run the check of the property it
targets (quick tier), undo it.  Prints one line per seed; exit 1 if a seed is no longer detected."""
import json
import os
import subprocess
import sys

root = "/verif/seeded"
only = sys.argv[1:]
missed = []
for name in sorted(n for n in os.listdir(root) if not n.startswith("_")):
    if only and not any(name.startswith(p) for p in only):
        continue
    d = os.path.join(root, name)
    meta = json.load(open(os.path.join(d, "meta.json")))
    prop = meta["property"]
    patch = os.path.join(d, "patch.diff")
    if subprocess.run(["git", "-C", "/repo", "status", "--short"], capture_output=True, text=True).stdout.strip():
        print("repo not clean")
        sys.exit(2)
    chk = subprocess.run(["git", "-C", "/repo", "apply", "--check", patch], capture_output=True, text=True)
    pre = None
    if chk.returncode != 0:
        # made against an older tree: try without the later fix commits' changes (kept as diffs under seeded/_base)
        for base in sorted(os.listdir(os.path.join(root, "_base"))) if os.path.isdir(os.path.join(root, "_base")) else []:
            b = os.path.join(root, "_base", base)
            subprocess.run(["git", "-C", "/repo", "apply", "-R", b], capture_output=True)
            if subprocess.run(["git", "-C", "/repo", "apply", "--check", patch], capture_output=True).returncode == 0:
                pre = b
                break
            subprocess.run(["git", "-C", "/repo", "checkout", "--", "."])
        if pre is None:
            print("%-60s %s  PATCH DOES NOT APPLY" % (name, prop))
            continue
    subprocess.run(["git", "-C", "/repo", "apply", patch], check=True)
    ev = "/verif/evidence/%s.json" % prop
    saved = open(ev).read() if os.path.exists(ev) else None
    p = subprocess.run(["/verif/bin/check", prop], capture_output=True, text=True)
    if saved is not None:
        open(ev, "w").write(saved)
    subprocess.run(["git", "-C", "/repo", "checkout", "--", "."], check=True)
    subprocess.run(["git", "-C", "/repo", "clean", "-fdq", "--", "src"], check=True)
    nv = p.stdout.count("\nVIOLATION") + (1 if p.stdout.startswith("VIOLATION") else 0)
    first = next((l.strip() for l in p.stdout.splitlines() if l.startswith("  ") and "_" in l), "")
    tag = "detected" if p.returncode == 1 and nv else ("TOOL-ERROR" if p.returncode == 2 else "MISSED")
    if tag != "detected":
        missed.append(name)
    print("%-60s %s  %s rc=%d  %s%s" % (name, prop, tag, p.returncode, first[:110], " (on the tree before %s)" % os.path.basename(pre) if pre else ""), flush=True)
print("not detected:", missed)
sys.exit(1 if missed else 0)
