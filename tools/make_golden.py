#!/usr/bin/env python3
"""Writes the frozen corpus /verif/golden (run ONCE, on the pinned tree; the result is
committed).  Files are produced by the real encryptor of /repo at that time; the check
C06 later requires that they keep decrypting and keep parsing under the specification."""
import hashlib
import json
import os
import subprocess
import sys

ROOT = os.path.dirname(os.path.dirname(os.path.abspath(__file__)))
sys.path.insert(0, os.path.join(ROOT, "lib"))
import stream as st  # noqa: E402
from vlib import build_harness, KDRV, workdir, write_jsonl, read_jsonl  # noqa: E402

G = os.path.join(ROOT, "golden")


def h(label):
    return hashlib.sha256(("kestrel-golden:" + label).encode()).hexdigest()


def main():
    build_harness()
    tpl, _ = st.get_templates("golden")
    entries = []
    key_cases = [("k0", 0, []), ("k1", 1, []), ("k13", 13, []), ("k8_53", 8, [5, 3]), ("k3_111", 3, [1, 1, 1]),
                 ("k65536", 65536, []), ("k65537", 65537, []), ("k131077", 131077, []), ("k70000_short", 70000, [30000, 30000])]
    for name, plen, reads in key_cases:
        e = {"op": "mkgolden", "api": "key", "plen": plen, "pseed": 41, "reads": reads,
             "s_priv_hex": h(name + "s"), "r_priv_hex": h("recipient"), "e_priv_hex": h(name + "e"), "payload_hex": h(name + "p"),
             "out": os.path.join(G, name + ".ktl"), "id": name}
        entries.append(e)
    pass_cases = [("p0_empty", 0, [], ""), ("p10", 10, [], "70617373776f7264"), ("p8_44", 8, [4, 4], "70c3a4c39f776f7264e29c93"),
                  ("p70000", 70000, [], "00ff00"), ("p65536", 65536, [], "61")]
    for name, plen, reads, pw in pass_cases:
        e = {"op": "mkgolden", "api": "pass", "plen": plen, "pseed": 43, "reads": reads, "password_hex": pw,
             "salt_hex": h(name + "salt"), "out": os.path.join(G, name + ".ktl"), "id": name}
        entries.append(e)
    npub = len(entries)
    entries = entries + [{"op": "pubof", "sk_hex": e["s_priv_hex"]} for e in entries if e["api"] == "key"]
    wd = workdir("golden")
    sp = os.path.join(wd, "mk.jsonl")
    op = os.path.join(wd, "mk.out")
    write_jsonl(sp, entries)
    subprocess.run([KDRV, "noise", tpl, sp, op], check=True)
    outs = read_jsonl(op)
    man = []
    pubs = [o["pk_hex"] for o in outs[npub:]]
    entries = entries[:npub]
    for e, o in zip(entries, outs):
        m = {"id": e["id"], "api": e["api"], "file": os.path.basename(e["out"]), "plen": e["plen"], "pseed": e["pseed"],
             "sha256": o["sha256"], "len": o["len"], "written_by": "pinned tree b075d88 + hooks"}
        if e["api"] == "key":
            m["r_priv_hex"] = e["r_priv_hex"]
            m["s_pub_hex"] = pubs.pop(0)
        else:
            m["password_hex"] = e["password_hex"]
        man.append(m)
    # the repository's own golden files (tests/data.txt.ktl, pdata.txt.ktl) and its test keyring
    import shutil
    for f in ("data.txt.ktl", "pdata.txt.ktl"):
        shutil.copy(os.path.join("/repo/src/cli/tests", f), os.path.join(G, "repo_" + f))
    plain = open("/repo/src/cli/tests/data.txt", "rb").read()
    man.append({"id": "repo_data", "api": "key", "file": "repo_data.txt.ktl", "plain_hex": plain.hex(),
                "r_locked": "ZWdrMDJgXksGfgKQ8A9wTo/1PhQ8YCXDYSGCTb737pxrQ7pJtGH79RZWjOIlSSWApiEQEsryBh/oOY9jLVWlgEXEuKNFhIiUEhFLPsIkMG984lMP",
                "r_password_hex": b"bob".hex(), "s_pub_b64": "IFi4oklOSLMCfUhqstD6YYlG9XcaVkREIqyDwCMY0SykFyD8",
                "written_by": "finfet/kestrel repository (src/cli/tests)"})
    man.append({"id": "repo_pdata", "api": "pass", "file": "repo_pdata.txt.ktl", "plain_hex": plain.hex(),
                "password_hex": b"pass123".hex(), "written_by": "finfet/kestrel repository (src/cli/tests)"})
    with open(os.path.join(G, "corpus.json"), "w") as f:
        json.dump(man, f, indent=1)
        f.write("\n")
    print("wrote", len(man), "entries")


main()
