#!/usr/bin/env python3
"""confirm_seed.py <worktree> <seed-id> <property> <needs...>
Confirms a sub-agent's seeded change myself in its scratch worktree (compiles, the 33 tests pass
with it, the demonstration passes without it and fails with it), then files it under /verif/seeded/<seed-id>/."""
import json
import os
import shutil
import subprocess
import sys

wt, sid, prop = sys.argv[1:4]
needs = " ".join(sys.argv[4:])


def sh(cmd, cwd):
    p = subprocess.run(cmd, shell=True, cwd=cwd, stdout=subprocess.PIPE, stderr=subprocess.STDOUT, text=True)
    return p.returncode, p.stdout


def demo():
    d = os.path.join(wt, "demo")
    if os.path.exists(os.path.join(d, "demo.sh")):
        rc, out = sh("cargo build --offline -q 2>&1 | tail -3; bash demo/demo.sh", wt)
        return rc, out, "cargo build --offline && bash demo/demo.sh"
    scripts = [f for f in os.listdir(d) if f.endswith(".sh") or f.endswith(".py")]
    if scripts and not os.path.exists(os.path.join(d, "Cargo.toml")):
        s = scripts[0]
        rc, out = sh("cargo build --offline -q 2>&1 | tail -3; %s demo/%s" % ("sh" if s.endswith(".sh") else "python3", s), wt)
        return rc, out, "cargo build --offline && run demo/" + s
    if os.path.isdir(os.path.join(d, "tests")) or (os.path.exists(os.path.join(d, "src", "lib.rs")) and not os.path.exists(os.path.join(d, "src", "main.rs"))):
        rc, out = sh("cargo test --offline 2>&1", d)
        return rc, out, "cd demo && cargo test --offline"
    rc, out = sh("cargo run --offline 2>&1", d)
    return rc, out, "cd demo && cargo run --offline"


patch = os.path.join(wt, "patch.diff")
applied = sh("git apply --check -R patch.diff", wt)[0] == 0
if applied:
    assert sh("git apply -R patch.diff", wt)[0] == 0
rc0, out0, cmd = demo()
assert sh("git apply patch.diff", wt)[0] == 0, "patch does not apply"
rc1, out1, _ = demo()
rct, outt = sh("cargo test --workspace --no-fail-fast --offline 2>&1 | grep -E '^test result|FAILED|error'", wt)
passed = sum(int(l.split("ok. ")[1].split(" passed")[0]) for l in outt.splitlines() if l.startswith("test result: ok."))
ok = rc0 == 0 and rc1 != 0 and passed == 33 and "FAILED" not in outt
print("demo without change: rc=%d; with change: rc=%d; tests passed with change: %d -> %s" % (rc0, rc1, passed, "CONFIRMED" if ok else "NOT CONFIRMED"))
if not ok:
    print(out0[-1500:])
    print(out1[-1500:])
    print(outt)
    sys.exit(1)
dst = os.path.join("/verif/seeded", sid)
shutil.rmtree(dst, ignore_errors=True)
os.makedirs(dst)
shutil.copy(patch, os.path.join(dst, "patch.diff"))
shutil.copytree(os.path.join(wt, "demo"), os.path.join(dst, "demo"), ignore=shutil.ignore_patterns("target"))
meta = {"property": prop, "source": "independent sub-agent given only the property text and a scratch worktree",
        "needs_to_manifest": needs,
        "confirmed_by_me": {"demo_command": cmd, "demo_exit_without_change": rc0, "demo_exit_with_change": rc1,
                            "existing_tests_passed_with_change": passed,
                            "demo_output_with_change_tail": out1[-600:]},
        "detected_by": []}
json.dump(meta, open(os.path.join(dst, "meta.json"), "w"), indent=1)
print("filed under", dst)
