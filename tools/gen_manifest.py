#!/usr/bin/env python3
"""Regenerates /verif/MANIFEST.json from the table below (one source of truth for the
per-check texts).  Run after changing which properties are claimed."""
import json
import os
import subprocess

ROOT = os.path.dirname(os.path.dirname(os.path.abspath(__file__)))
props = [json.loads(l) for l in open(os.path.join(ROOT, "properties.jsonl"))]

TECH = "explicit TLA+ specification checked by TLC + conformance (spec->impl replay of TLC behaviours, impl->spec trace validation)"

CHECKS = {
 "C01": dict(engine="stream", design_ref="DESIGN.md 6 C01",
   text="TLC exhaustively checks the Layer-B models EncLoop/DecLoop (every length up to the bound, every read partition, every partial-write split) against the Layer-A invariants LegalOutput/MustAccept/AcceptMeansComplete; every enumerated behaviour is replayed as an encrypt-then-decrypt round trip on the real chunk loops (same small chunk size) and, scaled, on key_encrypt/key_decrypt, plus production-size round trips with library-drawn randomness; each recorded I/O trace is validated event by event against the trace specification Trace_Stream (encryptor output must equal the specification's record terms for the chunking it chose; decryptor must return the plaintext and the sender). Exhaustive in the small scope, sampled at 64 KiB. Round trips through the tool itself (kestrel encrypt | decrypt via files and via pipes, onto fresh output paths and onto paths holding a longer file, plaintext sizes 0, 1, k*65536-1, k*65536, k*65536+1) are validated by Trace_Cli!RtChecks, the produced file being opened by the specification-directed reader.",
   note="Assumes the symbolic AEAD/DH algebra of Terms.tla (exercised against the real primitives by C19) and that the harness's scripted Read/Write objects are the only I/O the functions perform. Small-scope exhaustiveness is for chunk sizes 1..3 and lengths up to 3*CS+1; beyond that sampling."),
 "C02": dict(engine="stream", design_ref="DESIGN.md 6 C02",
   text="As C01 in password mode (hooked loops with the password AAD prefix, pass_encrypt/pass_decrypt), with every third round trip decrypted under a different password (near misses included) where the contract is MUST_REJECT with nothing released (D1: no write beyond the authenticated prefix, which is empty). DecLoop is model-checked with the adversary action 'header/key does not authenticate' and the invariant WrongKeyReleasesNothing. The same round trips through the tool in password mode (Trace_Cli!RtChecks).",
   note="Password inequality is byte inequality; scrypt is interpreted by the working tree's exported scrypt (its RFC conformance is C18's matter)."),
 "C03": dict(engine="stream", design_ref="DESIGN.md 6 C03",
   text="TLC explores every abstract file reachable within k adversary edits from two authentic files (13 edit actions incl. cross-file splices, header swaps, truncation in every field class, appends) and checks AcceptMeansComplete / ReleasedIsAuthenticPrefix on the decryptor model; each explored file is concretised from specification-built records and given to the real decryptor (hooked loop, key_decrypt, pass_decrypt), and the verdict is compared with the contract's three-valued class computed in TLA+ from the abstract file (AFile!Class) during trace validation. Every single-bit flip and every proper prefix of complete files is added.",
   note="Soundness of 'splice fails' rests on the AEAD assumption (C19) and on distinct files having distinct keys (C07). Edits are bounded (2 quick, 3 thorough); bit positions within large bodies are sampled."),
 "C04": dict(engine="stream", design_ref="DESIGN.md 6 C04",
   text="The invariant ReleasedIsAuthenticPrefix is model-checked in every state of DecLoop under every schedule and single fault; the real decryptor's write calls (bytes, offset, ciphertext consumed so far) are recorded for authentic and adversarial files under enumerated schedules and fault points and validated against D1 (no write beyond the plaintext of records authentic in position and completely consumed; bytes equal the authentic plaintext), D2 (success only after a final record and end of data), D5 (whole chunks). The adversary includes forged records. Thorough tier: the same predicates on the system-call sequence of the real binary (strace converted to the same event format), and an Apalache-discharged inductive invariant of the integer projection DecLoopInd for any number of chunks. Every tier: TLC checks that each step of DecLoop is a step of DecLoopInd (action property RefinesDecLoopInd). At the tool: kestrel decrypt / password decrypt never exit 0 for a damaged or extended file, a full device or a reader that has gone away (CliContract causes, Trace_Cli).",
   note="'No byte before the chunk verifies' is observed at the Write boundary: no byte of a chunk that does not verify, and none before its tag has been read."),
 "C10": dict(engine="stream", design_ref="DESIGN.md 6 C10",
   text="FaultSurfaces is model-checked on EncLoop/DecLoop for every schedule and every position of a fault of each kind; every enumerated (schedule, fault position, kind) is replayed through scripted Read/Write objects on the hooked loops and on the four public functions, and the traces are validated against E2/E3/D3/D4: the error names the failing side, success after a fault only for a retried Interrupted, accepted bytes are a prefix of the same implementation's fault-free run, never a panic or a spin. At the tool: every command ends with exit 1 and an error line when the output cannot be written (full device, missing directory, closed pipe) or the input cannot be read (CliContract causes stdout_closed, stdout_full, output_device_full, output_dir_missing, input_read_error).",
   note="One fault per run in the quick tier (two in the model check of the thorough tier). Faults are injected only at the Read/Write boundary."),
 "C11": dict(engine="stream", design_ref="DESIGN.md 6 C11, 7",
   text="The Lag invariant (a chunk is out before more than two further chunks are in) is model-checked on both loops; recorded traces carry per event the peak live heap of the code under test and the consumed/covered byte counts and are validated against E4/E5/D7/D8 on inputs from 0 B to tens of MiB (thorough: 1 GB) that are never held in memory. Every tier: TLC checks that each step of EncLoop is a step of the integer projection EncLoopInd (RefinesEncLoopInd). Thorough tier: Lag for any number of chunks by Apalache on EncLoopInd, and peak RSS of the real binary on a 512 MiB file vs a 1 MiB file. Every tier: the lag clause counted in chunks (AFile!Due) on the tool's own read/write system calls (strace) for files of many small chunks.",
   note="Peak memory is a monitored field of the trace with a generous constant bound (8*CS + 1 MiB, + 34 MiB while scrypt runs): TLC does not derive memory use from the model. Only heap allocations are observed."),
 "C05": dict(engine="noise", design_ref="DESIGN.md 6 C05",
   text="TLC decides all 4608 combinations of {private key sealing, public key claimed incl. low-order, recipient addressed incl. low-order, ephemeral used / claimed incl. another message's and low-order, decrypting key, recipient_public argument, field spliced from another authentic message} on the token-level Noise X model over symbolic terms (NoiseAdv.tla) against OnlyAddressed / SenderAuthentic / NoNullKey / RespectsClass; every combination is built with the real key_encrypt and with the specification's terms, fed to the real key_decrypt, and the outcome validated against the declarative classification C05Contract by TLC (Trace_Noise); all 14 concrete low-order / non-canonical encodings are used. At the tool: kestrel decrypt with keyrings of 400+ entries in which the sender's entry is first, last or absent; the reported name or 'Unknown key' encoding must be the authenticated key's (Trace_Cli).",
   note="Symbolic (Dolev-Yao) algebra: DH commutes, low-order points give the zero secret, hashes/KDFs/AEAD are collision free. The CLI clause (name reported) is checked under C12."),
 "C06": dict(engine="noise", design_ref="DESIGN.md 6 C06",
   text="The file format exists only as TLA+ terms (WireFormat/NoiseX); a small evaluator interprets the primitive symbols with the repository's exported functions. Encoder: for TLC-enumerated read partitions and injected randomness the output of key_encrypt/pass_encrypt/the chunk loop equals the evaluated terms byte for byte (also for mismatched key pairs and noise_encrypt's handshake hash). Decoder: every legal chunking enumerated by TLC (Chunkings.tla) and odd production-size chunkings, built from the terms, decrypt to plaintext and sender. Frozen: /verif/golden (written once by the pinned tree) and the repository's golden files keep decrypting and parse under the terms. Counter nonces over the 64-bit range through the hook.",
   note="A change inside a primitive that is consistent on both sides is visible only through the frozen corpus (and C18/C19). 'Earlier 1.x releases' are represented by the repository's own golden files only; no other old files exist in the sandbox."),
 "C07": dict(engine="noise", design_ref="DESIGN.md 6 C07",
   text="NonceOnce/NonceIsIndex are model-checked on EncLoop for every schedule; Fresh.tla enumerates every history of n operations (key encryption via library and CLI, password encryption, key generation, password change) with identical inputs; each is executed and every value the code drew is recovered by specification-directed opening and every AEAD seal logged with its key and nonce; TLC validates no value drawn twice, no (key, nonce) reused, chunk i at nonce i (Trace_Fresh). Thorough tier: NonceIsIndex for any chunk size and any number of chunks as an inductive invariant discharged by Apalache on the integer projection EncLoopInd, linked to EncLoop by the TLC-checked step refinement RefinesEncLoopInd (every tier).",
   note="Freshness is judged by inequality of recovered 32-byte values within a history (2^-256 false-negative chance per pair); it does not assess the entropy source itself."),
 "C08": dict(engine="noise", design_ref="DESIGN.md 6 C08",
   text="NoIdentityInClear / ClearIndependentOfIdentity are checked by TLC on all NoiseAdv scenarios and the size formula on every EncLoop schedule; real outputs of library and CLI for pairs of encryptions differing only in identities are compared on the cleartext positions, against 132|36 + 32*records + plaintext, and searched for every encoding of both public keys and of long random keyring names (Trace_Noise, event 'clear').",
   note="AEAD ciphertext is treated as opaque. Identity search covers raw, hex, base64 and keyring encodings only."),
 "C09": dict(engine="cli", design_ref="DESIGN.md 6 C09",
   text="Totality of the decoders is a model-level fact (DecLoop: Termination under fairness, BoundedRequest with hostile length fields, every adversarial file ends in ok or a named error); conformance: TLC enumerates input shapes per surface (Shapes.tla) and argument vectors (Argv.tla); every shape is instantiated with all lengths 0..N and all lengths around every field boundary and pushed through key_decrypt, pass_decrypt, the chunk loop, noise_decrypt, chapoly_decrypt_ietf, valid_file_format, EncodedPk/EncodedSk + decode/unlock and Keyring::new under catch_unwind with a counting allocator; every argument vector up to k words is run with the real binary; TLC validates exit status in {0,1}, 'Error:' iff 1, no panic/abort/hang, heap within a per-surface constant. Every token sequence of Keyring.tla up to 5 lines is rendered and parsed as well (structured keyring texts).",
   note="Exhaustive only in the lengths and vocabulary stated in the evidence; random bytes beyond. Built with overflow checks and debug assertions on (the profile the repository's tests use). Hang = 30 s watchdog."),
 "C12": dict(engine="cli", design_ref="DESIGN.md 6 C12",
   text="Cli.tla models every command as the ordered list of steps the code performs, each failing for the causes C13 lists; TLC checks ExitTruthful / MatchesContract for the full product of wirings and emits the configurations; each is materialised from specification-built keys, keyrings and ciphertexts, run with the real binary, and exit status, 'Error:' line, output bytes and the 'File from' / 'Unknown key' line are validated by TLC against CliContract!Expected, which sees only the abstract request (so equal requests must give equal outcomes whatever the wiring). Also: successful runs onto a longer pre-existing output, outputs that cannot be written (missing directory, /dev/full as file or stdout), and the interactive password paths on a pseudo-terminal (Prompt.tla: typed scripts of right / wrong / mismatching passwords ended by Ctrl-C).",
   note="Passwords via --env-pass and a piped stdin only; terminal prompts are out of scope. Quick tier runs every wiring for decrypt and a diagonal slice for the other commands; thorough runs the full product."),
 "C13": dict(engine="cli", design_ref="DESIGN.md 6 C13",
   text="NoClobber / PrefixOnLaterFailure are model-checked on Cli.tla for every command x cause x prior state; every such configuration is run with the real binary and the output path's existence and bytes before/after are validated against CliContract!Expected (untouched / absent on early failure, exactly the authenticated first chunk on later failure, exit 1). Includes the user backing out at a password prompt (Ctrl-C on a pseudo-terminal) and an output whose directory does not exist.",
   note="Failure causes are injected through arguments, environment and file contents; file-system I/O errors are not injected at process level (C10 does that in-process)."),
 "C14": dict(engine="cli", design_ref="DESIGN.md 6 C14",
   text="KeyLife.tla enumerates histories (initial state of F x n generations) with the invariant KeepsKeys; each history is run through `kestrel key generate -o F`; after every step: earlier bytes are a prefix, the tree's Keyring::new accepts the file and lists the sections in order, and the new key encrypts-then-decrypts through the CLI under its own password (Trace_Cli, event 'gen').",
   note="Distinct names; n <= 2 (quick) / 3 (thorough) generations per history."),
 "C15": dict(engine="keyring", design_ref="DESIGN.md 6 C15",
   text="LockModel.tla states Lock/Unlock over the symbolic algebra (lossless, tamper evident, wrong password fails) and enumerates the case analysis; lock_private_key output must equal the evaluated LockedKey term (documented format), term-built strings must unlock, and the tamper lattice (every bit of the 84-byte blob in thorough, every length 0..120, other alphabets, other passwords incl. near misses) must be refused (Trace_Keyring).",
   note="Known finding (recorded, not repairable without changing the format): passwords that are the same HMAC-SHA256 key (trailing NULs, >64-byte password vs its digest) are interchangeable; the symbolic model's 'Scrypt is injective in the password' is false exactly there."),
 "C16": dict(engine="cli", design_ref="DESIGN.md 6 C16",
   text="KeyLife.tla enumerates histories of change-pass / extract-pub / use over four passwords (IdentityKept, SaltsFresh); each is run through the CLI; after every step the newest string is unlocked by the specification's LockedKey term under every password used so far (original key under the newest only, salt never seen before), extract-pub is compared with EncodedPub(X25519(sk)) and the PublicKey line of generation, and all output is searched for the private key (Trace_Cli, event 'life').",
   note="Histories of 3 operations (40 sampled in quick, all 216+ in thorough) plus one long history; passwords via environment."),
 "C17": dict(engine="keyring", design_ref="DESIGN.md 6 C17",
   text="Keyring.tla transcribes parse_config/add_key line by line and is checked by TLC against the declarative contract KeyringContract for every token sequence up to n lines that is not already refused on a prefix; each sequence is rendered in several whitespace / line-ending styles and given to the tree's Keyring::new; verdict (three-valued), entries in order and look-ups are validated by TLC (Trace_Keyring); encoded public keys: every single-character corruption and wrong checksums must be unusable. Large keyrings in the tool's own layout (1..400 entries of random keys): every look-up by name and by key returns the entry written, keys not written are not found (krbig events).",
   note="Token alphabet of 17 line classes; names/keys from small value sets incl. 128/129-byte names and an interior tab (the defect D3, fixed)."),
 "C18": dict(engine="prims", design_ref="DESIGN.md 6 C18, 7",
   text="Scrypt7914.tla writes RFC 7914 out as a term over two primitives the tree exports - HMAC-SHA256 and the Salsa20/8 core (cfg-guarded hook): PBKDF2 with one iteration (RFC 8018), scryptBlockMix, scryptROMix with Integerify, and scrypt itself; TLC checks the shape of the definition for every case of a grid (N in {2,4,16}, r in {1,2,3}, p in {1,2}, dkLen, password and salt lengths) and prints the terms; the harness evaluates each with the tree's hmac_sha256 and Salsa20/8 and compares it with the tree's scrypt(): every layer of the RFC that is structure is decided that way, the numeric leaf that remains is the 16-word Salsa20/8 core (compared with the RFC's vector, supplementary). Ffi.tla states the frame condition of the exported C function on an abstract caller memory (guards, inputs, exactly dkLen bytes, value = SCRYPT of the arguments in order) and enumerates 5040 call shapes; each (sampled in quick) is made through the working tree's cdylib with guard zones and compared with the library function; the laws the specification assumes of SCRYPT (deterministic, sensitive to every argument, prefix property, the password is used as an HMAC key) are checked on the same grid. Supplementary: the library function against OpenSSL's scrypt (hashlib) on a parameter grid incl. the production parameters.",
   note="Leaf assumption: the Salsa20/8 core (add-rotate-xor on 16 words) is compared with RFC 7914 section 8's vector and, through whole-function comparisons, with OpenSSL; TLC cannot evaluate it (32-bit integers, no bit operations at scale). Structural cases use N <= 16; that the code does not special-case larger N is covered by the OpenSSL grid only.",
   technique="RFC 7914 as TLA+ terms over HMAC and the Salsa20/8 core, evaluated against the implementation; TLA+ frame model + TLC-enumerated call shapes replayed through the C ABI; leaf and large-N equality by differential comparison (supplementary)"),
 "C19": dict(engine="prims", design_ref="DESIGN.md 6 C19, 7",
   text="Rfc.tla holds (a) the case analysis of the axioms of the symbolic algebra (AEAD open under every kind of change x length classes; X25519 scalar x point classes incl. 14 low-order / non-canonical encodings) with the symbolic verdict, and (b) HMAC (RFC 2104) over SHA256 and HKDF (RFC 5869) over HMAC as terms; TLC enumerates the cases, the driver evaluates each on the exported functions (axioms) resp. evaluates the structural term with the exported inner primitive and compares with the exported outer one; the counter-nonce layout is compared through the hook for counters over the 64-bit range. Leaf primitives vs their RFCs are outside TLC; a supplementary comparison with hashlib and RFC 7748 / 8439 vectors is included and labelled as such. The DH case analysis includes RFC 7748's treatment of non-canonical inputs: DH(k, p+j) = DH(k, j) for j = 2..18 and masking of the top bit.",
   note="The leaves (SHA-256 compression, ChaCha20, Poly1305, X25519 ladder) are orion code; their RFC conformance is only sampled by the supplementary vectors.",
   technique="TLA+ axioms/structural terms + TLC case enumeration replayed on the exported primitives; leaf RFC equality by reference vectors (supplementary)"),
 "C20": dict(engine="prims", design_ref="DESIGN.md 6 C20, 7",
   text="Erase.tla enumerates every construct / clone / drop program up to n steps over 3 slots and all constructors with the invariants ErasedAtRelease and LiveUntouched; each program is executed on the real PrivateKey / PayloadKey values with the secret's heap block registered in the harness allocator, which inspects the bytes at the moment the block is released; TLC validates that no block was released dirty, every block was released, and no live object changed. Erase.tla has holder counts, so clones that share one block released by the last holder are admitted (variant SharedLastWipes checked); programs include two handles dropped by two threads at once (deviation SharedRacy: a check-then-act race found by TLC), each such program executed 300 times on the real types.",
   note="The observation (bytes at dealloc) is a memory-level fact supplied by the harness allocator; only heap blocks are observed (PayloadKey is boxed by the harness)."),
}

NOT_YET = "check not built yet (work in progress, DESIGN.md section 12)"

def main():
    head = subprocess.run(["git", "-C", "/repo", "log", "--format=%h %s"], stdout=subprocess.PIPE, text=True).stdout.splitlines()
    hooks = [l.split()[0] for l in head if "finfet_kestrel_verif" in l]
    checks = []
    na = []
    for p in props:
        pid = p["id"]
        c = CHECKS.get(pid)
        if c is None:
            na.append({"property_id": pid, "reason": NOT_YET})
            continue
        checks.append({
            "property_id": pid,
            "quick_cmd": "bin/check %s --tier quick" % pid,
            "thorough_cmd": "bin/check %s --tier thorough" % pid,
            "evidence_file": "evidence/%s.json" % pid,
            "replay_cmd_template": "bin/check %s --replay {path}" % pid,
            "engine": c["engine"],
            "level_claimed": {"category": c.get("category", "model_checking"), "text": c["text"], "design_ref": c["design_ref"]},
            "level_note": c["note"],
            "technique": c.get("technique", TECH),
        })
    engines = [
        {"name": "stream", "path": "lib/checks_stream.py", "serves_properties": ["C01", "C02", "C03", "C04", "C10", "C11"],
         "kind_free_text": "EncLoop/DecLoop/AFile (TLC) -> behaviours -> scripted Read/Write replay on the real code -> Trace_Stream validation"},
        {"name": "noise", "path": "lib/checks_noise.py", "serves_properties": ["C05", "C06", "C07", "C08"],
         "kind_free_text": "NoiseX/NoiseAdv/WireFormat/Fresh/Chunkings (TLC) -> scenarios -> real key_encrypt/key_decrypt/CLI + term evaluator -> Trace_Noise / Trace_Fresh validation"},
        {"name": "keyring", "path": "lib/checks_keyring.py", "serves_properties": ["C15", "C17"],
         "kind_free_text": "Keyring/KeyringContract/LockModel (TLC) -> token sequences / tamper cases -> the tree's keyring.rs compiled into the driver -> Trace_Keyring validation"},
        {"name": "cli", "path": "lib/checks_cli.py", "serves_properties": ["C09", "C12", "C13", "C14", "C16"],
         "kind_free_text": "Cli/CliContract/KeyLife/Argv/Shapes (TLC) -> configurations, histories, argument vectors, input shapes -> real kestrel binary / driver surfaces -> Trace_Cli / Trace_Fuzz validation"},
        {"name": "prims", "path": "lib/checks_prims.py", "serves_properties": ["C18", "C19", "C20"],
         "kind_free_text": "Ffi/Rfc/Erase (TLC) -> call shapes, axiom cases, structural terms, erase programs -> cdylib via dlopen / exported primitives / real containers with a watching allocator -> Trace_Prims validation"},
    ]
    m = {"version": 1,
         "setup_cmd": "cd /verif/harness && CARGO_NET_OFFLINE=true cargo build --release --offline",
         "hooks": {"guard": "finfet_kestrel_verif",
                   "enable": "rustflags --cfg finfet_kestrel_verif in /verif/harness/.cargo/config.toml; the harness compiles /repo/src/{crypto,cli,ffi} by path",
                   "baseline_off_cmd": "cd /repo && cargo test --workspace --no-fail-fast --offline",
                   "source_commits": hooks, "add_only": True},
         "engines": [e for e in engines if any(p in CHECKS for p in e["serves_properties"])],
         "checks": checks,
         "notes": "All checks: bin/check <ID> [--tier quick|thorough] [--replay PATH] [--selftest]; VERIF_SEED and VERIF_TIER honoured; exit 2 = tooling failure (never a VIOLATION).",
         "not_applicable": na}
    with open(os.path.join(ROOT, "MANIFEST.json"), "w") as f:
        json.dump(m, f, indent=1)
        f.write("\n")
    print("checks:", [c["property_id"] for c in checks], "n/a:", len(na))

main()
