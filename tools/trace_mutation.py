#!/usr/bin/env python3
"""trace_mutation.py <Trace module> <recorded trace.ndjson> [--runs] [--per-kind K]

Binding strength of a trace specification, measured: take a trace recorded from the real code (it validates),
corrupt ONE recorded field of ONE event at a time (type-preserving: flip a boolean, +1 / -1 / 0 on a number,
another value seen in the same field for a string) and validate again.  A corruption the trace specification
does not notice means that field is not constrained by the specification (informational, or a gap).

One-shot modules (Trace_Noise, Trace_Keyring, Trace_Prims, Trace_Cli, Trace_Fuzz) judge each event on its own, so all
corrupted copies go into one file and the flagged line numbers tell which were noticed.  With --runs (Trace_Stream,
Trace_Fresh) the unit is a run (begin .. end): every corrupted copy of a short run is appended as a run of its own.

Prints a table (event kind, field) -> corruptions tried / noticed, and the list of fields never noticed."""
import collections
import json
import os
import sys

sys.path.insert(0, os.path.join(os.path.dirname(os.path.dirname(os.path.abspath(__file__))), "lib"))
from vlib import validate_trace, workdir, write_jsonl, ToolError   # noqa: E402

SKIP = {"id", "ev", "stderr", "text", "transcript_tail", "args", "samples", "toks", "argv"}   # identifiers, free text, inputs


SCHEMA = {"op", "api"}    # fields that select the event schema of a run (changing them makes later events ill-typed)
RUNS = False


def leaves(e, prefix=()):
    for k, v in e.items():
        if not prefix and (k in SKIP or (RUNS and k in SCHEMA)):
            continue
        if isinstance(v, dict):
            if len(prefix) < 1:
                yield from leaves(v, prefix + (k,))
        elif isinstance(v, (bool, int, str)):
            yield prefix + (k,), v


def setpath(e, path, val):
    c = json.loads(json.dumps(e))
    d = c
    for k in path[:-1]:
        d = d[k]
    d[path[-1]] = val
    return c


def variants(path, v, seen):
    if isinstance(v, bool):
        return [not v]
    if isinstance(v, int):
        out = [v + 1, v * 1000 + 10 ** 7]          # off by one, and far beyond any bound
        if v > 0:
            out += [v - 1]
        if v > 1:
            out += [0]
        return out
    others = [x for x in seen[path] if x != v and isinstance(x, str)][:2]
    if path[-1] in ("res", "dec", "enc"):          # outcome fields: values a healthy tree never records
        others += [x for x in ("panic", "ok", "err") if x != v and x not in others]
    return others


def kind_of(e):
    k = e.get("ev", "?")
    for sub in ("kind", "op", "class", "fn", "surface"):
        if isinstance(e.get(sub), str) and e[sub]:
            k += ":" + e[sub]
    if isinstance(e.get("cfg"), dict):
        k += ":" + e["cfg"].get("cmd", "") + ":" + ("none" if e["cfg"].get("cause") == "none" else "fail")
    if isinstance(e.get("exp"), dict) and "res" in e["exp"]:
        k += ":" + str(e["exp"]["res"])
    if isinstance(e.get("res"), str):
        k += ":" + e["res"]
    return k


def main():
    module, path = sys.argv[1], sys.argv[2]
    global RUNS
    runs_mode = RUNS = "--runs" in sys.argv
    per_kind = int(sys.argv[sys.argv.index("--per-kind") + 1]) if "--per-kind" in sys.argv else 3
    evs = [json.loads(l) for l in open(path) if l.strip()]
    seen = collections.defaultdict(list)
    for e in evs:
        for p, v in leaves(e):
            if v not in seen[p] and len(seen[p]) < 8:
                seen[p].append(v)
    out = []
    index = []      # (first line, last line, kind, path) per corrupted unit; lines are 1-based
    if runs_mode:
        runs, cur = [], []
        for e in evs:
            if e.get("ev") == "begin" and cur:
                runs.append(cur)
                cur = []
            cur.append(e)
        if cur:
            runs.append(cur)
        runs = [r for r in runs if len(r) <= 40]
        chosen, kinds = [], collections.Counter()
        for r in runs:
            k = (r[0].get("op"), r[0].get("api"), r[-1].get("res"))
            if kinds[k] < per_kind:
                kinds[k] += 1
                chosen.append(r)
        for r in chosen:
            out += r
        base = len(out)
        for r in chosen:
            for i, e in enumerate(r):
                for p, v in leaves(e):
                    for nv in variants(p, v, seen):
                        m = list(r)
                        m[i] = setpath(e, p, nv)
                        index.append((len(out) + 1, len(out) + len(m), (r[0].get("op", "") + ":" + e.get("ev", "?")), p))
                        out += m
    else:
        chosen, kinds = [], collections.Counter()
        for e in evs:
            k = kind_of(e)
            if kinds[k] < per_kind:
                kinds[k] += 1
                chosen.append(e)
        # events already flagged as recorded (known findings) are left out
        wd0 = workdir("MUT", module + "-base", clean=True)
        tp0 = os.path.join(wd0, "trace.ndjson")
        write_jsonl(tp0, chosen)
        v0 = validate_trace("MUT", "base-" + module, module, tp0, len(chosen), timeout=3000)
        bad = set(ln for ln, _ in v0["viols"])
        if bad:
            print("left out %d recorded events that are flagged as they are (known findings): lines %s" % (len(bad), sorted(bad)[:5]))
        chosen = [e for i, e in enumerate(chosen) if (i + 1) not in bad]
        out += chosen
        base = len(out)
        for e in chosen:
            for p, v in leaves(e):
                for nv in variants(p, v, seen):
                    index.append((len(out) + 1, len(out) + 1, kind_of(e), p))
                    out.append(setpath(e, p, nv))
    wd = workdir("MUT", module, clean=True)
    tp = os.path.join(wd, "trace.ndjson")
    write_jsonl(tp, out)
    try:
        v = validate_trace("MUT", "mut-" + module, module, tp, len(out), timeout=3000)
    except ToolError as ex:
        print("validation aborted (a corruption made the trace ill-typed for the specification):", str(ex)[:600])
        sys.exit(2)
    flagged = collections.defaultdict(set)
    for ln, pred in v["viols"]:
        flagged[ln].add(pred)
    if any(ln <= base for ln in flagged):
        print("the unmodified events are flagged: not a clean baseline", [(ln, sorted(flagged[ln])) for ln in flagged if ln <= base][:5])
        sys.exit(1)
    table = collections.defaultdict(lambda: [0, 0, set()])
    for lo, hi, k, p in index:
        t = table[(k, ".".join(p))]
        t[0] += 1
        preds = set()
        for ln in range(lo, hi + 1):
            preds |= flagged.get(ln, set())
        if preds:
            t[1] += 1
            t[2] |= preds
    print("%s: %d recorded events kept, %d corrupted units, %d noticed" % (module, base, len(index), sum(t[1] for t in table.values())))
    never = []
    for (k, f), (n, d, preds) in sorted(table.items()):
        print("  %-28s %-22s %3d/%-3d %s" % (k, f, d, n, ", ".join(sorted(preds))[:110]))
        if d == 0:
            never.append((k, f))
    tot = collections.defaultdict(lambda: [0, 0])
    for (k, f), (n, d, preds) in table.items():
        tot[f][0] += n
        tot[f][1] += d
    print("fields noticed in no event kind:", sorted(f for f, (n, d) in tot.items() if d == 0))
    json.dump({"module": module, "trace": path, "table": {k + "|" + f: [n, d, sorted(p)] for (k, f), (n, d, p) in table.items()}},
              open(os.path.join(wd, "result.json"), "w"), indent=1)


if __name__ == "__main__":
    main()
