#!/bin/bash
# try_seed.sh <patch.diff> <check id>...   apply a seeded change to /repo, run the checks, undo it
patch=$1; shift
git -C /repo status --short | grep -q . && { echo "repo not clean"; exit 2; }
git -C /repo apply "$patch" || { echo "patch does not apply"; exit 2; }
for p in "$@"; do
  cp /verif/evidence/$p.json /tmp/try_ev_$p.json 2>/dev/null     # evidence written under a seeded tree is not evidence
  /verif/bin/check $p > /tmp/try_$p.out 2>&1; rc=$?
  echo "$p exit=$rc $(grep -c VIOLATION /tmp/try_$p.out) violations; $(grep -m3 -E '^  [A-Z][0-9]+_|^  [A-Z]+[0-9]*_|TOOL-ERROR' /tmp/try_$p.out | tr '\n' ';' | cut -c1-300)"
  [ -f /tmp/try_ev_$p.json ] && mv /tmp/try_ev_$p.json /verif/evidence/$p.json
done
git -C /repo checkout -- . ; git -C /repo clean -fdq -- src
