#!/bin/bash
# run_all.sh [tier]: every registered check once, in order; regenerates evidence/
tier=${1:-quick}
cd "$(dirname "$(readlink -f "$0")")/.."
fail=0
for p in C01 C02 C03 C04 C05 C06 C07 C08 C09 C10 C11 C12 C13 C14 C15 C16 C17 C18 C19 C20; do
  s=$(date +%s); bin/check $p --tier $tier > ${TMPDIR:-/tmp}/runall_$$_$p.out 2>&1; rc=$?
  echo "$p exit=$rc $(( $(date +%s) - s ))s known=$(grep -c KNOWN-FINDING ${TMPDIR:-/tmp}/runall_$$_$p.out) viol=$(grep -c VIOLATION ${TMPDIR:-/tmp}/runall_$$_$p.out) $(grep -m1 -E 'TOOL-ERROR|Traceback' ${TMPDIR:-/tmp}/runall_$$_$p.out | cut -c1-160)"
  [ $rc -ne 0 ] && fail=1
done
exit $fail
