#!/bin/bash
# trace_mutation_all.sh: corrupt recorded fields of the traces left in work/ by the last quick runs and report, per trace
# specification, how many single-field corruptions it notices (tools/trace_mutation.py).  Writes notes/trace-mutation-report.txt
cd "$(dirname "$(readlink -f "$0")")/.."
T=$(mktemp -d -p work mutXXXX)
mkdir -p notes
{
cat work/C19/run-axioms/out*.ndjson work/C18/run-*/out*.ndjson work/C20/run-*/out*.ndjson > $T/prims.ndjson
python3 tools/trace_mutation.py Trace_Prims $T/prims.ndjson --per-kind 2
cat work/C05/run-hs-1/out*.ndjson work/C08/run-clear/out*.ndjson > $T/noise.ndjson
python3 tools/trace_mutation.py Trace_Noise $T/noise.ndjson --per-kind 2
cat work/C17/run-kr/out*.ndjson work/C17/run-pub/out*.ndjson work/C15/run-*/out*.ndjson > $T/kr.ndjson
python3 tools/trace_mutation.py Trace_Keyring $T/kr.ndjson --per-kind 1
cat work/C12/run-cfg/trace.ndjson work/C12/run-tty/trace.ndjson work/C13/run-*/trace.ndjson work/C14/run-*/trace.ndjson work/C16/run-*/trace.ndjson work/C01/run-clirt/trace.ndjson > $T/cli.ndjson
python3 tools/trace_mutation.py Trace_Cli $T/cli.ndjson --per-kind 1
cat work/C09/run-fuzz/trace*.ndjson | head -3000 > $T/fuzz.ndjson
python3 tools/trace_mutation.py Trace_Fuzz $T/fuzz.ndjson --per-kind 1
cat work/C04/run-adv/trace0.ndjson work/C10/run-*/trace0.ndjson > $T/stream.ndjson
python3 tools/trace_mutation.py Trace_Stream $T/stream.ndjson --runs --per-kind 1
python3 tools/trace_mutation.py Trace_Fresh work/C07/run-fresh/trace.ndjson --runs --per-kind 2
} > notes/trace-mutation-report.txt 2>&1
rm -rf $T work/MUT
grep -E "^Trace_|^fields noticed|aborted|not a clean" notes/trace-mutation-report.txt
