#!/usr/bin/env python3
"""design_table.py: the per-property numbers of DESIGN.md section 6 from the evidence files of the last run."""
import json
import os

ROOT = os.path.dirname(os.path.dirname(os.path.abspath(__file__)))
print("| id | TLC: models / distinct states | conformance: executions validated (distinct non-trivial) | extras | wall |")
print("|---|---|---|---|---|")
for i in range(1, 21):
    pid = "C%02d" % i
    d = json.load(open(os.path.join(ROOT, "evidence", pid + ".json")))
    c = d["coverage"]
    models = [m for m in c.get("models", []) if "distinct_states" in m and "trace_events" not in m and m["name"] != "terms"]
    big = sorted(models, key=lambda m: -m["distinct_states"])[:3]
    ms = ", ".join("%s %s" % (m["name"], format(m["distinct_states"], ",").replace(",", " ")) for m in big)
    extras = []
    for k in ("cli_round_trips", "tool_level_runs", "process_level_lag_runs", "rfc7914_structural_cases", "keyring_token_texts", "programs_with_concurrent_drops",
              "tty_scenarios", "configurations_run", "reference_comparisons", "byte_surface_calls"):
        if k in c:
            extras.append("%s=%s" % (k, c[k]))
    print("| %s | %d models; %s | %s (%s) | %s | %d s |" % (pid, len(models), ms, format(c.get("traces_validated_against_impl", c.get("evaluations", 0)), ",").replace(",", " "),
                                                        format(c.get("distinct_nontrivial", 0), ",").replace(",", " "), "; ".join(extras), round(d.get("wall_s", 0))))
