//! Specification-directed reading: the reader's decryption schedule (which key, nonce
//! and AD open which field) comes from the terms of NoiseX!ReadSchedule / WireFormat; the
//! AEAD opens themselves are done with the exported primitive.  Used to recover what an
//! encryption drew (payload key, file key, sender key) from its output, and to unlock
//! keyring strings, without re-coding the format here.
use crate::terms::{Env, Templates};
use ct_codecs::{Base64, Decoder};

pub struct Opened {
    pub sender_pub: Vec<u8>,
    pub payload: Vec<u8>,
    pub file_key: Vec<u8>,
    pub hh: Vec<u8>,
}

/// Open a 132-byte key-mode header with the recipient's key pair.
pub fn open_key_header(t: &Templates, r_priv: &[u8], r_pub: &[u8], header: &[u8]) -> Option<Opened> {
    if header.len() != 132 {
        return None;
    }
    let magic = t.must("key_header", &Env::new()
        .b("s_priv", &[1u8; 32]).b("s_pub", &[9u8; 32]).b("e_priv", &[2u8; 32]).b("e_pub", &[9u8; 32])
        .b("rs", &[9u8; 32]).b("payload", &[0u8; 32]));
    if header[..4] != magic[..4] {
        return None;
    }
    let mut env = Env::new()
        .b("r_priv", r_priv)
        .b("r_pub", r_pub)
        .b("e_pub", &header[4..36])
        .b("enc_s", &header[36..84])
        .b("enc_p", &header[84..132])
        .b("s_pub", &[0u8; 32]);
    let k1 = t.eval("rd_k1", &env).ok()?;
    let n1 = t.eval("rd_n1", &env).ok()?;
    let ad1 = t.eval("rd_ad1", &env).ok()?;
    let sp = kestrel_crypto::chapoly_decrypt_ietf(&k1, &n1, &header[36..84], &ad1).ok()?;
    env.set_b("s_pub", &sp);
    let k2 = t.eval("rd_k2", &env).ok()?;
    let n2 = t.eval("rd_n2", &env).ok()?;
    let ad2 = t.eval("rd_ad2", &env).ok()?;
    let payload = kestrel_crypto::chapoly_decrypt_ietf(&k2, &n2, &header[84..132], &ad2).ok()?;
    env.set_b("payload", &payload);
    let hh = t.eval("rd_hh", &env).ok()?;
    let file_key = t.eval("rd_file_key", &env).ok()?;
    Some(Opened { sender_pub: sp, payload, file_key, hh })
}

/// Open a 132-byte key-mode header addressed to a key that forces all-zero shared secrets, with no private key at all
/// (NoiseX!ReadScheduleNull).  Succeeds only on files that should never have been written.
pub fn open_key_header_null(t: &Templates, r_pub: &[u8], header: &[u8]) -> Option<(Opened, Vec<u8>, Vec<u8>)> {
    if header.len() != 132 {
        return None;
    }
    let mut env = Env::new().b("r_pub", r_pub).b("e_pub", &header[4..36]).b("enc_s", &header[36..84]).b("enc_p", &header[84..132]);
    let k1 = t.eval("null_k1", &env).ok()?;
    let sp = kestrel_crypto::chapoly_decrypt_ietf(&k1, &t.eval("null_n1", &env).ok()?, &header[36..84], &t.eval("null_ad1", &env).ok()?).ok()?;
    let k2 = t.eval("null_k2", &env).ok()?;
    let payload = kestrel_crypto::chapoly_decrypt_ietf(&k2, &t.eval("null_n2", &env).ok()?, &header[84..132], &t.eval("null_ad2", &env).ok()?).ok()?;
    env.set_b("payload", &payload);
    let file_key = t.eval("null_file_key", &env).ok()?;
    Some((Opened { sender_pub: sp, payload, file_key, hh: Vec::new() }, k1, k2))
}

/// Unlock a locked private key string as the specification prescribes its layout:
/// the layout is checked by re-building the LockedKey term from the recovered key.
pub fn unlock_by_spec(t: &Templates, locked: &str, password: &[u8]) -> Option<Vec<u8>> {
    let blob = Base64::decode_to_vec(locked, None).ok()?;
    if blob.len() != 84 {
        return None;
    }
    let salt = &blob[4..36];
    let key = t.eval("pass_file_key", &Env::new().b("password", password).b("salt", salt)).ok()?;
    let sk = kestrel_crypto::chapoly_decrypt_ietf(&key, &[0u8; 12], &blob[36..84], &blob[..4]).ok()?;
    // the whole string must be exactly the specification's term for (sk, password, salt)
    let again = t.eval("locked_key", &Env::new().b("sk", &sk).b("password", password).b("salt", salt)).ok()?;
    if again != locked.as_bytes() {
        return None;
    }
    Some(sk)
}
