//! Noise engine: executes handshake scenarios enumerated by TLC from NoiseAdv.tla (C05)
//! against the real key_encrypt / key_decrypt, with the specification's terms as the
//! independent encryptor for constructions the real one cannot or will not emit.
use crate::terms::{Env, EvalError, Templates};
use crate::util::*;
use kestrel_crypto::decrypt::key_decrypt;
use kestrel_crypto::encrypt::key_encrypt;
use kestrel_crypto::{AsymFileFormat, PayloadKey, PrivateKey, PublicKey};
use serde_json::{json, Value};
use std::panic::{catch_unwind, AssertUnwindSafe};

/// The small-order / non-canonical u-coordinates (0, 1, the two order-8 points, p-1, p,
/// p+1) and the same with bit 255 set, which RFC 7748 decoding masks.
pub fn low_order_points() -> Vec<Vec<u8>> {
    let base = [
        "0000000000000000000000000000000000000000000000000000000000000000",
        "0100000000000000000000000000000000000000000000000000000000000000",
        "e0eb7a7c3b41b8ae1656e3faf19fc46ada098deb9c32b1fd866205165f49b800",
        "5f9c95bca3508c24b1d0b1559c83ef5b04445cc4581c8e86d8224eddd09f1157",
        "ecffffffffffffffffffffffffffffffffffffffffffffffffffffffffffff7f",
        "edffffffffffffffffffffffffffffffffffffffffffffffffffffffffffff7f",
        "eeffffffffffffffffffffffffffffffffffffffffffffffffffffffffffff7f",
    ];
    let mut v: Vec<Vec<u8>> = base.iter().map(|h| unhex(h)).collect();
    for h in base.iter() {
        let mut b = unhex(h);
        b[31] |= 0x80;
        v.push(b);
    }
    v
}

pub fn priv_of(seed: u64, id: &str) -> [u8; 32] {
    Rng::derive(seed, &format!("id:{}", id)).bytes32()
}

pub fn pub_of(seed: u64, id: &str, lo: usize) -> Vec<u8> {
    if id == "LO" {
        let p = low_order_points();
        return p[lo % p.len()].clone();
    }
    kestrel_crypto::x25519_derive_public(&priv_of(seed, id)).expect("derive")
}

fn payload_of(seed: u64, tag: &str) -> [u8; 32] {
    Rng::derive(seed, &format!("payload:{}", tag)).bytes32()
}

/// key_encrypt with every argument given; returns Ok(file bytes), Err("err") or Err("panic")
pub fn real_encrypt(plain: &[u8], s_priv: &[u8], s_pub: &[u8], rs: &[u8], e_priv: &[u8], e_pub: &[u8], payload: &[u8]) -> Result<Vec<u8>, &'static str> {
    let r = catch_unwind(AssertUnwindSafe(|| {
        let mut out = Vec::new();
        let sk = PrivateKey::try_from(s_priv).unwrap();
        let spk = PublicKey::try_from(s_pub).unwrap();
        let rpk = PublicKey::try_from(rs).unwrap();
        let ek = PrivateKey::try_from(e_priv).unwrap();
        let epk = PublicKey::try_from(e_pub).unwrap();
        let pk = PayloadKey::new(payload);
        let mut p = plain;
        key_encrypt(&mut p, &mut out, &sk, &spk, &rpk, Some(&ek), Some(&epk), Some(&pk), AsymFileFormat::V1).map(|_| out)
    }));
    match r {
        Ok(Ok(v)) => Ok(v),
        Ok(Err(_)) => Err("err"),
        Err(_) => Err("panic"),
    }
}

pub fn real_decrypt(file: &[u8], r_priv: &[u8], r_pub: &[u8]) -> (String, Vec<u8>, Vec<u8>) {
    let r = catch_unwind(AssertUnwindSafe(|| {
        let mut out = Vec::new();
        let sk = PrivateKey::try_from(r_priv).unwrap();
        let pk = PublicKey::try_from(r_pub).unwrap();
        let mut f = file;
        let r = key_decrypt(&mut f, &mut out, &sk, &pk, AsymFileFormat::V1);
        (r.map(|p| p.as_bytes().to_vec()), out)
    }));
    match r {
        Ok((Ok(sender), out)) => ("ok".into(), sender, out),
        Ok((Err(_), out)) => ("err".into(), vec![], out),
        Err(_) => ("panic".into(), vec![], vec![]),
    }
}

pub fn run_hs(t: &Templates, seed: u64, scn: &Value) -> Value {
    let sc = scn.get("sc").expect("sc");
    let lo = ju64_or(scn, "lo", 0) as usize;
    let g = |k: &str| jstr(sc, k).to_string();
    let plain = pbytes(3, 0, ju64_or(scn, "plen", 10));
    let s_priv = priv_of(seed, &g("sPriv"));
    let s_claim = pub_of(seed, &g("sClaim"), lo);
    let rs = pub_of(seed, &g("rs"), lo);
    let e_priv = priv_of(seed, &g("ePriv"));
    let e_claim = pub_of(seed, &g("eClaim"), lo);
    let payload = payload_of(seed, "PK");
    let r_priv = priv_of(seed, &g("rPriv"));
    let r_param = pub_of(seed, &g("rParam"), lo);
    // the real encryptor, every argument as the scenario says
    let real = real_encrypt(&plain, &s_priv, &s_claim, &rs, &e_priv, &e_claim, &payload);
    // the specification as encryptor
    let env = Env::new().b("s_priv", &s_priv).b("s_pub", &s_claim).b("e_priv", &e_priv).b("e_pub", &e_claim).b("rs", &rs).b("payload", &payload);
    let spec = match (t.eval("key_header", &env), t.eval("key_file_key", &env)) {
        (Ok(h), Ok(k)) => {
            let mut f = h;
            f.extend_from_slice(&t.chunk_record(&k, &t.must("key_prefix", &env), 0, 1, &plain));
            Ok(f)
        }
        (Err(EvalError::Prim(_)), _) | (_, Err(EvalError::Prim(_))) => Err("err"),
        (Err(e), _) | (_, Err(e)) => panic!("term evaluation: {:?}", e),
    };
    let wrote = real.is_ok();
    let enc = match &real {
        Ok(_) => "ok",
        Err(e) => e,
    };
    let spec_wrote = spec.is_ok();
    let same = match (&real, &spec) {
        (Ok(a), Ok(b)) => a == b,
        (Err(_), Err(_)) => true,
        _ => false,
    };
    let mut out = json!({"ev":"hs","id":scn.get("id").cloned().unwrap_or(json!("")),"sc":sc.clone(),"class":scn.get("class").cloned().unwrap_or(json!("")),
                         "lo":lo,"wrote":wrote,"enc":enc,"spec_wrote":spec_wrote,"same":same,
                         "dec":"n/a","sender":"","plain_ok":false});
    // the file presented to the decryptor: the specification-built one (identical to the real
    // one whenever both exist), with the spliced field from the other authentic message
    let mut file = match (&spec, &real) {
        (Ok(f), _) => f.clone(),
        (_, Ok(f)) => f.clone(),
        _ => return out,
    };
    let splice = g("splice");
    if splice != "none" {
        let o_s = priv_of(seed, "S2");
        let o_e = priv_of(seed, "E2");
        let other = real_encrypt(&plain, &o_s, &pub_of(seed, "S2", 0), &pub_of(seed, "R", 0), &o_e, &pub_of(seed, "E2", 0), &payload_of(seed, "PK2"))
            .expect("the other authentic message");
        let (a, b) = match splice.as_str() {
            "e" => (4, 36),
            "encS" => (36, 84),
            "encP" => (84, 132),
            _ => panic!("splice"),
        };
        file[a..b].copy_from_slice(&other[a..b]);
    }
    let (dec, sender, plain_out) = real_decrypt(&file, &r_priv, &r_param);
    let sender_id = if dec == "ok" {
        let mut id = "other".to_string();
        for cand in ["S", "S2", "A", "R", "R2", "E", "E2", "E3"] {
            if pub_of(seed, cand, 0) == sender {
                id = cand.to_string();
            }
        }
        id
    } else {
        String::new()
    };
    out["dec"] = json!(dec);
    out["sender"] = json!(sender_id);
    out["plain_ok"] = json!(plain_out == plain);
    out
}

pub fn run_file(t: &Templates, seed: u64, inp: &str, outp: &str) {
    use std::io::{BufRead, BufReader, BufWriter, Write};
    let f = BufReader::new(std::fs::File::open(inp).expect("open scenarios"));
    let mut o = BufWriter::new(std::fs::File::create(outp).expect("create out"));
    for line in f.lines() {
        let line = line.unwrap();
        if line.trim().is_empty() {
            continue;
        }
        let scn: Value = serde_json::from_str(&line).expect("scenario json");
        let v = match jstr(&scn, "op") {
            "hs" => run_hs(t, seed, &scn),
            "pubof" => json!({"pk_hex": hex(&kestrel_crypto::x25519_derive_public(&unhex(jstr(&scn, "sk_hex"))).unwrap())}),
            "golden" => crate::golden::golden(t, &scn),
            "mkgolden" => crate::golden::mkgolden(&scn),
            "hh" => crate::golden::hh(t, seed, &scn),
            "nonce" => crate::golden::nonce(t, seed, &scn),
            x => panic!("op {}", x),
        };
        writeln!(o, "{}", v).unwrap();
    }
    o.flush().unwrap();
}
