//! Noise engine: executes handshake scenarios enumerated by TLC from NoiseAdv.tla (C05)
//! against the real key_encrypt / key_decrypt, with the specification's terms as the
//! independent encryptor for constructions the real one cannot or will not emit.
use crate::terms::{Env, EvalError, Templates};
use ct_codecs::Decoder;
use crate::util::*;
use kestrel_crypto::decrypt::key_decrypt;
use kestrel_crypto::encrypt::key_encrypt;
use kestrel_crypto::{AsymFileFormat, PayloadKey, PrivateKey, PublicKey};
use serde_json::{json, Value};
use std::panic::{catch_unwind, AssertUnwindSafe};

/// The small-order / non-canonical u-coordinates (0, 1, the two order-8 points, p-1, p,
/// p+1) and the same with bit 255 set, which RFC 7748 decoding masks.
pub fn low_order_points() -> Vec<Vec<u8>> {
    let base = [
        "0000000000000000000000000000000000000000000000000000000000000000",
        "0100000000000000000000000000000000000000000000000000000000000000",
        "e0eb7a7c3b41b8ae1656e3faf19fc46ada098deb9c32b1fd866205165f49b800",
        "5f9c95bca3508c24b1d0b1559c83ef5b04445cc4581c8e86d8224eddd09f1157",
        "ecffffffffffffffffffffffffffffffffffffffffffffffffffffffffffff7f",
        "edffffffffffffffffffffffffffffffffffffffffffffffffffffffffffff7f",
        "eeffffffffffffffffffffffffffffffffffffffffffffffffffffffffffff7f",
    ];
    let mut v: Vec<Vec<u8>> = base.iter().map(|h| unhex(h)).collect();
    for h in base.iter() {
        let mut b = unhex(h);
        b[31] |= 0x80;
        v.push(b);
    }
    v
}

pub fn priv_of(seed: u64, id: &str) -> [u8; 32] {
    Rng::derive(seed, &format!("id:{}", id)).bytes32()
}

pub fn pub_of(seed: u64, id: &str, lo: usize) -> Vec<u8> {
    if id == "LO" {
        let p = low_order_points();
        return p[lo % p.len()].clone();
    }
    kestrel_crypto::x25519_derive_public(&priv_of(seed, id)).expect("derive")
}

fn payload_of(seed: u64, tag: &str) -> [u8; 32] {
    Rng::derive(seed, &format!("payload:{}", tag)).bytes32()
}

/// key_encrypt with every argument given; returns Ok(file bytes), Err("err") or Err("panic")
pub fn real_encrypt(plain: &[u8], s_priv: &[u8], s_pub: &[u8], rs: &[u8], e_priv: &[u8], e_pub: &[u8], payload: &[u8]) -> Result<Vec<u8>, &'static str> {
    let r = catch_unwind(AssertUnwindSafe(|| {
        let mut out = Vec::new();
        let sk = PrivateKey::try_from(s_priv).unwrap();
        let spk = PublicKey::try_from(s_pub).unwrap();
        let rpk = PublicKey::try_from(rs).unwrap();
        let ek = PrivateKey::try_from(e_priv).unwrap();
        let epk = PublicKey::try_from(e_pub).unwrap();
        let pk = PayloadKey::new(payload);
        let mut p = plain;
        key_encrypt(&mut p, &mut out, &sk, &spk, &rpk, Some(&ek), Some(&epk), Some(&pk), AsymFileFormat::V1).map(|_| out)
    }));
    match r {
        Ok(Ok(v)) => Ok(v),
        Ok(Err(_)) => Err("err"),
        Err(_) => Err("panic"),
    }
}

pub fn real_decrypt(file: &[u8], r_priv: &[u8], r_pub: &[u8]) -> (String, Vec<u8>, Vec<u8>) {
    let r = catch_unwind(AssertUnwindSafe(|| {
        let mut out = Vec::new();
        let sk = PrivateKey::try_from(r_priv).unwrap();
        let pk = PublicKey::try_from(r_pub).unwrap();
        let mut f = file;
        let r = key_decrypt(&mut f, &mut out, &sk, &pk, AsymFileFormat::V1);
        (r.map(|p| p.as_bytes().to_vec()), out)
    }));
    match r {
        Ok((Ok(sender), out)) => ("ok".into(), sender, out),
        Ok((Err(_), out)) => ("err".into(), vec![], out),
        Err(_) => ("panic".into(), vec![], vec![]),
    }
}

/// C01 over MANY key pairs: a fault that depends on the value of a key (one key in a hundred) is invisible to a fixed key set.
/// n random sender / recipient / ephemeral keys, a short plaintext each: the file must open to the plaintext and the sender.
pub fn keysweep(seed: u64, scn: &Value) -> Value {
    let n = ju64_or(scn, "n", 1500);
    let mut rng = Rng::derive(seed, &format!("keysweep{}", ju64_or(scn, "k", 0)));
    let (mut failed, mut panics) = (0u64, 0u64);
    let mut first_bad = String::new();
    for i in 0..n {
        let (s, r, e, pk) = (rng.bytes32(), rng.bytes32(), rng.bytes32(), rng.bytes32());
        let plain = pbytes(i, 0, 1 + (i % 40));
        let pubs = catch_unwind(AssertUnwindSafe(|| {
            (kestrel_crypto::x25519_derive_public(&s), kestrel_crypto::x25519_derive_public(&r), kestrel_crypto::x25519_derive_public(&e))
        }));
        let (sp, rp, ep) = match pubs {
            Ok((Ok(a), Ok(b), Ok(c))) => (a, b, c),
            _ => {
                failed += 1;
                if first_bad.is_empty() {
                    first_bad = format!("derive:{}", crate::util::hex(&s));
                }
                continue;
            }
        };
        // randomness supplied on even rounds, left to the library on odd ones
        let file = if i % 2 == 0 {
            real_encrypt(&plain, &s, &sp, &rp, &e, &ep, &pk)
        } else {
            match catch_unwind(AssertUnwindSafe(|| {
                let mut out = Vec::new();
                let mut p = &plain[..];
                key_encrypt(&mut p, &mut out, &PrivateKey::try_from(&s[..]).unwrap(), &PublicKey::try_from(&sp[..]).unwrap(),
                            &PublicKey::try_from(&rp[..]).unwrap(), None, None, None, AsymFileFormat::V1).map(|_| out)
            })) {
                Ok(Ok(v)) => Ok(v),
                Ok(Err(_)) => Err("err"),
                Err(_) => Err("panic"),
            }
        };
        let ok = match file {
            Ok(f) => {
                let (res, sender, out) = real_decrypt(&f, &r, &rp);
                if res == "panic" {
                    panics += 1;
                }
                res == "ok" && sender == sp && out == plain
            }
            Err(x) => {
                if x == "panic" {
                    panics += 1;
                }
                false
            }
        };
        if !ok {
            failed += 1;
            if first_bad.is_empty() {
                first_bad = format!("s={} r={}", crate::util::hex(&s), crate::util::hex(&r));
            }
        }
    }
    json!({"ev":"ksweep","id":scn.get("id").cloned().unwrap_or(json!("")),"n":n,"failed":failed,"panics":panics,"first_bad":first_bad})
}

pub fn run_hs(t: &Templates, seed: u64, scn: &Value) -> Value {
    let sc = scn.get("sc").expect("sc");
    let lo = ju64_or(scn, "lo", 0) as usize;
    let g = |k: &str| jstr(sc, k).to_string();
    let plain = pbytes(3, 0, ju64_or(scn, "plen", 10));
    let s_priv = priv_of(seed, &g("sPriv"));
    let s_claim = pub_of(seed, &g("sClaim"), lo);
    let rs = pub_of(seed, &g("rs"), lo);
    let e_priv = priv_of(seed, &g("ePriv"));
    let e_claim = pub_of(seed, &g("eClaim"), lo);
    let payload = payload_of(seed, "PK");
    let r_priv = priv_of(seed, &g("rPriv"));
    let r_param = pub_of(seed, &g("rParam"), lo);
    // state that a library keeps between calls must not help a forger: right before the call under test, the HONEST twin of
    // it (the true owner of the claimed key writing to the same recipient, and reading it back) runs in this same process
    if g("sClaim") != "LO" {
        let owner_priv = priv_of(seed, &g("sClaim"));
        let owner_pub = pub_of(seed, &g("sClaim"), lo);
        let e2 = priv_of(seed, "warmup-e");
        let e2p = kestrel_crypto::x25519_derive_public(&e2).unwrap();
        if let Ok(f) = real_encrypt(&plain, &owner_priv, &owner_pub, &rs, &e2, &e2p, &payload) {
            if g("rs") != "LO" {
                let rp = priv_of(seed, &g("rs"));
                let _ = real_decrypt(&f, &rp, &rs);
            }
        }
    }
    // the real encryptor, every argument as the scenario says
    let real = real_encrypt(&plain, &s_priv, &s_claim, &rs, &e_priv, &e_claim, &payload);
    // the specification as encryptor
    let env = Env::new().b("s_priv", &s_priv).b("s_pub", &s_claim).b("e_priv", &e_priv).b("e_pub", &e_claim).b("rs", &rs).b("payload", &payload);
    let forge = jstr_or(sc, "forge", "none").to_string();
    let (th, tk) = match forge.as_str() {
        "skip_ss" => ("key_header_skip_ss", "key_file_key_skip_ss"),
        "zero_ss" => ("key_header_zero_ss", "key_file_key_zero_ss"),
        _ => ("key_header", "key_file_key"),
    };
    // a forged handshake cannot come from the real encryptor
    let real = if forge == "none" { real } else { Err("n/a") };
    let spec = match (t.eval(th, &env), t.eval(tk, &env)) {
        (Ok(h), Ok(k)) => {
            let mut f = h;
            let prefix = t.must("key_prefix", &env);
            // the chunking the real encryptor produces from a source that fills every read
            let n = std::cmp::max(1, (plain.len() + 65535) / 65536);
            for i in 0..n {
                let lo = i * 65536;
                let hi = std::cmp::min(plain.len(), lo + 65536);
                f.extend_from_slice(&t.chunk_record(&k, &prefix, i as u64, if i + 1 == n { 1 } else { 0 }, &plain[lo..hi]));
            }
            Ok(f)
        }
        (Err(EvalError::Prim(_)), _) | (_, Err(EvalError::Prim(_))) => Err("err"),
        (Err(e), _) | (_, Err(e)) => panic!("term evaluation: {:?}", e),
    };
    let wrote = real.is_ok();
    let enc = match &real {
        Err("n/a") => "ok",
        Ok(_) => "ok",
        Err(e) => e,
    };
    let spec_wrote = spec.is_ok();
    let same = forge != "none" || match (&real, &spec) {
        (Ok(a), Ok(b)) => a == b,
        (Err(_), Err(_)) => true,
        _ => false,
    };
    let wrote = if forge == "none" { wrote } else { spec.is_ok() };
    let mut out = json!({"ev":"hs","id":scn.get("id").cloned().unwrap_or(json!("")),"sc":sc.clone(),"class":scn.get("class").cloned().unwrap_or(json!("")),
                         "lo":lo,"wrote":wrote,"enc":enc,"spec_wrote":spec_wrote,"same":same,
                         "dec":"n/a","sender":"","plain_ok":false});
    // the file presented to the decryptor: the specification-built one (identical to the real
    // one whenever both exist), with the spliced field from the other authentic message
    let mut file = match (&spec, &real) {
        (Ok(f), _) => f.clone(),
        (_, Ok(f)) => f.clone(),
        _ => return out,
    };
    // where the real encryptor wrote something else than the specification, ITS file is a candidate forgery of its own:
    // it is presented to the decryptor first, and an acceptance of it is what is reported
    if let (Ok(sf), Ok(rf)) = (&spec, &real) {
        if sf != rf && g("splice") == "none" {
            let (d, snd, po) = real_decrypt(rf, &r_priv, &r_param);
            if d == "ok" {
                let mut id = "other".to_string();
                for cand in ["S", "S2", "A", "R", "R2", "E", "E2", "E3"] {
                    if pub_of(seed, cand, 0) == snd {
                        id = cand.to_string();
                    }
                }
                out["dec"] = json!(d);
                out["sender"] = json!(id);
                out["plain_ok"] = json!(po == plain);
                out["presented"] = json!("real");
                return out;
            }
        }
    }
    let splice = g("splice");
    if splice != "none" {
        let o_s = priv_of(seed, "S2");
        let o_e = priv_of(seed, "E2");
        let other = real_encrypt(&plain, &o_s, &pub_of(seed, "S2", 0), &pub_of(seed, "R", 0), &o_e, &pub_of(seed, "E2", 0), &payload_of(seed, "PK2"))
            .expect("the other authentic message");
        let (a, b) = match splice.as_str() {
            "e" => (4, 36),
            "encS" => (36, 84),
            "encP" => (84, 132),
            _ => panic!("splice"),
        };
        file[a..b].copy_from_slice(&other[a..b]);
    }
    let (dec, sender, plain_out) = real_decrypt(&file, &r_priv, &r_param);
    let sender_id = if dec == "ok" {
        let mut id = "other".to_string();
        for cand in ["S", "S2", "A", "R", "R2", "E", "E2", "E3"] {
            if pub_of(seed, cand, 0) == sender {
                id = cand.to_string();
            }
        }
        id
    } else {
        String::new()
    };
    out["dec"] = json!(dec);
    out["sender"] = json!(sender_id);
    out["plain_ok"] = json!(plain_out == plain);
    out
}

pub fn run_file(t: &Templates, seed: u64, inp: &str, outp: &str) {
    use std::io::{BufRead, BufReader, BufWriter, Write};
    let f = BufReader::new(std::fs::File::open(inp).expect("open scenarios"));
    let mut o = BufWriter::new(std::fs::File::create(outp).expect("create out"));
    for line in f.lines() {
        let line = line.unwrap();
        if line.trim().is_empty() {
            continue;
        }
        let scn: Value = serde_json::from_str(&line).expect("scenario json");
        let v = match jstr(&scn, "op") {
            "hs" => run_hs(t, seed, &scn),
            "pubof" => json!({"pk_hex": hex(&kestrel_crypto::x25519_derive_public(&unhex(jstr(&scn, "sk_hex"))).unwrap())}),
            "mkkey" => mkkey(t, seed, &scn),
            "specfile" => specfile(t, seed, &scn),
            "open" => open_file(t, &scn),
            "open_pass" => open_pass(t, &scn),
            "unlock" => spec_unlock(t, &scn),
            "kenc_draws" => kenc_draws(t, seed, &scn),
            "rand" => {
                // the generator itself: requested lengths are honoured, 32-byte outputs are recorded as draws
                let lens = [0usize, 1, 16, 31, 32, 33, 64, 1000, 65536];
                let len_ok = lens.iter().all(|n| kestrel_crypto::secure_random(*n).len() == *n);
                let big = kestrel_crypto::secure_random(4096);
                let not_constant = big.iter().any(|b| *b != big[0]);
                let a = kestrel_crypto::secure_random(32);
                let g = kestrel_crypto::PrivateKey::generate();
                json!({"ok": len_ok && not_constant && g.as_bytes().len() == 32, "random": hex(&a), "privkey": hex(g.as_bytes())})
            }
            "rand32" => {
                // nothing but 32-byte draws, all of them recorded: bytes handed out twice at ANY offset must show
                let a = kestrel_crypto::secure_random(32);
                let g = kestrel_crypto::PrivateKey::generate();
                json!({"ok": a.len() == 32 && g.as_bytes().len() == 32, "random": hex(&a), "privkey": hex(g.as_bytes())})
            }
            "clear" => clear(t, seed, &scn),
            "golden" => crate::golden::golden(t, &scn),
            "mkgolden" => crate::golden::mkgolden(&scn),
            "hh" => crate::golden::hh(t, seed, &scn),
            "keysweep" => keysweep(seed, &scn),
            "nonce" => crate::golden::nonce(t, seed, &scn),
            x => panic!("op {}", x),
        };
        writeln!(o, "{}", v).unwrap();
    }
    o.flush().unwrap();
}

/// Build a keyring entry from the specification's terms (independent of the tree's
/// keyring code): private key from a label, locked with the given password and salt.
pub fn mkkey(t: &Templates, seed: u64, scn: &Value) -> Value {
    let label = jstr(scn, "label");
    let sk = if let Some(h) = scn.get("sk_hex").and_then(|x| x.as_str()) { unhex(h) } else { priv_of(seed, label).to_vec() };
    let pk = if let Some(h) = scn.get("pk_hex").and_then(|x| x.as_str()) { unhex(h) } else { kestrel_crypto::x25519_derive_public(&sk).unwrap() };
    let pw = unhex(jstr_or(scn, "password_hex", ""));
    let salt = Rng::derive(seed, &format!("salt:{}", label)).bytes32();
    let locked = t.must("locked_key", &Env::new().b("sk", &sk).b("password", &pw).b("salt", &salt));
    let enc = t.must("encoded_pub", &Env::new().b("pk", &pk));
    json!({"label": label, "sk_hex": hex(&sk), "pk_hex": hex(&pk), "pub_enc": String::from_utf8(enc).unwrap(),
           "locked": String::from_utf8(locked).unwrap()})
}

/// Recover what an encryption drew from a key-mode file, with the recipient's private key,
/// by specification-directed opening.
/// which nonce does each record of `file` (after a header of h bytes) open at, under `key`?
fn record_nonces(t: &Templates, file: &[u8], h: usize, key: &[u8], prefix: &[u8]) -> (Vec<Value>, usize) {
    let mut nonces = Vec::new();
    let mut off = h;
    let mut idx = 0u64;
    while off + 32 <= file.len() {
        let last = u32::from_be_bytes(file[off + 8..off + 12].try_into().unwrap()) as u64;
        let len = u32::from_be_bytes(file[off + 12..off + 16].try_into().unwrap()) as usize;
        if off + 32 + len > file.len() {
            break;
        }
        let aad = t.must("chunk_aad", &Env::new().b("prefix", prefix).n("last", last).n("len", len as u64));
        let mut found: i64 = -1;
        for c in 0..(idx + 3) {
            let n = t.must("nonce", &Env::new().n("ctr", c));
            if kestrel_crypto::chapoly_decrypt_ietf(key, &n, &file[off + 16..off + 32 + len], &aad).is_ok() {
                found = c as i64;
                break;
            }
        }
        nonces.push(json!(found));
        off += 32 + len;
        idx += 1;
    }
    (nonces, file.len() - off)
}

/// Password-mode file: salt, derived key and the nonce of each record.
pub fn open_pass(t: &Templates, scn: &Value) -> Value {
    let file = std::fs::read(jstr(scn, "path")).expect("read file");
    let pw = unhex(jstr_or(scn, "password_hex", ""));
    let mut out = json!({"ev":"opened","id":scn.get("id").cloned().unwrap_or(json!("")),"ok":false,"flen":file.len()});
    if file.len() < 36 {
        return out;
    }
    let env = Env::new().b("password", &pw).b("salt", &file[4..36]);
    if t.must("pass_header", &env) != file[..36] {
        return out;
    }
    let key = t.must("pass_file_key", &env);
    let (nonces, residue) = record_nonces(t, &file, 36, &key, &t.must("pass_prefix", &env));
    out["ok"] = json!(true);
    out["salt"] = json!(hex(&file[4..36]));
    out["file_key"] = json!(hex(&key));
    out["nonces"] = json!(nonces);
    out["residue"] = json!(residue);
    out
}

pub fn open_file(t: &Templates, scn: &Value) -> Value {
    let file = if let Some(p) = scn.get("path").and_then(|x| x.as_str()) { std::fs::read(p).expect("read file") } else { unhex(jstr(scn, "file_hex")) };
    let r_priv = unhex(jstr(scn, "r_priv_hex"));
    let r_pub = kestrel_crypto::x25519_derive_public(&r_priv).unwrap();
    let mut out = json!({"ev":"opened","id":scn.get("id").cloned().unwrap_or(json!("")),"ok":false,"flen":file.len()});
    if file.len() < 132 {
        return out;
    }
    if let Some(o) = crate::specread::open_key_header(t, &r_priv, &r_pub, &file[..132]) {
        let env = Env::new().b("r_priv", &r_priv).b("r_pub", &r_pub).b("e_pub", &file[4..36]).b("enc_s", &file[36..84]).b("enc_p", &file[84..132]).b("s_pub", &o.sender_pub);
        out["ok"] = json!(true);
        out["e_pub"] = json!(hex(&file[4..36]));
        out["sender_pub"] = json!(hex(&o.sender_pub));
        out["payload"] = json!(hex(&o.payload));
        out["file_key"] = json!(hex(&o.file_key));
        out["k1"] = json!(hex(&t.must("rd_k1", &env)));
        out["k2"] = json!(hex(&t.must("rd_k2", &env)));
        let (nonces, residue) = record_nonces(t, &file, 132, &o.file_key, &t.must("key_prefix", &Env::new()));
        out["nonces"] = json!(nonces);
        out["residue"] = json!(residue);
    }
    out
}

/// Unlock a keyring private-key string as the specification lays it out.
pub fn spec_unlock(t: &Templates, scn: &Value) -> Value {
    let locked = jstr(scn, "locked");
    let pw = unhex(jstr_or(scn, "password_hex", ""));
    match crate::specread::unlock_by_spec(t, locked, &pw) {
        Some(sk) => {
            let blob = ct_codecs::Base64::decode_to_vec(locked, None).unwrap();
            let pk = kestrel_crypto::x25519_derive_public(&sk).unwrap();
            let enc = t.must("encoded_pub", &Env::new().b("pk", &pk));
            json!({"ev":"unlocked","id":scn.get("id").cloned().unwrap_or(json!("")),"ok":true,"sk_hex":hex(&sk),"salt_hex":hex(&blob[4..36]),
                   "pk_hex":hex(&pk),"pub_enc":String::from_utf8(enc).unwrap()})
        }
        None => json!({"ev":"unlocked","id":scn.get("id").cloned().unwrap_or(json!("")),"ok":false}),
    }
}

/// Library key_encrypt with the randomness left to the implementation: what did it draw?
pub fn kenc_draws(t: &Templates, seed: u64, scn: &Value) -> Value {
    let kseed = ju64_or(scn, "kseed", 1);
    let k = crate::stream::keyset(seed, kseed, ju64_or(scn, "rseed", 1));
    let plain = pbytes(ju64_or(scn, "pseed", 1), 0, ju64_or(scn, "plen", 10));
    // the plaintext source may deliver short reads (the chunking, hence the nonces, follows them)
    let reads: Vec<usize> = jarr(scn, "reads").iter().map(|x| x.as_u64().unwrap() as usize).collect();
    // "intr_at": the read call (0-based) that fails once with ErrorKind::Interrupted (a legal, retryable condition of Read)
    let intr_at = scn.get("intr_at").and_then(|x| x.as_u64()).map(|x| x as usize);
    struct Chunked<'a> { d: &'a [u8], reads: Vec<usize>, i: usize, intr_at: Option<usize> }
    impl<'a> std::io::Read for Chunked<'a> {
        fn read(&mut self, buf: &mut [u8]) -> std::io::Result<usize> {
            if self.intr_at == Some(self.i) {
                self.i += 1;
                self.intr_at = None;
                return Err(std::io::Error::new(std::io::ErrorKind::Interrupted, "injected: interrupted"));
            }
            let want = if self.i < self.reads.len() { self.reads[self.i] } else { buf.len() };
            self.i += 1;
            let n = std::cmp::min(std::cmp::min(want, buf.len()), self.d.len());
            buf[..n].copy_from_slice(&self.d[..n]);
            self.d = &self.d[n..];
            Ok(n)
        }
    }
    // "lo": the recipient is the lo-th low-order / non-canonical point (no private key exists for it)
    let lo = scn.get("lo").and_then(|x| x.as_u64()).map(|i| low_order_points()[(i as usize) % 14].to_vec());
    let r_pub_used: Vec<u8> = lo.clone().unwrap_or_else(|| k.r_pub.to_vec());
    let r = catch_unwind(AssertUnwindSafe(|| {
        let mut out = Vec::new();
        let sk = PrivateKey::try_from(&k.s_priv[..]).unwrap();
        let spk = PublicKey::try_from(&k.s_pub[..]).unwrap();
        let rpk = PublicKey::try_from(&r_pub_used[..]).unwrap();
        let mut p = Chunked { d: &plain[..], reads: reads.clone(), i: 0, intr_at };
        key_encrypt(&mut p, &mut out, &sk, &spk, &rpk, None, None, None, AsymFileFormat::V1).map(|_| out)
    }));
    match r {
        // writing to such a recipient must be refused; if it was not, the file opens from public data alone
        Ok(Err(_)) if lo.is_some() => json!({"ev":"opened","id":scn.get("id").cloned().unwrap_or(json!("")),"ok":false,"flen":0,"failed_as_allowed":true}),
        Ok(Ok(file)) if lo.is_some() => {
            let mut o = json!({"ev":"opened","id":scn.get("id").cloned().unwrap_or(json!("")),"ok":false,"flen":file.len(),"null_recipient":true});
            if file.len() >= 132 {
                if let Some((op, k1, k2)) = crate::specread::open_key_header_null(t, &r_pub_used, &file[..132]) {
                    o["ok"] = json!(true);
                    o["e_pub"] = json!(hex(&file[4..36]));
                    o["sender_pub"] = json!(hex(&op.sender_pub));
                    o["payload"] = json!(hex(&op.payload));
                    o["file_key"] = json!(hex(&op.file_key));
                    o["k1"] = json!(hex(&k1));
                    o["k2"] = json!(hex(&k2));
                    let (nonces, residue) = record_nonces(t, &file, 132, &op.file_key, &t.must("key_prefix", &Env::new()));
                    o["nonces"] = json!(nonces);
                    o["residue"] = json!(residue);
                }
            }
            o
        }
        Ok(Ok(file)) => {
            let mut o = open_file(t, &json!({"file_hex": hex(&file), "r_priv_hex": hex(&k.r_priv), "id": scn.get("id").cloned().unwrap_or(json!(""))}));
            o["sender_ok"] = json!(o.get("sender_pub").and_then(|x| x.as_str()) == Some(&hex(&k.s_pub)));
            o
        }
        // an interrupted read may legitimately end the operation with an error: then nothing is claimed about it
        Ok(Err(_)) if intr_at.is_some() => json!({"ev":"opened","id":scn.get("id").cloned().unwrap_or(json!("")),"ok":false,"flen":0,"failed_as_allowed":true}),
        _ => json!({"ev":"opened","id":scn.get("id").cloned().unwrap_or(json!("")),"ok":false,"flen":0}),
    }
}

/// C08: cleartext of files that differ only in the identities involved, and identity search.
pub fn clear(t: &Templates, seed: u64, scn: &Value) -> Value {
    let api = jstr(scn, "api");
    let plen = ju64_or(scn, "plen", 10);
    let plain = pbytes(ju64_or(scn, "pseed", 1), 0, plen);
    let reads: Vec<u64> = jarr(scn, "reads").iter().map(|x| x.as_u64().unwrap()).collect();
    let h: usize = if api == "key" { 132 } else { 36 };
    let build = |ident: u64| -> Option<(Vec<u8>, Vec<Vec<u8>>)> {
        // same ephemeral, payload key / salt, plaintext and read partition; different identities
        let e_priv = Rng::derive(seed, &format!("clear-e{}", ju64_or(scn, "k", 0))).bytes32();
        let e_pub = kestrel_crypto::x25519_derive_public(&e_priv).unwrap();
        let payload = Rng::derive(seed, &format!("clear-p{}", ju64_or(scn, "k", 0))).bytes32();
        let s_priv = priv_of(seed, &format!("clear-s{}", ident));
        let r_priv = priv_of(seed, &format!("clear-r{}", ident));
        let s_pub = kestrel_crypto::x25519_derive_public(&s_priv).unwrap();
        let r_pub = kestrel_crypto::x25519_derive_public(&r_priv).unwrap();
        struct Chunked<'a> { d: &'a [u8], reads: Vec<u64>, i: usize }
        impl<'a> std::io::Read for Chunked<'a> {
            fn read(&mut self, buf: &mut [u8]) -> std::io::Result<usize> {
                let want = if self.i < self.reads.len() { self.reads[self.i] as usize } else { buf.len() };
                self.i += 1;
                let n = std::cmp::min(std::cmp::min(want, buf.len()), self.d.len());
                buf[..n].copy_from_slice(&self.d[..n]);
                self.d = &self.d[n..];
                Ok(n)
            }
        }
        let mut src = Chunked { d: &plain, reads: reads.clone(), i: 0 };
        // the sink accepts at most wmax bytes per write call (0: whatever is offered): the size formula holds for any sink
        struct Limited { out: Vec<u8>, max: usize }
        impl std::io::Write for Limited {
            fn write(&mut self, buf: &[u8]) -> std::io::Result<usize> {
                let n = if self.max == 0 { buf.len() } else { std::cmp::min(self.max, buf.len()) };
                self.out.extend_from_slice(&buf[..n]);
                Ok(n)
            }
            fn flush(&mut self) -> std::io::Result<()> {
                Ok(())
            }
        }
        let mut out = Limited { out: Vec::new(), max: ju64_or(scn, "wmax", 0) as usize };
        let ok = catch_unwind(AssertUnwindSafe(|| {
            if api == "key" {
                let (ep, epk) = (PrivateKey::try_from(&e_priv[..]).unwrap(), PublicKey::try_from(&e_pub[..]).unwrap());
                // "eph": which halves of the ephemeral pair the caller passes (a lone half is documented to be ignored)
                let (a1, a2) = match jstr_or(scn, "eph", "both") {
                    "priv_only" => (Some(&ep), None),
                    "pub_only" => (None, Some(&epk)),
                    "none" => (None, None),
                    _ => (Some(&ep), Some(&epk)),
                };
                key_encrypt(&mut src, &mut out, &PrivateKey::try_from(&s_priv[..]).unwrap(), &PublicKey::try_from(&s_pub[..]).unwrap(),
                            &PublicKey::try_from(&r_pub[..]).unwrap(), a1, a2, Some(&PayloadKey::new(&payload)), AsymFileFormat::V1).is_ok()
            } else {
                let pw = format!("password-of-identity-{}", ident);
                kestrel_crypto::encrypt::pass_encrypt(&mut src, &mut out, pw.as_bytes(), payload, kestrel_crypto::PassFileFormat::V1).is_ok()
            }
        }));
        if !matches!(ok, Ok(true)) {
            return None;
        }
        let out = out.out;
        // identity forms an observer could look for
        let b64 = |b: &[u8]| -> Vec<u8> { ct_codecs::Base64::encode_to_string(b).unwrap().into_bytes() };
        use ct_codecs::Encoder;
        let mut forms = Vec::new();
        for pk in [&s_pub, &r_pub] {
            forms.push(pk.clone());
            forms.push(b64(pk));
            let enc = t.must("encoded_pub", &Env::new().b("pk", pk));
            forms.push(enc.clone());
            forms.push(ct_codecs::Base64::decode_to_vec(std::str::from_utf8(&enc).unwrap(), None).unwrap());
            forms.push(crate::util::hex(pk).into_bytes());
        }
        Some((out, forms))
    };
    let contains = |hay: &[u8], needle: &[u8]| -> bool { !needle.is_empty() && hay.windows(needle.len()).any(|w| w == needle) };
    let a = build(1);
    let b = build(2);
    let mut ev = json!({"ev":"clear","id":scn.get("id").cloned().unwrap_or(json!("")),"api":api,"plen":plen,"H":h,"ok":false});
    if let (Some((fa, forms_a)), Some((fb, forms_b))) = (a, b) {
        // record layout (positions of cleartext fields) is read from file A's length fields
        let mut nrec = 0u64;
        let mut off = h;
        let mut clear_pos: Vec<(usize, usize)> = vec![(0, 4), (4, 36)];
        let mut framing_ok = true;
        while off < fa.len() {
            if off + 32 > fa.len() {
                framing_ok = false;
                break;
            }
            let len = u32::from_be_bytes(fa[off + 12..off + 16].try_into().unwrap()) as usize;
            clear_pos.push((off, off + 16));
            off += 32 + len;
            nrec += 1;
        }
        framing_ok = framing_ok && off == fa.len();
        let same_len = fa.len() == fb.len();
        let clear_equal = same_len && clear_pos.iter().all(|(x, y)| *y <= fa.len() && fa[*x..*y] == fb[*x..*y]);
        let found = forms_a.iter().any(|f| contains(&fa, f)) || forms_b.iter().any(|f| contains(&fb, f))
            || forms_a.iter().any(|f| contains(&fb, f)) || forms_b.iter().any(|f| contains(&fa, f));
        ev["ok"] = json!(true);
        ev["flen"] = json!(fa.len());
        ev["flen_b"] = json!(fb.len());
        ev["nrec"] = json!(nrec);
        ev["framing_ok"] = json!(framing_ok);
        // with a fresh ephemeral key per file the ephemeral field differs by construction: compared only under full injection
        let injected = api != "key" || jstr_or(scn, "eph", "both") == "both";
        ev["clear_equal"] = json!(clear_equal || !injected);
        ev["identity_found"] = json!(found);
    }
    ev
}

/// Write a specification-built file (terms only, no encryptor involved) for process-level tests.
pub fn specfile(t: &Templates, seed: u64, scn: &Value) -> Value {
    let api = jstr(scn, "api");
    let chunks: Vec<u64> = jarr(scn, "chunks").iter().map(|x| x.as_u64().unwrap()).collect();
    let pseed = ju64_or(scn, "pseed", 1);
    let (header, key, prefix) = if api == "key" {
        let s_priv = unhex(jstr(scn, "s_priv_hex"));
        let r_pub = unhex(jstr(scn, "r_pub_hex"));
        let s_pub = kestrel_crypto::x25519_derive_public(&s_priv).unwrap();
        let e_priv = Rng::derive(seed, &format!("specfile-e{}", jstr_or(scn, "tag", ""))).bytes32();
        let e_pub = kestrel_crypto::x25519_derive_public(&e_priv).unwrap();
        let payload = Rng::derive(seed, &format!("specfile-p{}", jstr_or(scn, "tag", ""))).bytes32();
        let env = Env::new().b("s_priv", &s_priv).b("s_pub", &s_pub).b("e_priv", &e_priv).b("e_pub", &e_pub).b("rs", &r_pub).b("payload", &payload);
        (t.must("key_header", &env), t.must("key_file_key", &env), t.must("key_prefix", &env))
    } else {
        let pw = unhex(jstr(scn, "password_hex"));
        let salt = Rng::derive(seed, &format!("specfile-s{}", jstr_or(scn, "tag", ""))).bytes32();
        let env = Env::new().b("password", &pw).b("salt", &salt);
        (t.must("pass_header", &env), t.must("pass_file_key", &env), t.must("pass_prefix", &env))
    };
    let mut file = header;
    let mut off = 0u64;
    // content class of the plaintext: a streaming sink must not treat any content specially
    let fill = jstr_or(scn, "fill", "prng").to_string();
    let content = |lo: u64, hi: u64| -> Vec<u8> {
        match fill.as_str() {
            "zero" => vec![0u8; (hi - lo) as usize],
            "ff" => vec![0xffu8; (hi - lo) as usize],
            "text" => (lo..hi).map(|i| if i % 64 == 63 { b'\n' } else { b'a' + (i % 23) as u8 }).collect(),
            // one short first line, then no further newline
            "longline" => (lo..hi).map(|i| if i == 15 { b'\n' } else { b'A' + (i % 26) as u8 }).collect(),
            _ => pbytes(pseed, lo, hi),
        }
    };
    for (i, c) in chunks.iter().enumerate() {
        let pt = content(off, off + c);
        file.extend_from_slice(&t.chunk_record(&key, &prefix, i as u64, if i + 1 == chunks.len() { 1 } else { 0 }, &pt));
        off += c;
    }
    std::fs::write(jstr(scn, "out"), &file).expect("write specfile");
    std::fs::write(format!("{}.plain", jstr(scn, "out")), content(0, off)).expect("write plain");
    json!({"len": file.len(), "plen": off})
}
