//! Stream engine: runs encryption / decryption scenarios against the real code with
//! scripted I/O and records one trace per run (events at the Read/Write boundary).
//!
//! The driver decides nothing: it concretises a scenario, runs the code under test,
//! and writes what happened plus *projections* of the observed bytes onto the abstract
//! state the trace specification talks about (does this write equal the expected stream
//! at its offset; does sink record i equal the record the specification's term
//! prescribes; how much plaintext do completely written records cover).  Verdicts are
//! taken by TLC on spec/Trace_Stream.tla.
use crate::alloc;
use crate::sio::*;
use crate::terms::{Env, Templates};
use crate::util::*;
use kestrel_crypto::decrypt::{key_decrypt, pass_decrypt, verif_decrypt_chunks};
use kestrel_crypto::encrypt::{key_encrypt, pass_encrypt, verif_encrypt_chunks};
use kestrel_crypto::errors::{DecryptError, EncryptError};
use kestrel_crypto::{AsymFileFormat, PassFileFormat, PayloadKey, PrivateKey, PublicKey};
use serde_json::{json, Value};
use std::cell::RefCell;
use std::panic::{catch_unwind, AssertUnwindSafe};
use std::rc::Rc;

pub struct Ctx {
    pub t: Templates,
    pub seed: u64,
}

fn enc_res(r: &Result<(), EncryptError>) -> &'static str {
    match r {
        Ok(()) => "ok",
        Err(EncryptError::IORead(_)) => "err_read",
        Err(EncryptError::IOWrite(_)) => "err_write",
        Err(EncryptError::UnexpectedData) => "err_unexpected",
        Err(EncryptError::Other(_)) => "err_other",
    }
}

fn dec_res<T>(r: &Result<T, DecryptError>) -> &'static str {
    match r {
        Ok(_) => "ok",
        Err(DecryptError::IORead(_)) => "err_read",
        Err(DecryptError::IOWrite(_)) => "err_write",
        Err(DecryptError::ChunkLen) => "err_chunklen",
        Err(DecryptError::ChaPolyDecrypt) => "err_auth",
        Err(DecryptError::UnexpectedData) => "err_trailing",
        Err(DecryptError::Other(_)) => "err_other",
    }
}

// ------------------------------------------------------------------------------------
// key material of a scenario (everything derived from seeds, so a replay is exact)
// ------------------------------------------------------------------------------------

pub struct KeySet {
    pub s_priv: [u8; 32],
    pub s_pub: Vec<u8>,
    pub r_priv: [u8; 32],
    pub r_pub: Vec<u8>,
    pub e_priv: [u8; 32],
    pub e_pub: Vec<u8>,
    pub payload: [u8; 32],
}

/// kseed selects sender, ephemeral and payload key; rseed the recipient (so that several
/// files can be addressed to one recipient).
pub fn keyset(seed: u64, kseed: u64, rseed: u64) -> KeySet {
    let mut r = Rng::derive(seed, &format!("keyset{}", kseed));
    let s_priv = r.bytes32();
    let r_priv = Rng::derive(seed, &format!("recipient{}", rseed)).bytes32();
    let e_priv = r.bytes32();
    let payload = r.bytes32();
    let p = |k: &[u8; 32]| kestrel_crypto::x25519_derive_public(k).expect("derive public");
    KeySet { s_pub: p(&s_priv), r_pub: p(&r_priv), e_pub: p(&e_priv), s_priv, r_priv, e_priv, payload }
}

pub fn chunk_key(seed: u64, kseed: u64) -> [u8; 32] {
    Rng::derive(seed, &format!("chunkkey{}", kseed)).bytes32()
}

pub fn password(seed: u64, kseed: u64, scn: &Value) -> Vec<u8> {
    if let Some(h) = scn.get("password_hex").and_then(|x| x.as_str()) {
        return unhex(h);
    }
    let _ = kseed;
    let mut r = Rng::derive(seed, &format!("password{}", ju64_or(scn, "pwseed", 1)));
    let n = r.range(0, 24) as usize;
    r.bytes(n)
}

pub fn salt(seed: u64, kseed: u64) -> [u8; 32] {
    Rng::derive(seed, &format!("salt{}", kseed)).bytes32()
}

/// Header bytes, chunk key and AAD prefix the specification prescribes for this scenario.
pub struct SpecFile {
    pub header: Vec<u8>,
    pub key: Vec<u8>,
    pub prefix: Vec<u8>,
}

pub fn spec_file(ctx: &Ctx, api: &str, aad: &str, kseed: u64, scn: &Value) -> SpecFile {
    match api {
        "chunks" => SpecFile {
            header: vec![],
            key: chunk_key(ctx.seed, kseed).to_vec(),
            prefix: if aad == "pass" { ctx.t.must("pass_prefix", &Env::new()) } else { ctx.t.must("key_prefix", &Env::new()) },
        },
        "key" => {
            let k = keyset(ctx.seed, kseed, ju64_or(scn, "rseed", 1));
            let env = Env::new()
                .b("s_priv", &k.s_priv)
                .b("s_pub", &k.s_pub)
                .b("e_priv", &k.e_priv)
                .b("e_pub", &k.e_pub)
                .b("rs", &k.r_pub)
                .b("payload", &k.payload);
            SpecFile { header: ctx.t.must("key_header", &env), key: ctx.t.must("key_file_key", &env), prefix: ctx.t.must("key_prefix", &env) }
        }
        "pass" => {
            let pw = password(ctx.seed, kseed, scn);
            let s = salt(ctx.seed, kseed);
            let env = Env::new().b("password", &pw).b("salt", &s);
            SpecFile { header: ctx.t.must("pass_header", &env), key: ctx.t.must("pass_file_key", &env), prefix: ctx.t.must("pass_prefix", &env) }
        }
        _ => panic!("api {}", api),
    }
}

// ------------------------------------------------------------------------------------
// streaming verifier for encryptor output: sink == header ++ records, each record equal
// to the specification's ChunkRecord term for the chunking the implementation chose
// ------------------------------------------------------------------------------------

#[derive(Clone, PartialEq, Debug)]
pub struct RecSum {
    pub len: u64,
    pub last: u64,
    pub ok: bool,    // all bytes of the record equal the specification's term
    pub ctrok: bool, // counter field equals the record's index
    pub n: u64,      // run length (identical consecutive summaries are merged)
}

pub struct RecVerifier {
    t: *const Templates,
    key: Vec<u8>,
    prefix: Vec<u8>,
    cs: u64,
    pseed: u64,
    plen: u64,
    header: Vec<u8>,
    hdr_got: usize,
    pub hdr_ok: bool,
    buf: Vec<u8>,
    index: u64,
    poff: u64, // plaintext offset of the next record
    pub recs: Vec<RecSum>,
    pub nrecs: u64,
    pub covered: u64,
    pub dead: bool, // framing lost (length field beyond the chunk size or beyond the plaintext)
    pub total: u64,
    /// (ephemeral public key, payload key, file key) recovered from a header whose
    /// randomness was drawn by the library
    pub recovered: Option<(Vec<u8>, Vec<u8>, Vec<u8>)>,
    /// explicit plaintext (golden files); otherwise generated from pseed
    pub plain: Option<Vec<u8>>,
}

impl RecVerifier {
    pub fn new(t: &Templates, sf: &SpecFile, cs: u64, pseed: u64, plen: u64) -> Self {
        RecVerifier {
            t: t as *const Templates,
            key: sf.key.clone(),
            prefix: sf.prefix.clone(),
            cs,
            pseed,
            plen,
            header: sf.header.clone(),
            hdr_got: 0,
            hdr_ok: true,
            buf: Vec::new(),
            index: 0,
            poff: 0,
            recs: Vec::new(),
            nrecs: 0,
            covered: 0,
            dead: false,
            total: 0,
            recovered: None,
            plain: None,
        }
    }
    pub fn feed(&mut self, mut data: &[u8]) {
        self.total += data.len() as u64;
        // header
        while self.hdr_got < self.header.len() && !data.is_empty() {
            if data[0] != self.header[self.hdr_got] {
                self.hdr_ok = false;
            }
            self.hdr_got += 1;
            data = &data[1..];
        }
        if data.is_empty() {
            return;
        }
        self.buf.extend_from_slice(data);
        loop {
            if self.dead || self.buf.len() < 16 {
                return;
            }
            let ctr = u64::from_be_bytes(self.buf[0..8].try_into().unwrap());
            let last = u32::from_be_bytes(self.buf[8..12].try_into().unwrap()) as u64;
            let len = u32::from_be_bytes(self.buf[12..16].try_into().unwrap()) as u64;
            // the fields are only a *hint* for where the record ends; the verdict is the byte
            // comparison with the specification's term below
            if len > self.cs || self.poff + len > self.plen {
                self.dead = true;
                return;
            }
            let need = 16 + len as usize + 16;
            if self.buf.len() < need {
                return;
            }
            let pt = match &self.plain {
                Some(p) => p[self.poff as usize..(self.poff + len) as usize].to_vec(),
                None => pbytes(self.pseed, self.poff, self.poff + len),
            };
            let t = unsafe { &*self.t };
            let expect = t.chunk_record(&self.key, &self.prefix, self.index, last, &pt);
            let ok = expect.len() == need && expect[..] == self.buf[..need];
            let s = RecSum { len, last, ok, ctrok: ctr == self.index, n: 1 };
            match self.recs.last_mut() {
                Some(l) if l.len == s.len && l.last == s.last && l.ok == s.ok && l.ctrok == s.ctrok => l.n += 1,
                _ => self.recs.push(s),
            }
            self.nrecs += 1;
            self.buf.drain(..need);
            self.index += 1;
            self.poff += len;
            self.covered = self.poff;
        }
    }
    pub fn residue(&self) -> u64 {
        self.buf.len() as u64
    }
    pub fn recs_json(&self) -> Value {
        Value::Array(self.recs.iter().map(|r| json!({"len":r.len,"last":r.last,"ok":r.ok,"ctrok":r.ctrok,"n":r.n})).collect())
    }
}

fn scripts(scn: &Value, seed: u64) -> (Script, Script, Script) {
    let rs = Script::new(parse_dirs(jarr(scn, "rs")));
    let ws = Script::new(parse_dirs(jarr(scn, "ws")));
    let fs = Script::new(parse_dirs(jarr(scn, "fs")));
    let rs = rs.with_gen(seed ^ 0x11, ju64_or(scn, "rgen", 0));
    let ws = ws.with_gen(seed ^ 0x22, ju64_or(scn, "wgen", 0));
    (rs, ws, fs)
}

fn fault_kinds(scn: &Value) -> Value {
    let kind = |k: &str| -> &'static str {
        let mut res = "none";
        for x in jarr(scn, k) {
            match x.as_str() {
                Some("other") => return "other",
                Some("intr") => res = "intr",
                _ => {
                    if x.as_u64() == Some(0) && k == "ws" {
                        return "other"; // zero-length write
                    }
                }
            }
        }
        res
    };
    json!({"read": kind("rs"), "write": kind("ws"), "flush": kind("fs")})
}

fn strip_faults(scn: &Value) -> Value {
    let mut s = scn.clone();
    for k in ["rs", "ws", "fs"] {
        if let Some(a) = s.get(k).and_then(|x| x.as_array()).cloned() {
            let f: Vec<Value> = a.into_iter().filter(|x| x.is_u64() && !(k == "ws" && x.as_u64() == Some(0))).collect();
            s[k] = Value::Array(f);
        }
    }
    s["extra_after_eof"] = json!(0);
    s
}

fn has_faults(scn: &Value) -> bool {
    strip_faults(scn) != {
        let mut s = scn.clone();
        s["extra_after_eof"] = json!(0);
        s
    } || ju64_or(scn, "extra_after_eof", 0) > 0
}

pub struct EncOut {
    pub res: &'static str,
    pub sink: Option<Vec<u8>>,
    pub events: Vec<Ev>,
    pub covs: Vec<u64>,
    pub ver: Rc<RefCell<RecVerifier>>,
    pub consumed: u64,
    pub accepted: u64,
    pub eof_reads: u64,
    pub overflow: bool,
    pub late: u64,
    pub heap_base: u64,
    pub tail_heap: u64, // peak between the last I/O call and the return of the operation
}

/// One encryption run.
pub fn enc_once(ctx: &Ctx, scn: &Value) -> EncOut {
    let api = jstr(scn, "api");
    let cs = ju64_or(scn, "cs", 65536);
    let plen = ju64(scn, "plen");
    let pseed = ju64_or(scn, "pseed", 1);
    let kseed = ju64_or(scn, "kseed", 1);
    let store = scn.get("store").and_then(|x| x.as_bool()).unwrap_or(true);
    let aad = jstr_or(scn, "aad", "key");
    let sf = spec_file(ctx, api, aad, kseed, scn);
    let (rs, ws, fs) = scripts(scn, ctx.seed ^ kseed);
    // watchdog: far more I/O calls than bytes means the code is spinning
    let limit = ju64_or(scn, "evlimit", 100_000 + 8 * plen) as usize;
    let log = new_log(limit);
    let mut rd = SReader::new(Source::Gen { seed: pseed, len: plen }, rs, log.clone());
    rd.extra_after_eof = ju64_or(scn, "extra_after_eof", 0);
    let mut wr = SWriter::new(store, Expect::None, ws, fs, log.clone());
    let ver = Rc::new(RefCell::new(RecVerifier::new(&ctx.t, &sf, cs, pseed, plen)));
    let covs: Rc<RefCell<Vec<u64>>> = Rc::new(RefCell::new(Vec::new()));
    // inject = false: ephemeral and payload key are left to the library (C07); the output is
    // then verified after the run by specification-directed opening of the header
    let inject = api != "key" || scn.get("inject").and_then(|x| x.as_bool()).unwrap_or(true);
    if inject {
        let v = ver.clone();
        wr.tap = Some(Box::new(move |b: &[u8]| {
            v.borrow_mut().feed(b);
        }));
    }
    // inputs of the call under test are built before heap counting starts
    let k = keyset(ctx.seed, kseed, ju64_or(scn, "rseed", 1));
    let s_priv = PrivateKey::try_from(&k.s_priv[..]).unwrap();
    let s_pub = PublicKey::try_from(&k.s_pub[..]).unwrap();
    let r_pub = PublicKey::try_from(&k.r_pub[..]).unwrap();
    let e_priv = PrivateKey::try_from(&k.e_priv[..]).unwrap();
    let e_pub = PublicKey::try_from(&k.e_pub[..]).unwrap();
    let payload = PayloadKey::new(&k.payload);
    let pw = password(ctx.seed, kseed, scn);
    let sl = salt(ctx.seed, kseed);
    let ckey = chunk_key(ctx.seed, kseed);
    let prefix = sf.prefix.clone();

    alloc::reset();
    alloc::enable(true);
    let r = catch_unwind(AssertUnwindSafe(|| match api {
        "chunks" => verif_encrypt_chunks(&mut rd, &mut wr, &ckey, &prefix, cs as u32),
        "key" if inject => key_encrypt(&mut rd, &mut wr, &s_priv, &s_pub, &r_pub, Some(&e_priv), Some(&e_pub), Some(&payload), AsymFileFormat::V1),
        // randomness left to the library, in every combination of the optional arguments that is not a complete injection:
        // a lone half of an ephemeral pair is documented to be ignored ("passing None ... will generate fresh keys")
        "key" => match scn.get("eph").and_then(|x| x.as_str()).unwrap_or("none") {
            "pub_only" => key_encrypt(&mut rd, &mut wr, &s_priv, &s_pub, &r_pub, None, Some(&e_pub), None, AsymFileFormat::V1),
            "priv_only" => key_encrypt(&mut rd, &mut wr, &s_priv, &s_pub, &r_pub, Some(&e_priv), None, None, AsymFileFormat::V1),
            "payload_only" => key_encrypt(&mut rd, &mut wr, &s_priv, &s_pub, &r_pub, None, None, Some(&payload), AsymFileFormat::V1),
            _ => key_encrypt(&mut rd, &mut wr, &s_priv, &s_pub, &r_pub, None, None, None, AsymFileFormat::V1),
        },
        "pass" => pass_encrypt(&mut rd, &mut wr, &pw, sl, PassFileFormat::V1),
        _ => panic!("api"),
    }));
    let tail_heap = alloc::take_peak();
    alloc::enable(false);
    let res = match &r {
        Ok(x) => enc_res(x),
        Err(_) => "panic",
    };
    drop(r);
    if !inject {
        // post-hoc verification with the recovered file key
        let sink = wr.store.clone().expect("inject=false needs a stored sink");
        let mut v = ver.borrow_mut();
        if sink.len() >= 132 {
            match crate::specread::open_key_header(&ctx.t, &k.r_priv, &k.r_pub, &sink[..132]) {
                Some(o) => {
                    let sf2 = SpecFile { header: sink[..132].to_vec(), key: o.file_key.clone(), prefix: sf.prefix.clone() };
                    *v = RecVerifier::new(&ctx.t, &sf2, cs, pseed, plen);
                    v.hdr_ok = o.sender_pub == k.s_pub;
                    v.feed(&sink);
                    v.recovered = Some((sink[4..36].to_vec(), o.payload.clone(), o.file_key.clone()));
                }
                None => {
                    v.hdr_ok = false;
                    v.feed(&sink);
                }
            }
        } else {
            v.hdr_ok = false;
            v.feed(&sink);
        }
    }
    // per-event coverage: recompute by replaying accepted bytes is not possible without the
    // data, so the verifier state after each write was sampled through the tap order: the
    // tap runs inside `write` before the event is pushed, hence covered-after-event equals the
    // verifier's `covered` at that time.  We reconstruct it from the record ends instead.
    let l = log.borrow();
    let v = ver.borrow();
    // ends of complete records in sink offsets
    let mut ends: Vec<(u64, u64)> = Vec::new(); // (sink offset of record end, plaintext covered)
    {
        let mut off = sf.header.len() as u64;
        let mut cov = 0u64;
        for rsum in v.recs.iter() {
            for _ in 0..rsum.n {
                off += 32 + rsum.len;
                cov += rsum.len;
                ends.push((off, cov));
            }
        }
    }
    {
        let mut c = covs.borrow_mut();
        let mut j = 0usize;
        let mut cur = 0u64;
        for e in l.events.iter() {
            while j < ends.len() && ends[j].0 <= e.accepted {
                cur = ends[j].1;
                j += 1;
            }
            c.push(cur);
        }
    }
    let out = EncOut {
        res,
        sink: wr.store.take(),
        events: l.events.clone(),
        covs: covs.borrow().clone(),
        ver: ver.clone(),
        consumed: l.consumed,
        accepted: l.accepted,
        eof_reads: l.eof_reads,
        overflow: l.overflow,
        late: l.late_events,
        heap_base: 0,
        tail_heap,
    };
    out
}

fn emit_events(lines: &mut Vec<Value>, events: &[Ev], extra: impl Fn(usize, &Ev, &mut Value)) {
    for (i, e) in events.iter().enumerate() {
        let mut j = ev_json(e);
        extra(i, e, &mut j);
        lines.push(j);
    }
}

pub fn run_enc(ctx: &Ctx, scn: &Value) -> Vec<Value> {
    let out = enc_once(ctx, scn);
    enc_lines(ctx, scn, &out)
}

/// Round trip: encrypt with one schedule, then decrypt what the encryptor wrote with
/// another.  The decryption's expectation comes from the property (C01/C02): a file the
/// encryptor produced with success must decrypt to the plaintext (and under another key
/// or password must be rejected); the layout used for the per-event projections is the
/// one the record verifier found in the encryptor's output.
pub fn run_rt(ctx: &Ctx, scn: &Value) -> Vec<Value> {
    let enc = scn.get("enc").expect("rt.enc");
    let dec = scn.get("dec").expect("rt.dec");
    let out = enc_once(ctx, enc);
    let mut lines = enc_lines(ctx, enc, &out);
    if out.res != "ok" || out.sink.is_none() {
        return lines;
    }
    let api = jstr(enc, "api");
    let cs = ju64_or(enc, "cs", 65536);
    let h: u64 = match api {
        "key" => 132,
        "pass" => 36,
        _ => 0,
    };
    let plen = ju64(enc, "plen");
    let pseed = ju64_or(enc, "pseed", 1);
    let kseed = ju64_or(enc, "kseed", 1);
    let wrong_key = dec.get("wrong_key").and_then(|x| x.as_bool()).unwrap_or(false);
    let sink = out.sink.clone().unwrap();
    let flen = sink.len() as u64;
    // layout from the verifier
    let mut ends = Vec::new();
    let mut plens = Vec::new();
    {
        let v = out.ver.borrow();
        let mut off = h;
        let mut good = v.hdr_ok;
        for r in v.recs.iter() {
            for _ in 0..r.n {
                off += 32 + r.len;
                if !(r.ok && good) {
                    good = false;
                }
                if good {
                    ends.push(off);
                    plens.push(r.len);
                }
            }
        }
    }
    let mut d = dec.clone();
    d["api"] = json!(api);
    d["cs"] = json!(cs);
    d["aad"] = json!(jstr_or(enc, "aad", "key"));
    for k in ["rseed", "pwseed", "password_hex"] {
        if let Some(x) = enc.get(k) {
            d[k] = x.clone();
        }
    }
    let o = dec_once(ctx, &d, Source::Bytes(sink.clone()), Expect::Gen { seed: pseed, len: plen }, kseed, wrong_key);
    let auth_n = if wrong_key { 0 } else { ends.len() };
    let class = if wrong_key { "must_reject" } else { "must_accept" };
    let mut twin = json!({"used": false, "prefix_ok": true, "res": "n/a"});
    if has_faults(&d) {
        let t = dec_once(ctx, &strip_faults(&d), Source::Bytes(sink.clone()), Expect::Gen { seed: pseed, len: plen }, kseed, wrong_key);
        let ok = match (&o.sink, &t.sink) {
            (Some(x), Some(y)) => x.len() <= y.len() && x[..] == y[..x.len()],
            _ => true,
        };
        twin = json!({"used": true, "prefix_ok": ok, "res": t.res});
    }
    // informational only (the trace specification works from the per-event projections)
    let auth: Vec<Value> = (0..std::cmp::min(auth_n, 32)).map(|j| json!({"end": ends[j], "len": plens[j]})).collect();
    lines.push(json!({
        "ev":"begin","op":"dec","api":api,"id":scn.get("id").cloned().unwrap_or(json!("")),
        "cs":cs,"H":h,"flen":flen,"plen":plen,"class":class,"auth":auth,
        "twin":twin,"faults":fault_kinds(&d),"heapk":heap_bound(cs, api),
    }));
    let lag = 2 * (cs + 32);
    emit_events(&mut lines, &o.events, |_i, e, j| {
        let mut authc = 0u64;
        let mut due = 0u64;
        for k in 0..auth_n {
            if ends[k] <= e.consumed {
                authc += plens[k];
            }
            if (k + 2 < auth_n && ends[k + 2] < e.consumed) || ends[k] + lag < e.consumed {
                due += plens[k];
            }
        }
        j["authc"] = json!(authc);
        j["due"] = json!(due);
    });
    let boundary = {
        let mut s = 0u64;
        let mut ok = o.accepted == 0;
        for k in 0..auth_n {
            s += plens[k];
            if s == o.accepted {
                ok = true;
            }
        }
        ok
    };
    lines.push(json!({"ev":"end","heap":o.tail_heap,"res":if o.overflow {"hang"} else {o.res},"cons":o.consumed,"acc":o.accepted,
                      "eofs":o.eof_reads,"late":o.late,"sender_ok":o.sender_ok,"boundary":boundary}));
    lines
}

pub fn enc_lines(ctx: &Ctx, scn: &Value, out: &EncOut) -> Vec<Value> {
    let cs = ju64_or(scn, "cs", 65536);
    let api = jstr(scn, "api");
    let h = match api {
        "key" => 132,
        "pass" => 36,
        _ => 0,
    };
    // fault-free twin with the same schedule: what has been written must be a prefix of it
    let mut twin = json!({"used": false, "prefix_ok": true, "res": "n/a"});
    if has_faults(scn) {
        let t = enc_once(ctx, &strip_faults(scn));
        let ok = match (&out.sink, &t.sink) {
            (Some(a), Some(b)) => a.len() <= b.len() && a[..] == b[..a.len()],
            _ => true,
        };
        twin = json!({"used": true, "prefix_ok": ok, "res": t.res});
    }
    let v = out.ver.borrow();
    let mut lines = Vec::new();
    lines.push(json!({
        "ev":"begin","op":"enc","api":api,"id":scn.get("id").cloned().unwrap_or(json!("")),
        "cs":cs,"plen":ju64(scn,"plen"),"H":h,
        "hdr_ok":v.hdr_ok && v.total >= h,"recs":v.recs_json(),"nrecs":v.nrecs,"residue":v.residue(),"dead":v.dead,
        "sinklen":out.accepted,"twin":twin,"faults":fault_kinds(scn),
        "nonconf": ju64_or(scn,"extra_after_eof",0) > 0,
        "heapk": heap_bound(cs, api),
        "heap_ref": heap_reference_enc(ctx, scn).map(|x| x as i64).unwrap_or(-1),
    }));
    let covs = out.covs.clone();
    emit_events(&mut lines, &out.events, |i, _e, j| {
        j["cov"] = json!(covs[i]);
    });
    lines.push(json!({"ev":"end","heap":out.tail_heap,"res":if out.overflow {"hang"} else {out.res},"cons":out.consumed,"acc":out.accepted,
                      "eofs":out.eof_reads,"late":out.late}));
    lines
}

/// Peak heap over all events of a run.
fn peak_of(events: &[Ev]) -> u64 {
    events.iter().map(|e| e.heap).max().unwrap_or(0)
}

/// C11, sharper than the constant bound: the peak heap of the same operation on a short input
/// (three full chunks, same write schedule); the run's peak must not exceed it by more than a slack.
fn heap_reference_enc(ctx: &Ctx, scn: &Value) -> Option<u64> {
    if !scn.get("heapref").and_then(|x| x.as_bool()).unwrap_or(false) {
        return None;
    }
    let cs = ju64_or(scn, "cs", 65536);
    let mut s = scn.clone();
    s["plen"] = json!(std::cmp::min(ju64(scn, "plen"), 3 * cs + 1));
    s["store"] = json!(false);
    // full reads: the peak depends on the chunk LENGTH (the sealed copy of a chunk is as long as the chunk), so the
    // reference must see chunks of the maximal length, whatever read sizes the run under test uses
    s["rs"] = json!([]);
    s["rgen"] = json!(0);
    Some(peak_of(&enc_once(ctx, &s).events))
}

/// Generous constant heap bound (DESIGN.md 5, rule 3): only a length-dependent
/// allocation can cross it.
pub fn heap_bound(cs: u64, api: &str) -> u64 {
    8 * cs + (1 << 20) + if api == "pass" { 34 << 20 } else { 0 }
}

// ------------------------------------------------------------------------------------
// decryption
// ------------------------------------------------------------------------------------

/// An authentic source file built from the specification's terms (or by the real
/// encryptor when "real" is set): header + records with the given chunking.
pub struct SrcFile {
    pub sf: SpecFile,
    pub pseed: u64,
    pub chunks: Vec<u64>,
    pub recs: Vec<Vec<u8>>, // concrete bytes of each record
    pub plen: u64,
}

pub fn build_src(ctx: &Ctx, api: &str, aad: &str, src: &Value) -> SrcFile {
    let kseed = ju64_or(src, "kseed", 1);
    let pseed = ju64_or(src, "pseed", 1);
    let chunks: Vec<u64> = jarr(src, "chunks").iter().map(|x| x.as_u64().unwrap()).collect();
    let sf = spec_file(ctx, api, aad, kseed, src);
    let mut recs = Vec::new();
    let mut off = 0u64;
    let n = chunks.len();
    for (i, c) in chunks.iter().enumerate() {
        let pt = pbytes(pseed, off, off + c);
        let last = if i + 1 == n { 1 } else { 0 };
        recs.push(ctx.t.chunk_record(&sf.key, &sf.prefix, i as u64, last, &pt));
        off += c;
    }
    SrcFile { sf, pseed, chunks, recs, plen: off }
}

pub struct Assembled {
    pub bytes: Vec<u8>,
    pub h: u64,
    pub ends: Vec<u64>,     // end offset in F of each record of the recipe (before cut/trail)
    pub auth_n: usize,      // number of leading records that are authentic in position and complete
    pub class: &'static str,
    pub plens: Vec<u64>,
}

fn flip(bytes: &mut [u8], bit: u64) {
    let n = bytes.len() as u64 * 8;
    if n == 0 {
        return;
    }
    let b = bit % n;
    bytes[(b / 8) as usize] ^= 1 << (b % 8);
}

/// Assemble the concrete ciphertext of a recipe (abstract file).
pub fn assemble(srcs: &[SrcFile], file: &Value) -> Assembled {
    let hsrc = ju64_or(file, "hsrc", 0) as usize;
    let hdr = jstr_or(file, "hdr", "ok");
    let mut bytes = srcs[hsrc].sf.header.clone();
    #[allow(unused_assignments)]
    let mut hdr_ok = true;
    if let Some(rest) = hdr.strip_prefix("flip:") {
        let bit: u64 = rest.parse().unwrap();
        flip(&mut bytes, bit);
        hdr_ok = bytes.is_empty();
    } else if let Some(rest) = hdr.strip_prefix("from:") {
        // header taken from another source file while records stay
        let o: usize = rest.parse().unwrap();
        bytes = srcs[o].sf.header.clone();
        hdr_ok = o == hsrc;
    } else if hdr != "ok" {
        panic!("hdr {}", hdr);
    }
    let h = bytes.len() as u64;
    let mut ends = Vec::new();
    let mut plens = Vec::new();
    let mut opens_v = Vec::new();
    let mut last_v = Vec::new();
    let mut ctrok_v = Vec::new();
    let recs = jarr(file, "recs");
    for (j, r) in recs.iter().enumerate() {
        let s = ju64(r, "src") as usize;
        let idx = ju64(r, "idx") as usize;
        if s >= srcs.len() {
            // forged record: never sealed by anyone
            let lenf = ju64_or(r, "lenf", 0);
            let flagf = ju64_or(r, "flagf", 1);
            let mut rec = Vec::new();
            rec.extend_from_slice(&(idx as u64).to_be_bytes());
            rec.extend_from_slice(&(flagf as u32).to_be_bytes());
            rec.extend_from_slice(&(lenf as u32).to_be_bytes());
            rec.extend_from_slice(&Rng::derive(77, &format!("forge{}", j)).bytes(lenf as usize + 16));
            opens_v.push(false);
            last_v.push(flagf);
            ctrok_v.push(true);
            bytes.extend_from_slice(&rec);
            ends.push(bytes.len() as u64);
            plens.push(lenf);
            continue;
        }
        let mut rec = srcs[s].recs[idx].clone();
        let plen = srcs[s].chunks[idx];
        let last = if idx + 1 == srcs[s].chunks.len() { 1u64 } else { 0 };
        let flagf = ju64_or(r, "flagf", last);
        let lenf = ju64_or(r, "lenf", plen);
        let ctrf = r.get("ctrf").and_then(|x| x.as_u64()).unwrap_or(idx as u64);
        rec[0..8].copy_from_slice(&ctrf.to_be_bytes());
        rec[8..12].copy_from_slice(&(flagf as u32).to_be_bytes());
        rec[12..16].copy_from_slice(&(lenf as u32).to_be_bytes());
        let tam = r.get("tam").and_then(|x| x.as_i64()).unwrap_or(-1);
        if tam >= 0 {
            flip(&mut rec[16..], tam as u64);
        }
        opens_v.push(hdr_ok && s == hsrc && idx == j && tam < 0 && flagf == last && lenf == plen);
        last_v.push(last);
        ctrok_v.push(ctrf == idx as u64);
        bytes.extend_from_slice(&rec);
        ends.push(bytes.len() as u64);
        plens.push(plen);
    }
    let cut = file.get("cut").and_then(|x| x.as_i64()).unwrap_or(-1);
    let trail = ju64_or(file, "trail", 0);
    let full = bytes.len() as u64;
    let truncated = cut >= 0 && (cut as u64) < full;
    // records completely present (a truncation that removes whole records is the same
    // bytes as deleting them) and whether a partial record / header remains
    let mut npresent = 0usize;
    for e in ends.iter() {
        if !truncated || *e <= cut as u64 {
            npresent += 1;
        } else {
            break;
        }
    }
    let partial = truncated && ((cut as u64) < h || cut as u64 != if npresent == 0 { h } else { ends[npresent - 1] });
    let mut auth_n = 0usize;
    for j in 0..npresent {
        if opens_v[j] {
            auth_n += 1;
        } else {
            break;
        }
    }
    if truncated {
        bytes.truncate(cut as usize);
    }
    for i in 0..trail {
        bytes.push(0xA0 ^ (i as u8));
    }
    let complete = npresent >= 1 && !partial && auth_n == npresent && last_v[npresent - 1] == 1
        && last_v[..npresent - 1].iter().all(|l| *l == 0) && trail == 0;
    let class = if complete {
        if ctrok_v[..npresent].iter().all(|c| *c) {
            "must_accept"
        } else {
            "may_accept"
        }
    } else {
        "must_reject"
    };
    Assembled { bytes, h, ends, auth_n, class, plens }
}

pub struct DecOut {
    pub res: &'static str,
    pub sender_ok: bool,
    pub events: Vec<Ev>,
    pub sink: Option<Vec<u8>>,
    pub consumed: u64,
    pub accepted: u64,
    pub eof_reads: u64,
    pub overflow: bool,
    pub late: u64,
    pub tail_heap: u64, // peak between the last I/O call and the return of the operation
}

pub fn dec_once(ctx: &Ctx, scn: &Value, f: Source, expect: Expect, kseed: u64, wrong_key: bool) -> DecOut {
    let api = jstr(scn, "api");
    let cs = ju64_or(scn, "cs", 65536);
    let aad = jstr_or(scn, "aad", "key");
    let store = scn.get("store").and_then(|x| x.as_bool()).unwrap_or(true);
    let (rs, ws, fs) = scripts(scn, ctx.seed ^ kseed ^ 0x77);
    let limit = ju64_or(scn, "evlimit", 100_000 + 8 * f.len()) as usize;
    let log = new_log(limit);
    let mut rd = SReader::new(f, rs, log.clone());
    let mut wr = SWriter::new(store, expect, ws, fs, log.clone());
    let rseed = ju64_or(scn, "rseed", 1);
    let k = keyset(ctx.seed, kseed, if wrong_key { rseed + 1000 } else { rseed });
    let r_priv = PrivateKey::try_from(&k.r_priv[..]).unwrap();
    let r_pub = PublicKey::try_from(&k.r_pub[..]).unwrap();
    let ks = keyset(ctx.seed, kseed, rseed);
    let mut pw = password(ctx.seed, kseed, scn);
    if wrong_key {
        if let Some(h) = scn.get("wrong_password_hex").and_then(|x| x.as_str()) {
            pw = unhex(h);
        } else {
            pw.push(b'x');
        }
    }
    let ckey = if wrong_key { chunk_key(ctx.seed, kseed + 1000) } else { chunk_key(ctx.seed, kseed) };
    let prefix = spec_file(ctx, "chunks", aad, kseed, scn).prefix;
    let mut sender_ok = true;
    alloc::reset();
    alloc::enable(true);
    let r = catch_unwind(AssertUnwindSafe(|| -> &'static str {
        match api {
            "chunks" => dec_res(&verif_decrypt_chunks(&mut rd, &mut wr, &ckey, &prefix, cs as u32)),
            "key" => {
                let r = key_decrypt(&mut rd, &mut wr, &r_priv, &r_pub, AsymFileFormat::V1);
                if let Ok(pk) = &r {
                    sender_ok = pk.as_bytes() == &ks.s_pub[..];
                }
                dec_res(&r)
            }
            "pass" => dec_res(&pass_decrypt(&mut rd, &mut wr, &pw, PassFileFormat::V1)),
            _ => panic!("api"),
        }
    }));
    let tail_heap = alloc::take_peak();
    alloc::enable(false);
    let res = match r {
        Ok(x) => x,
        Err(_) => "panic",
    };
    let l = log.borrow();
    DecOut {
        res,
        sender_ok,
        events: l.events.clone(),
        sink: wr.store.take(),
        consumed: l.consumed,
        accepted: l.accepted,
        eof_reads: l.eof_reads,
        overflow: l.overflow,
        late: l.late_events,
        tail_heap,
    }
}

/// "stale_fill": look (over key seeds) for an authentic file whose LAST byte is what a decoder that reuses a
/// zero-initialised record buffer would find in the buffer anyway - zero ("zero"), or the byte at the same buffer offset of
/// the previous record ("prev") - and cut that byte off.  Such a prefix must be rejected like every other.
fn stale_fill_variant(ctx: &Ctx, scn: &Value) -> Value {
    let mode = match scn.get("stale_fill").and_then(|x| x.as_str()) {
        Some(m) => m.to_string(),
        None => return scn.clone(),
    };
    let api = jstr(scn, "api");
    let aad = jstr_or(scn, "aad", "key");
    let mut s = scn.clone();
    let hsrc = ju64_or(scn.get("file").expect("file"), "hsrc", 0) as usize;
    let base = ju64_or(&jarr(scn, "srcs")[hsrc], "kseed", 1);
    for t in 0..8000u64 {
        s["srcs"][hsrc]["kseed"] = json!(base + t);
        s["file"]["cut"] = json!(-1);
        let srcs: Vec<SrcFile> = jarr(&s, "srcs").iter().map(|x| build_src(ctx, api, aad, x)).collect();
        let a = assemble(&srcs, s.get("file").unwrap());
        let b = &a.bytes;
        let n = b.len();
        let chunks = &srcs[hsrc].chunks;
        let hit = match mode.as_str() {
            "zero" => b[n - 1] == 0,
            _ => {
                // previous record starts at n - (32 + c_last) - (32 + c_prev); buffer offset of the last byte is c_last + 15
                if chunks.len() < 2 {
                    false
                } else {
                    let cl = chunks[chunks.len() - 1] as usize;
                    let cp = chunks[chunks.len() - 2] as usize;
                    let prev = n - (32 + cl) - (32 + cp);
                    cl + 15 < cp + 16 && b[n - 1] == b[prev + 16 + cl + 15]
                }
            }
        };
        if hit {
            s["file"]["cut"] = json!(n as i64 - 1);
            return s;
        }
    }
    panic!("stale_fill: no suitable file found");
}

pub fn run_dec(ctx: &Ctx, scn: &Value) -> Vec<Value> {
    let owned = stale_fill_variant(ctx, scn);
    let scn = &owned;
    let api = jstr(scn, "api");
    let cs = ju64_or(scn, "cs", 65536);
    let aad = jstr_or(scn, "aad", "key");
    let srcs: Vec<SrcFile> = jarr(scn, "srcs").iter().map(|s| build_src(ctx, api, aad, s)).collect();
    let file = scn.get("file").expect("file");
    let a = assemble(&srcs, file);
    let hsrc = ju64_or(file, "hsrc", 0) as usize;
    let kseed = ju64_or(&jarr(scn, "srcs")[hsrc], "kseed", 1);
    let wrong_key = scn.get("wrong_key").and_then(|x| x.as_bool()).unwrap_or(false);
    let expect_p = pbytes(srcs[hsrc].pseed, 0, srcs[hsrc].plen);
    let out = dec_once(ctx, scn, Source::Bytes(a.bytes.clone()), Expect::Bytes(expect_p.clone()), kseed, wrong_key);
    let (auth_n, class) = if wrong_key { (0usize, "must_reject") } else { (a.auth_n, a.class) };

    let mut twin = json!({"used": false, "prefix_ok": true, "res": "n/a"});
    if has_faults(scn) {
        let t = dec_once(ctx, &strip_faults(scn), Source::Bytes(a.bytes.clone()), Expect::Bytes(expect_p.clone()), kseed, wrong_key);
        let ok = match (&out.sink, &t.sink) {
            (Some(x), Some(y)) => x.len() <= y.len() && x[..] == y[..x.len()],
            _ => true,
        };
        twin = json!({"used": true, "prefix_ok": ok, "res": t.res});
    }
    // layout of the authentic run: (end offset in F, plaintext length)
    let auth: Vec<Value> = (0..auth_n).map(|j| json!({"end": a.ends[j], "len": a.plens[j]})).collect();
    let mut lines = Vec::new();
    let mut scn_out = file.clone();
    // complete the abstract record fields so that the trace specification can recompute everything
    if let Some(recs) = scn_out.get_mut("recs").and_then(|x| x.as_array_mut()) {
        for r in recs.iter_mut() {
            let s = ju64(r, "src") as usize;
            let idx = ju64(r, "idx") as usize;
            if s >= srcs.len() {
                let lenf = ju64_or(r, "lenf", 0);
                let flagf = ju64_or(r, "flagf", 1);
                *r = json!({"src": 99, "idx": idx, "plen": lenf, "last": flagf, "flagf": flagf, "lenf": lenf, "ctrok": true, "tam": true});
                continue;
            }
            let plen = srcs[s].chunks[idx];
            let last = if idx + 1 == srcs[s].chunks.len() { 1u64 } else { 0 };
            let flagf = ju64_or(r, "flagf", last);
            let lenf = ju64_or(r, "lenf", plen);
            let ctrf = r.get("ctrf").and_then(|x| x.as_u64()).unwrap_or(idx as u64);
            let tam = r.get("tam").and_then(|x| x.as_i64()).unwrap_or(-1) >= 0;
            *r = json!({"src": s, "idx": idx, "plen": plen, "last": last, "flagf": flagf, "lenf": lenf,
                        "ctrok": ctrf == idx as u64, "tam": tam});
        }
    }
    let hdr_ok = jstr_or(file, "hdr", "ok") == "ok" && !wrong_key;
    lines.push(json!({
        "ev":"begin","op":"dec","api":api,"id":scn.get("id").cloned().unwrap_or(json!("")),
        "cs":cs,"H":a.h,"flen":a.bytes.len(),"plen":srcs[hsrc].plen,
        "class":class,"auth":auth,
        "scn":{"hdrok":hdr_ok,"hsrc":hsrc,"recs":scn_out.get("recs").cloned().unwrap_or(json!([])),
               "cut":file.get("cut").and_then(|x| x.as_i64()).unwrap_or(-1),"trail":ju64_or(file,"trail",0)},
        "twin":twin,"faults":fault_kinds(scn),"heapk":heap_bound(cs, api),
    }));
    let lag = 2 * (cs + 32);
    let ends = a.ends.clone();
    let plens = a.plens.clone();
    emit_events(&mut lines, &out.events, |_i, e, j| {
        let mut authc = 0u64;
        let mut due = 0u64;
        for k in 0..auth_n {
            if ends[k] <= e.consumed {
                authc += plens[k];
            }
            if (k + 2 < auth_n && ends[k + 2] < e.consumed) || ends[k] + lag < e.consumed {
                due += plens[k];
            }
        }
        j["authc"] = json!(authc);
        j["due"] = json!(due);
    });
    let boundary = {
        let mut s = 0u64;
        let mut ok = out.accepted == 0;
        for k in 0..auth_n {
            s += a.plens[k];
            if s == out.accepted {
                ok = true;
            }
        }
        ok
    };
    lines.push(json!({"ev":"end","heap":out.tail_heap,"res":if out.overflow {"hang"} else {out.res},"cons":out.consumed,"acc":out.accepted,
                      "eofs":out.eof_reads,"late":out.late,"sender_ok":out.sender_ok,"boundary":boundary}));
    lines
}

/// Decryption of a specification-built file of arbitrary size that is never held in
/// memory: the source synthesises header and records on demand from the specification's
/// terms, the sink compares with the generated plaintext and discards (C11).
pub fn run_bigdec(ctx: &Ctx, scn: &Value) -> Vec<Value> {
    let api = jstr(scn, "api");
    let cs = 65536u64;
    let plen = ju64(scn, "plen");
    let chunk = ju64_or(scn, "chunk", 65536);
    let pseed = ju64_or(scn, "pseed", 1);
    let kseed = ju64_or(scn, "kseed", 1);
    let sf = spec_file(ctx, api, jstr_or(scn, "aad", "key"), kseed, scn);
    let h = sf.header.len() as u64;
    let nrec = if plen == 0 { 1 } else { (plen + chunk - 1) / chunk };
    let rec_full = 32 + chunk;
    let last_len = plen - (nrec - 1) * chunk;
    let flen_core = h + (nrec - 1) * rec_full + 32 + last_len;
    // "trail": bytes appended after the final record (generated, never held): the file must be rejected, in constant memory
    let trail = ju64_or(scn, "trail", 0);
    let flen = flen_core + trail;
    let t: *const Templates = &ctx.t;
    let header = sf.header.clone();
    let key = sf.key.clone();
    let prefix = sf.prefix.clone();
    let mut cache: (u64, Vec<u8>) = (u64::MAX, Vec::new());
    let fill = move |pos: u64, buf: &mut [u8]| {
        let mut p = pos;
        let mut o = 0usize;
        while o < buf.len() {
            if p >= flen_core {
                for b in buf[o..].iter_mut() {
                    *b = 0xAA;
                }
                break;
            }
            if p < h {
                buf[o] = header[p as usize];
                p += 1;
                o += 1;
                continue;
            }
            let q = p - h;
            let i = q / rec_full;
            let within = (q % rec_full) as usize;
            if cache.0 != i {
                let lo = i * chunk;
                let hi = std::cmp::min(plen, lo + chunk);
                let pt = pbytes(pseed, lo, hi);
                let last = if i + 1 == nrec { 1 } else { 0 };
                let tt = unsafe { &*t };
                cache = (i, tt.chunk_record(&key, &prefix, i, last, &pt));
            }
            let n = std::cmp::min(buf.len() - o, cache.1.len() - within);
            buf[o..o + n].copy_from_slice(&cache.1[within..within + n]);
            o += n;
            p += n as u64;
        }
    };
    let mut d = scn.clone();
    d["store"] = json!(false);
    // reference peak: the same operation on three chunks
    let heap_ref: i64 = if scn.get("heapref").and_then(|x| x.as_bool()).unwrap_or(false) && plen > 3 * chunk + 1 {
        let mut small = scn.clone();
        small["plen"] = json!(3 * chunk + 1);
        small["trail"] = json!(std::cmp::min(trail, 1000));
        small["heapref"] = json!(false);
        let lines = run_bigdec(ctx, &small);
        lines.iter().filter_map(|l| l.get("heap").and_then(|x| x.as_i64())).max().unwrap_or(0)
    } else {
        -1
    };
    let o = dec_once(ctx, &d, Source::Lazy { len: flen, fill: Box::new(fill) }, Expect::Gen { seed: pseed, len: plen }, kseed, false);
    let mut lines = Vec::new();
    lines.push(json!({
        "ev":"begin","op":"dec","api":api,"id":scn.get("id").cloned().unwrap_or(json!("")),
        "cs":cs,"H":h,"flen":flen,"plen":plen,"class":if trail > 0 { "must_reject" } else { "must_accept" },
        "twin":{"used":false,"prefix_ok":true,"res":"n/a"},"faults":fault_kinds(scn),"heapk":heap_bound(cs, api),
        "heap_ref": heap_ref,
    }));
    let lag = 2 * (cs + 32);
    emit_events(&mut lines, &o.events, |_i, e, j| {
        // number of records whose end <= consumed
        let c = e.consumed;
        let mut n_done = if c < h { 0 } else { std::cmp::min(nrec, (c - h) / rec_full) };
        if c >= flen_core {
            n_done = nrec;
        }
        let authc: u64 = if n_done == nrec { plen } else { n_done * chunk };
        let x = c.saturating_sub(lag + h);
        let cnt = if x == 0 { 0 } else { (x - 1) / rec_full };
        let due = std::cmp::min(cnt, nrec - 1) * chunk;
        j["authc"] = json!(authc);
        j["due"] = json!(due);
    });
    let boundary = o.accepted == plen || o.accepted % chunk == 0;
    lines.push(json!({"ev":"end","heap":o.tail_heap,"res":if o.overflow {"hang"} else {o.res},"cons":o.consumed,"acc":o.accepted,
                      "eofs":o.eof_reads,"late":o.late,"sender_ok":o.sender_ok,"boundary":boundary}));
    lines
}

pub fn run_file(ctx: &Ctx, inp: &str, outp: &str) {
    use std::io::{BufRead, BufReader, BufWriter, Write};
    let f = BufReader::new(std::fs::File::open(inp).expect("open scenarios"));
    let mut o = BufWriter::new(std::fs::File::create(outp).expect("create trace"));
    for line in f.lines() {
        let line = line.unwrap();
        if line.trim().is_empty() {
            continue;
        }
        let scn: Value = serde_json::from_str(&line).expect("scenario json");
        let lines = match jstr(&scn, "op") {
            "enc" => run_enc(ctx, &scn),
            "dec" => run_dec(ctx, &scn),
            "rt" => run_rt(ctx, &scn),
            "bigdec" => run_bigdec(ctx, &scn),
            x => panic!("op {}", x),
        };
        for l in lines {
            writeln!(o, "{}", l).unwrap();
        }
    }
    o.flush().unwrap();
}
