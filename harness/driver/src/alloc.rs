//! Counting global allocator.
//!
//! * live / peak heap in bytes (C11: memory is a monitored field of the trace);
//!   allocations made by the harness itself while `HARNESS` is set are not counted.
//! * watched blocks (C20): when a registered address range is deallocated the
//!   allocator records whether every byte of it was zero at that moment.
use std::alloc::{GlobalAlloc, Layout, System};
use std::sync::atomic::{AtomicBool, AtomicU64, AtomicUsize, Ordering::SeqCst};

pub struct Counting;

static LIVE: AtomicU64 = AtomicU64::new(0);
static PEAK: AtomicU64 = AtomicU64::new(0);
static ALLOCS: AtomicU64 = AtomicU64::new(0);
static MAXREQ: AtomicU64 = AtomicU64::new(0);
static ENABLED: AtomicBool = AtomicBool::new(false);

const NWATCH: usize = 512;
static WATCH_ADDR: [AtomicUsize; NWATCH] = [const { AtomicUsize::new(0) }; NWATCH];
static WATCH_LEN: [AtomicUsize; NWATCH] = [const { AtomicUsize::new(0) }; NWATCH];
// result per slot: 0 = not yet released, 1 = released all-zero, 2 = released with non-zero bytes
static WATCH_RES: [AtomicUsize; NWATCH] = [const { AtomicUsize::new(0) }; NWATCH];
static WATCH_SEQ: [AtomicU64; NWATCH] = [const { AtomicU64::new(0) }; NWATCH];
static SEQ: AtomicU64 = AtomicU64::new(0);

unsafe impl GlobalAlloc for Counting {
    unsafe fn alloc(&self, l: Layout) -> *mut u8 {
        let p = System.alloc(l);
        if ENABLED.load(SeqCst) && !p.is_null() {
            let sz = l.size() as u64;
            let live = LIVE.fetch_add(sz, SeqCst) + sz;
            PEAK.fetch_max(live, SeqCst);
            MAXREQ.fetch_max(sz, SeqCst);
            ALLOCS.fetch_add(1, SeqCst);
        }
        p
    }
    unsafe fn alloc_zeroed(&self, l: Layout) -> *mut u8 {
        let p = System.alloc_zeroed(l);
        if ENABLED.load(SeqCst) && !p.is_null() {
            let sz = l.size() as u64;
            let live = LIVE.fetch_add(sz, SeqCst) + sz;
            PEAK.fetch_max(live, SeqCst);
            MAXREQ.fetch_max(sz, SeqCst);
            ALLOCS.fetch_add(1, SeqCst);
        }
        p
    }
    unsafe fn dealloc(&self, p: *mut u8, l: Layout) {
        check_watch(p, l.size());
        capture(p, l.size());
        if ENABLED.load(SeqCst) {
            // saturating: blocks allocated while disabled may be freed while enabled
            let sz = l.size() as u64;
            let _ = LIVE.fetch_update(SeqCst, SeqCst, |v| Some(v.saturating_sub(sz)));
        }
        System.dealloc(p, l)
    }
    unsafe fn realloc(&self, p: *mut u8, l: Layout, new: usize) -> *mut u8 {
        // a realloc may move the block and free the old one without our dealloc seeing it
        check_watch(p, l.size());
        capture(p, l.size());
        let q = System.realloc(p, l, new);
        if ENABLED.load(SeqCst) && !q.is_null() {
            let old = l.size() as u64;
            let newsz = new as u64;
            if newsz >= old {
                let live = LIVE.fetch_add(newsz - old, SeqCst) + (newsz - old);
                PEAK.fetch_max(live, SeqCst);
                MAXREQ.fetch_max(newsz, SeqCst);
            } else {
                let _ = LIVE.fetch_update(SeqCst, SeqCst, |v| Some(v.saturating_sub(old - newsz)));
            }
        }
        q
    }
}

// ---- capture of released blocks (C20): while CAPTURE is on, the first bytes of every block that is
// released (dealloc, or the old block of a realloc) are copied into a ring, so that the harness can
// afterwards search what was released for secret bytes that were not wiped first.
const NCAP: usize = 512;
const CAPLEN: usize = 96;
static CAPTURE: AtomicBool = AtomicBool::new(false);
static CAP_N: AtomicUsize = AtomicUsize::new(0);
static mut CAP_BUF: [[u8; CAPLEN]; NCAP] = [[0u8; CAPLEN]; NCAP];
static mut CAP_LEN: [usize; NCAP] = [0usize; NCAP];

unsafe fn capture(p: *mut u8, size: usize) {
    if !CAPTURE.load(SeqCst) || size == 0 {
        return;
    }
    let i = CAP_N.fetch_add(1, SeqCst);
    if i >= NCAP {
        return;
    }
    let n = std::cmp::min(size, CAPLEN);
    std::ptr::copy_nonoverlapping(p as *const u8, std::ptr::addr_of_mut!(CAP_BUF[i]) as *mut u8, n);
    CAP_LEN[i] = n;
}

pub fn capture_start() {
    CAP_N.store(0, SeqCst);
    CAPTURE.store(true, SeqCst);
}
pub fn capture_stop() {
    CAPTURE.store(false, SeqCst);
}
/// number of released blocks (captured since capture_start) that contain `needle`
pub fn captured_containing(needle: &[u8]) -> usize {
    let n = std::cmp::min(CAP_N.load(SeqCst), NCAP);
    let mut hits = 0;
    for i in 0..n {
        let (buf, len) = unsafe { (&*std::ptr::addr_of!(CAP_BUF[i]), CAP_LEN[i]) };
        if len >= needle.len() && buf[..len].windows(needle.len()).any(|w| w == needle) {
            hits += 1;
        }
    }
    hits
}
pub fn captured_overflow() -> bool {
    CAP_N.load(SeqCst) > NCAP
}

unsafe fn check_watch(p: *mut u8, size: usize) {
    let a = p as usize;
    for i in 0..NWATCH {
        let wa = WATCH_ADDR[i].load(SeqCst);
        if wa != 0 && wa >= a && wa < a + size.max(1) && WATCH_RES[i].load(SeqCst) == 0 {
            let wl = WATCH_LEN[i].load(SeqCst);
            let n = std::cmp::min(wl, a + size - wa);
            let s = std::slice::from_raw_parts(wa as *const u8, n);
            let zero = s.iter().all(|b| *b == 0);
            WATCH_RES[i].store(if zero { 1 } else { 2 }, SeqCst);
            WATCH_SEQ[i].store(SEQ.fetch_add(1, SeqCst) + 1, SeqCst);
        }
    }
}

pub fn enable(on: bool) {
    ENABLED.store(on, SeqCst);
}
pub fn reset() {
    LIVE.store(0, SeqCst);
    PEAK.store(0, SeqCst);
    ALLOCS.store(0, SeqCst);
    MAXREQ.store(0, SeqCst);
}
pub fn live() -> u64 {
    LIVE.load(SeqCst)
}
/// peak since the last call; resets the peak to the current live value
pub fn take_peak() -> u64 {
    let p = PEAK.load(SeqCst);
    PEAK.store(LIVE.load(SeqCst), SeqCst);
    p
}
pub fn max_request() -> u64 {
    MAXREQ.load(SeqCst)
}

pub fn watch(slot: usize, addr: *const u8, len: usize) {
    WATCH_RES[slot].store(0, SeqCst);
    WATCH_SEQ[slot].store(0, SeqCst);
    WATCH_LEN[slot].store(len, SeqCst);
    WATCH_ADDR[slot].store(addr as usize, SeqCst);
}
pub fn unwatch(slot: usize) {
    WATCH_ADDR[slot].store(0, SeqCst);
}
/// (state, sequence number of the release): 0 not released, 1 released zeroed, 2 released dirty
pub fn watch_result(slot: usize) -> (usize, u64) {
    (WATCH_RES[slot].load(SeqCst), WATCH_SEQ[slot].load(SeqCst))
}
pub fn watch_clear_all() {
    for i in 0..NWATCH {
        WATCH_ADDR[i].store(0, SeqCst);
        WATCH_RES[i].store(0, SeqCst);
    }
}
