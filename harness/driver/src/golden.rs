//! Frozen corpus (C06 c): files written once by the pinned tree must keep decrypting and
//! must parse field by field under the specification's terms.  Also the direct
//! noise_encrypt and counter-nonce checks of C06 / C19.
use crate::noise::{real_decrypt, real_encrypt};
use crate::specread;
use crate::stream::{RecVerifier, SpecFile};
use crate::terms::{Env, Templates};
use crate::util::*;
use kestrel_crypto::{PayloadKey, PrivateKey, PublicKey};
use serde_json::{json, Value};
use std::panic::{catch_unwind, AssertUnwindSafe};

fn plain_of(scn: &Value) -> Vec<u8> {
    if let Some(h) = scn.get("plain_hex").and_then(|x| x.as_str()) {
        return unhex(h);
    }
    pbytes(ju64_or(scn, "pseed", 1), 0, ju64(scn, "plen"))
}

/// Write one corpus file with the real encryptor (run once, by tools/make_golden.py).
pub fn mkgolden(scn: &Value) -> Value {
    let api = jstr(scn, "api");
    let plain = plain_of(scn);
    let reads: Vec<usize> = jarr(scn, "reads").iter().map(|x| x.as_u64().unwrap() as usize).collect();
    struct Chunked<'a> {
        d: &'a [u8],
        reads: Vec<usize>,
        i: usize,
    }
    impl<'a> std::io::Read for Chunked<'a> {
        fn read(&mut self, buf: &mut [u8]) -> std::io::Result<usize> {
            let want = if self.i < self.reads.len() { self.reads[self.i] } else { buf.len() };
            self.i += 1;
            let n = std::cmp::min(std::cmp::min(want, buf.len()), self.d.len());
            buf[..n].copy_from_slice(&self.d[..n]);
            self.d = &self.d[n..];
            Ok(n)
        }
    }
    let mut src = Chunked { d: &plain, reads, i: 0 };
    let mut out = Vec::new();
    match api {
        "key" => {
            let s = PrivateKey::try_from(&unhex(jstr(scn, "s_priv_hex"))[..]).unwrap();
            let sp = s.to_public().unwrap();
            let r = PrivateKey::try_from(&unhex(jstr(scn, "r_priv_hex"))[..]).unwrap();
            let rp = r.to_public().unwrap();
            let e = PrivateKey::try_from(&unhex(jstr(scn, "e_priv_hex"))[..]).unwrap();
            let ep = e.to_public().unwrap();
            let pk = PayloadKey::new(&unhex(jstr(scn, "payload_hex")));
            kestrel_crypto::encrypt::key_encrypt(&mut src, &mut out, &s, &sp, &rp, Some(&e), Some(&ep), Some(&pk), kestrel_crypto::AsymFileFormat::V1).expect("encrypt");
        }
        "pass" => {
            let salt: [u8; 32] = unhex(jstr(scn, "salt_hex")).try_into().unwrap();
            kestrel_crypto::encrypt::pass_encrypt(&mut src, &mut out, &unhex(jstr(scn, "password_hex")), salt, kestrel_crypto::PassFileFormat::V1).expect("encrypt");
        }
        _ => panic!("api"),
    }
    std::fs::write(jstr(scn, "out"), &out).expect("write golden");
    json!({"len": out.len(), "sha256": hex(&kestrel_crypto::sha256(&out))})
}

/// Decrypt a corpus file with the real code and parse it under the specification.
pub fn golden(t: &Templates, scn: &Value) -> Value {
    let api = jstr(scn, "api");
    let file = std::fs::read(jstr(scn, "path")).unwrap_or_else(|e| panic!("golden file {}: {}", jstr(scn, "path"), e));
    let plain = plain_of(scn);
    let mut out = json!({"ev":"golden","id":scn.get("id").cloned().unwrap_or(json!("")),"api":api,
                         "dec":"err","plain_ok":false,"sender_ok":false,"spec_ok":false,"nrecs":0,"flen":file.len()});
    match api {
        "key" => {
            let r_priv = if let Some(h) = scn.get("r_priv_hex").and_then(|x| x.as_str()) {
                unhex(h)
            } else {
                // from a keyring PrivateKey string, unlocked as the specification lays it out
                match specread::unlock_by_spec(t, jstr(scn, "r_locked"), &unhex(jstr(scn, "r_password_hex"))) {
                    Some(k) => k,
                    None => {
                        out["dec"] = json!("unlock_failed");
                        return out;
                    }
                }
            };
            let r_pub = kestrel_crypto::x25519_derive_public(&r_priv).unwrap();
            let (dec, sender, got) = real_decrypt(&file, &r_priv, &r_pub);
            out["dec"] = json!(dec);
            out["plain_ok"] = json!(got == plain);
            let want_sender = unhex(jstr(scn, "s_pub_hex"));
            out["sender_ok"] = json!(sender == want_sender);
            if file.len() >= 132 {
                if let Some(o) = specread::open_key_header(t, &r_priv, &r_pub, &file[..132]) {
                    let sf = SpecFile { header: file[..132].to_vec(), key: o.file_key.clone(), prefix: t.must("key_prefix", &Env::new()) };
                    let mut v = RecVerifier::new(t, &sf, 65536, 0, plain.len() as u64);
                    v.plain = Some(plain.clone());
                    v.feed(&file);
                    let legal = v.residue() == 0 && !v.dead && v.covered == plain.len() as u64 && v.recs.iter().all(|r| r.ok && r.ctrok)
                        && v.recs.last().map(|r| r.last == 1 && r.n == 1).unwrap_or(false);
                    out["spec_ok"] = json!(legal && o.sender_pub == want_sender);
                    out["nrecs"] = json!(v.nrecs);
                }
            }
        }
        "pass" => {
            let pw = unhex(jstr(scn, "password_hex"));
            let r = catch_unwind(AssertUnwindSafe(|| {
                let mut o = Vec::new();
                let mut f = &file[..];
                let r = kestrel_crypto::decrypt::pass_decrypt(&mut f, &mut o, &pw, kestrel_crypto::PassFileFormat::V1);
                (r.is_ok(), o)
            }));
            match r {
                Ok((ok, got)) => {
                    out["dec"] = json!(if ok { "ok" } else { "err" });
                    out["plain_ok"] = json!(got == plain);
                    out["sender_ok"] = json!(true);
                }
                Err(_) => out["dec"] = json!("panic"),
            }
            if file.len() >= 36 {
                let env = Env::new().b("password", &pw).b("salt", &file[4..36]);
                let hdr = t.must("pass_header", &env);
                let sf = SpecFile { header: hdr, key: t.must("pass_file_key", &env), prefix: t.must("pass_prefix", &env) };
                let mut v = RecVerifier::new(t, &sf, 65536, 0, plain.len() as u64);
                v.plain = Some(plain.clone());
                v.feed(&file);
                let legal = v.hdr_ok && v.residue() == 0 && !v.dead && v.covered == plain.len() as u64 && v.recs.iter().all(|r| r.ok && r.ctrok)
                    && v.recs.last().map(|r| r.last == 1 && r.n == 1).unwrap_or(false);
                out["spec_ok"] = json!(legal);
                out["nrecs"] = json!(v.nrecs);
            }
        }
        _ => panic!("api"),
    }
    out
}

/// noise_encrypt called directly: message and handshake hash against the terms.
pub fn hh(t: &Templates, seed: u64, scn: &Value) -> Value {
    let mut r = Rng::derive(seed, &format!("hh{}", ju64_or(scn, "k", 0)));
    let s_priv = r.bytes32();
    let r_priv = r.bytes32();
    let e_priv = r.bytes32();
    let payload = r.bytes32();
    let prologue = r.bytes(ju64_or(scn, "prologue_len", 4) as usize);
    let p = |k: &[u8; 32]| kestrel_crypto::x25519_derive_public(k).unwrap();
    let (s_pub, r_pub, e_pub) = (p(&s_priv), p(&r_priv), p(&e_priv));
    let got = catch_unwind(AssertUnwindSafe(|| {
        kestrel_crypto::noise_encrypt(
            &PrivateKey::try_from(&s_priv[..]).unwrap(),
            &PublicKey::try_from(&s_pub[..]).unwrap(),
            &PublicKey::try_from(&r_pub[..]).unwrap(),
            Some(&PrivateKey::try_from(&e_priv[..]).unwrap()),
            Some(&PublicKey::try_from(&e_pub[..]).unwrap()),
            &prologue,
            &PayloadKey::new(&payload),
        )
        .map(|m| (m.ciphertext, m.handshake_hash.to_vec()))
    }));
    let env = Env::new().b("prologue", &prologue).b("s_priv", &s_priv).b("s_pub", &s_pub).b("e_priv", &e_priv).b("e_pub", &e_pub).b("rs", &r_pub).b("payload", &payload);
    let want_msg = t.must("noise_msg_p", &env);
    let want_hh = t.must("noise_hh_p", &env);
    match got {
        Ok(Ok((msg, h))) => json!({"ev":"hh","id":scn.get("id").cloned().unwrap_or(json!("")),"res":"ok","same_msg":msg == want_msg,"same_hh":h == want_hh,"len":msg.len()}),
        Ok(Err(_)) => json!({"ev":"hh","id":scn.get("id").cloned().unwrap_or(json!("")),"res":"err","same_msg":false,"same_hh":false,"len":0}),
        Err(_) => json!({"ev":"hh","id":scn.get("id").cloned().unwrap_or(json!("")),"res":"panic","same_msg":false,"same_hh":false,"len":0}),
    }
}

/// The counter-nonce AEAD (hook) against Aead(key, NonceBytes(ctr), ad, pt) for counters over
/// the whole 64-bit range.
pub fn nonce(t: &Templates, seed: u64, scn: &Value) -> Value {
    let ctr: u64 = jstr(scn, "ctr").parse().expect("ctr");
    let mut r = Rng::derive(seed, "nonce");
    let key = r.bytes32();
    let ad = r.bytes(ju64_or(scn, "adlen", 5) as usize);
    let pt = r.bytes(ju64_or(scn, "ptlen", 20) as usize);
    let got = catch_unwind(AssertUnwindSafe(|| kestrel_crypto::verif_chapoly_noise_encrypt(&key, ctr, &ad, &pt)));
    let n = t.must("nonce", &Env::new().n("ctr", ctr));
    let want = kestrel_crypto::chapoly_encrypt_ietf(&key, &n, &pt, &ad);
    let (res, same, opens) = match got {
        Ok(c) => {
            let o = catch_unwind(AssertUnwindSafe(|| kestrel_crypto::verif_chapoly_noise_decrypt(&key, ctr, &ad, &want)));
            ("ok", c == want, matches!(o, Ok(Ok(ref p)) if *p == pt))
        }
        Err(_) => ("panic", false, false),
    };
    json!({"ev":"nonce","id":scn.get("id").cloned().unwrap_or(json!("")),"ctr":jstr(scn,"ctr"),"res":res,"same":same,"opens":opens,
           "nonce_hex":hex(&n)})
}

#[allow(dead_code)]
fn unused(_: &[u8]) -> Result<Vec<u8>, &'static str> {
    real_encrypt(&[], &[0; 32], &[0; 32], &[0; 32], &[0; 32], &[0; 32], &[0; 32])
}
