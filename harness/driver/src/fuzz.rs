//! C09: untrusted bytes at every input surface, under catch_unwind and the counting
//! allocator.  The driver only runs and reports; Trace_Fuzz.tla judges.
use crate::alloc;
#[cfg(feature = "cli_private")]
use crate::keyring::{EncodedPk, EncodedSk, Keyring};
use crate::terms::{Env, Templates};
use crate::util::*;
use kestrel_crypto::{AsymFileFormat, PassFileFormat, PrivateKey, PublicKey};
use serde_json::{json, Value};
use std::panic::{catch_unwind, AssertUnwindSafe};

struct Base {
    r_priv: [u8; 32],
    r_pub: Vec<u8>,
    key_file: Vec<u8>,
    pass_file: Vec<u8>,
    chunk_stream: Vec<u8>,
    chunk_key: [u8; 32],
    locked: String,
    pub_enc: String,
    keyring: String,
}

fn base(t: &Templates, seed: u64) -> Base {
    let r_priv = crate::noise::priv_of(seed, "fuzz-r");
    let r_pub = kestrel_crypto::x25519_derive_public(&r_priv).unwrap();
    let s_priv = crate::noise::priv_of(seed, "fuzz-s");
    let s_pub = kestrel_crypto::x25519_derive_public(&s_priv).unwrap();
    let e_priv = crate::noise::priv_of(seed, "fuzz-e");
    let e_pub = kestrel_crypto::x25519_derive_public(&e_priv).unwrap();
    let payload = crate::noise::priv_of(seed, "fuzz-p");
    let env = Env::new().b("s_priv", &s_priv).b("s_pub", &s_pub).b("e_priv", &e_priv).b("e_pub", &e_pub).b("rs", &r_pub).b("payload", &payload);
    let mut key_file = t.must("key_header", &env);
    let fk = t.must("key_file_key", &env);
    let p = pbytes(5, 0, 40);
    key_file.extend_from_slice(&t.chunk_record(&fk, &[], 0, 0, &p[..25]));
    key_file.extend_from_slice(&t.chunk_record(&fk, &[], 1, 1, &p[25..]));
    let salt = crate::noise::priv_of(seed, "fuzz-salt");
    let penv = Env::new().b("password", b"fuzz").b("salt", &salt);
    let mut pass_file = t.must("pass_header", &penv);
    let pk = t.must("pass_file_key", &penv);
    let pp = t.must("pass_prefix", &penv);
    pass_file.extend_from_slice(&t.chunk_record(&pk, &pp, 0, 1, &p[..30]));
    let chunk_key = crate::noise::priv_of(seed, "fuzz-ck");
    let mut chunk_stream = t.chunk_record(&chunk_key, &[], 0, 0, &p[..8]);
    chunk_stream.extend_from_slice(&t.chunk_record(&chunk_key, &[], 1, 1, &p[8..12]));
    let locked = String::from_utf8(t.must("locked_key", &Env::new().b("sk", &s_priv).b("password", b"fuzz").b("salt", &salt))).unwrap();
    let pub_enc = String::from_utf8(t.must("encoded_pub", &Env::new().b("pk", &s_pub))).unwrap();
    let keyring = format!("[Key]\nName = fuzz\nPublicKey = {}\nPrivateKey = {}\n", pub_enc, locked);
    Base { r_priv, r_pub, key_file, pass_file, chunk_stream, chunk_key, locked, pub_enc, keyring }
}

fn make_input(b: &Base, seed: u64, scn: &Value) -> Vec<u8> {
    let surface = jstr(scn, "surface");
    let kind = jstr(scn, "kind");
    let n = ju64_or(scn, "n", 0) as usize;
    let k = ju64_or(scn, "k", 0);
    let mut r = Rng::derive(seed, &format!("fuzz-{}-{}-{}-{}", surface, kind, n, k));
    let valid: Vec<u8> = match surface {
        "key_decrypt" => b.key_file.clone(),
        "pass_decrypt" => b.pass_file.clone(),
        "noise_decrypt" => b.key_file[4..132].to_vec(),
        "dec_chunks" => b.chunk_stream.clone(),
        "aead_open" => b.key_file[84..132].to_vec(),
        "encoded_pk" => b.pub_enc.clone().into_bytes(),
        "encoded_sk" => b.locked.clone().into_bytes(),
        "keyring" => b.keyring.clone().into_bytes(),
        _ => vec![],
    };
    match kind {
        "random" => r.bytes(n),
        "zeros" => vec![0u8; n],
        "prefix" => valid[..std::cmp::min(n, valid.len())].to_vec(),
        "prefix_then_random" => {
            let mut v = valid[..std::cmp::min(n, valid.len())].to_vec();
            v.extend_from_slice(&r.bytes(k as usize));
            v
        }
        "extend" => {
            let mut v = valid.clone();
            v.extend_from_slice(&r.bytes(n));
            v
        }
        "mutate" => {
            let mut v = valid.clone();
            for _ in 0..std::cmp::max(1, n) {
                if v.is_empty() {
                    break;
                }
                let i = r.below(v.len() as u64) as usize;
                v[i] = r.next() as u8;
            }
            v
        }
        "insert" => {
            // one foreign character at position n of the valid text (blank, tab, line ends, '=', NUL, non-ASCII, url-safe)
            // k >= 9: characters of 3 and 4 bytes, no-break space, byte-order mark
            let specials: [&str; 13] = [" ", "\t", "\n", "\r", "=", "\0", "\u{e9}", "-", "  ", "\u{2013}", "\u{1f511}", "\u{a0}", "\u{feff}"];
            let mut v = valid.clone();
            let pos = std::cmp::min(n, v.len());
            let ins = specials[(k % 13) as usize].as_bytes();
            v.splice(pos..pos, ins.iter().cloned());
            v
        }
        "lenfield" => {
            // hostile length field in the first record after the header
            let h = match surface {
                "key_decrypt" => 132,
                "pass_decrypt" => 36,
                _ => 0,
            };
            let mut v = valid.clone();
            let vals: [u32; 8] = [0xFFFF_FFFF, 65537, 65536, 65535, 0x8000_0000, 26, 1000, 0];
            let x = vals[(n % 8) as usize];
            if v.len() >= h + 16 {
                v[h + 12..h + 16].copy_from_slice(&x.to_be_bytes());
            }
            if k == 1 {
                v.truncate(h + 16);
            }
            v
        }
        "b64" => <ct_codecs::Base64 as ct_codecs::Encoder>::encode_to_string(r.bytes(n)).map(|s| s.into_bytes()).unwrap_or_default(),
        "ascii" => (0..n).map(|_| (32 + r.below(95)) as u8).collect(),
        "utf8" => {
            let mut s = String::new();
            while s.len() < n {
                s.push(char::from_u32(r.below(0x2FFF) as u32 + 1).unwrap_or('x'));
            }
            s.into_bytes()
        }
        "lines" => {
            // random keyring-like text
            let pieces = ["[Key]", "Name = ", "PublicKey = ", "PrivateKey = ", "#", "=", "\n", "\r\n", "\t", " ", "x", "\u{e9}", "Name", "[Key] junk"];
            let mut s = String::new();
            for _ in 0..n {
                s.push_str(pieces[r.below(pieces.len() as u64) as usize]);
                if r.below(3) == 0 {
                    s.push_str(&b.pub_enc);
                }
                if r.below(2) == 0 {
                    s.push('\n');
                }
            }
            s.into_bytes()
        }
        x => panic!("fuzz kind {}", x),
    }
}

pub fn run_fuzz(b: &BaseBox, seed: u64, scn: &Value) -> Value {
    let b = &b.0;
    let surface = jstr(scn, "surface");
    let input = make_input(b, seed, scn);
    let r_priv = PrivateKey::try_from(&b.r_priv[..]).unwrap();
    let r_pub = PublicKey::try_from(&b.r_pub[..]).unwrap();
    alloc::reset();
    alloc::enable(true);
    let t0 = std::time::Instant::now();
    let r = catch_unwind(AssertUnwindSafe(|| -> bool {
        match surface {
            "key_decrypt" => {
                let mut out = Vec::new();
                kestrel_crypto::decrypt::key_decrypt(&mut &input[..], &mut out, &r_priv, &r_pub, AsymFileFormat::V1).is_ok()
            }
            "pass_decrypt" => {
                let mut out = Vec::new();
                kestrel_crypto::decrypt::pass_decrypt(&mut &input[..], &mut out, b"fuzz", PassFileFormat::V1).is_ok()
            }
            "dec_chunks" => {
                let mut out = Vec::new();
                kestrel_crypto::decrypt::verif_decrypt_chunks(&mut &input[..], &mut out, &b.chunk_key, &[], 8).is_ok()
            }
            "noise_decrypt" => kestrel_crypto::noise_decrypt(&r_priv, &r_pub, &[0x65, 0x67, 0x6b, 0x10], &input).is_ok(),
            "aead_open" => kestrel_crypto::chapoly_decrypt_ietf(&b.chunk_key, &[0u8; 12], &input, b"ad").is_ok(),
            "file_format" => kestrel_crypto::decrypt::valid_file_format(&input).is_ok(),
            #[cfg(feature = "cli_private")]
            "encoded_pk" => match std::str::from_utf8(&input) {
                Ok(s) => match EncodedPk::try_from(s) {
                    Ok(e) => Keyring::decode_public_key(&e).is_ok(),
                    Err(_) => false,
                },
                Err(_) => false,
            },
            #[cfg(feature = "cli_private")]
            "encoded_sk" => match std::str::from_utf8(&input) {
                Ok(s) => match EncodedSk::try_from(s) {
                    Ok(e) => Keyring::unlock_private_key(&e, b"fuzz").is_ok(),
                    Err(_) => false,
                },
                Err(_) => false,
            },
            #[cfg(feature = "cli_private")]
            "keyring" => match std::str::from_utf8(&input) {
                Ok(s) => Keyring::new(s).is_ok(),
                Err(_) => false,
            },
            x => panic!("surface {}", x),
        }
    }));
    let ms = t0.elapsed().as_millis() as u64;
    alloc::enable(false);
    let heap = alloc::take_peak();
    let maxreq = alloc::max_request();
    let res = match r {
        Ok(true) => "ok",
        Ok(false) => "err",
        Err(_) => "panic",
    };
    json!({"ev":"fuzz","id":scn.get("id").cloned().unwrap_or(json!("")),"surface":surface,"kind":jstr(scn,"kind"),"len":input.len(),
           "res":res,"heap":heap,"maxreq":maxreq,"ms":ms})
}

pub struct BaseBox(Base);

pub fn run_file(t: &Templates, seed: u64, inp: &str, outp: &str) {
    use std::io::{BufRead, BufReader, BufWriter, Write};
    let f = BufReader::new(std::fs::File::open(inp).expect("open scenarios"));
    let mut o = BufWriter::new(std::fs::File::create(outp).expect("create out"));
    let b = BaseBox(base(t, seed));
    for line in f.lines() {
        let line = line.unwrap();
        if line.trim().is_empty() {
            continue;
        }
        let scn: Value = serde_json::from_str(&line).expect("scenario json");
        let v = run_fuzz(&b, seed, &scn);
        writeln!(o, "{}", v).unwrap();
        o.flush().unwrap();
    }
}
