//! Small helpers: hex, deterministic PRNG, JSON access.
use serde_json::Value;

pub fn hex(b: &[u8]) -> String {
    let mut s = String::with_capacity(b.len() * 2);
    for x in b {
        s.push_str(&format!("{:02x}", x));
    }
    s
}

pub fn unhex(s: &str) -> Vec<u8> {
    let s = s.as_bytes();
    assert!(s.len() % 2 == 0, "odd hex length");
    let v = |c: u8| -> u8 {
        match c {
            b'0'..=b'9' => c - b'0',
            b'a'..=b'f' => c - b'a' + 10,
            b'A'..=b'F' => c - b'A' + 10,
            _ => panic!("bad hex digit"),
        }
    };
    (0..s.len() / 2).map(|i| v(s[2 * i]) * 16 + v(s[2 * i + 1])).collect()
}

/// splitmix64: everything random in the driver is derived from VERIF_SEED through this.
#[derive(Clone)]
pub struct Rng(pub u64);

impl Rng {
    pub fn new(seed: u64) -> Self {
        Rng(seed ^ 0x9E37_79B9_7F4A_7C15)
    }
    pub fn derive(seed: u64, label: &str) -> Self {
        let mut h: u64 = 0xcbf2_9ce4_8422_2325 ^ seed;
        for b in label.bytes() {
            h ^= b as u64;
            h = h.wrapping_mul(0x1000_0000_01b3);
        }
        let mut r = Rng(h);
        r.next();
        r
    }
    pub fn next(&mut self) -> u64 {
        self.0 = self.0.wrapping_add(0x9E37_79B9_7F4A_7C15);
        let mut z = self.0;
        z = (z ^ (z >> 30)).wrapping_mul(0xBF58_476D_1CE4_E5B9);
        z = (z ^ (z >> 27)).wrapping_mul(0x94D0_49BB_1331_11EB);
        z ^ (z >> 31)
    }
    pub fn below(&mut self, n: u64) -> u64 {
        if n == 0 {
            0
        } else {
            self.next() % n
        }
    }
    pub fn range(&mut self, lo: u64, hi: u64) -> u64 {
        lo + self.below(hi - lo + 1)
    }
    pub fn bytes(&mut self, n: usize) -> Vec<u8> {
        let mut v = Vec::with_capacity(n);
        while v.len() < n {
            let x = self.next().to_le_bytes();
            let k = std::cmp::min(8, n - v.len());
            v.extend_from_slice(&x[..k]);
        }
        v
    }
    pub fn bytes32(&mut self) -> [u8; 32] {
        let v = self.bytes(32);
        let mut a = [0u8; 32];
        a.copy_from_slice(&v);
        a
    }
}

/// Plaintext byte at offset i of the plaintext with seed s (generated, never stored
/// for large inputs).  Not periodic in any chunk size in use.
#[inline]
pub fn pbyte(s: u64, i: u64) -> u8 {
    let z = (i ^ s).wrapping_mul(0x9E37_79B9_7F4A_7C15);
    ((z >> 56) ^ (z >> 24)) as u8
}

pub fn pbytes(s: u64, lo: u64, hi: u64) -> Vec<u8> {
    (lo..hi).map(|i| pbyte(s, i)).collect()
}

pub fn jstr<'a>(v: &'a Value, k: &str) -> &'a str {
    v.get(k).and_then(|x| x.as_str()).unwrap_or_else(|| panic!("scenario field {} (string) missing in {}", k, v))
}
pub fn ju64(v: &Value, k: &str) -> u64 {
    v.get(k).and_then(|x| x.as_u64()).unwrap_or_else(|| panic!("scenario field {} (u64) missing in {}", k, v))
}
pub fn ji64(v: &Value, k: &str) -> i64 {
    v.get(k).and_then(|x| x.as_i64()).unwrap_or_else(|| panic!("scenario field {} (i64) missing in {}", k, v))
}
pub fn jbool(v: &Value, k: &str) -> bool {
    v.get(k).and_then(|x| x.as_bool()).unwrap_or_else(|| panic!("scenario field {} (bool) missing in {}", k, v))
}
pub fn ju64_or(v: &Value, k: &str, d: u64) -> u64 {
    v.get(k).and_then(|x| x.as_u64()).unwrap_or(d)
}
pub fn jstr_or<'a>(v: &'a Value, k: &str, d: &'a str) -> &'a str {
    v.get(k).and_then(|x| x.as_str()).unwrap_or(d)
}
pub fn jarr<'a>(v: &'a Value, k: &str) -> &'a [Value] {
    static EMPTY: Vec<Value> = Vec::new();
    v.get(k).and_then(|x| x.as_array()).map(|a| a.as_slice()).unwrap_or(&EMPTY)
}
