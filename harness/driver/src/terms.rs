//! Term evaluator (binding 3 of DESIGN.md): interprets the byte-layout terms printed
//! by TLC from spec/Terms.tla, WireFormat.tla and NoiseX.tla.  Each primitive symbol is
//! interpreted by the *exported* function of the working tree's kestrel_crypto with the
//! same name; everything else (concatenation, slicing, integer encodings, base64) is
//! plain byte manipulation.  The format itself lives only in the TLA+ modules.
use ct_codecs::{Base64, Encoder};
use serde_json::Value;
use std::collections::HashMap;

#[derive(Default, Clone)]
pub struct Env {
    pub bytes: HashMap<String, Vec<u8>>,
    pub ints: HashMap<String, u64>,
}

impl Env {
    pub fn new() -> Self {
        Default::default()
    }
    pub fn b(mut self, k: &str, v: &[u8]) -> Self {
        self.bytes.insert(k.to_string(), v.to_vec());
        self
    }
    pub fn n(mut self, k: &str, v: u64) -> Self {
        self.ints.insert(k.to_string(), v);
        self
    }
    pub fn set_b(&mut self, k: &str, v: &[u8]) {
        self.bytes.insert(k.to_string(), v.to_vec());
    }
    pub fn set_n(&mut self, k: &str, v: u64) {
        self.ints.insert(k.to_string(), v);
    }
}

#[derive(Debug)]
pub enum EvalError {
    /// a primitive refused its input (e.g. X25519 all-zero output)
    Prim(String),
    /// the term is malformed or mentions an unbound symbol (a tooling problem)
    Bad(String),
}

pub struct Evaluator<'a> {
    env: std::borrow::Cow<'a, Env>,
    memo: HashMap<String, Vec<u8>>,
}

fn arg<'v>(t: &'v Value, i: usize) -> Result<&'v Value, EvalError> {
    t.get("a")
        .and_then(|a| a.get(i))
        .ok_or_else(|| EvalError::Bad(format!("missing argument {} in {}", i, t)))
}

impl<'a> Evaluator<'a> {
    pub fn new(env: &'a Env) -> Self {
        Evaluator { env: std::borrow::Cow::Borrowed(env), memo: HashMap::new() }
    }

    pub fn int(&mut self, t: &Value) -> Result<u64, EvalError> {
        if let Some(n) = t.as_u64() {
            return Ok(n);
        }
        let op = t.get("op").and_then(|x| x.as_str()).ok_or_else(|| EvalError::Bad(format!("int term {}", t)))?;
        match op {
            "nsym" => {
                let name = t.get("v").and_then(|x| x.as_str()).unwrap_or("");
                self.env.ints.get(name).copied().ok_or_else(|| EvalError::Bad(format!("unbound integer {}", name)))
            }
            "nadd" => Ok(self.int(arg(t, 0)?)?.wrapping_add(self.int(arg(t, 1)?)?)),
            "nsub" => Ok(self.int(arg(t, 0)?)?.wrapping_sub(self.int(arg(t, 1)?)?)),
            "lemod" => {
                // the byte string read as a little-endian integer, modulo n
                let b = self.eval(arg(t, 0)?)?;
                let n = self.n(t, "n")? as u128;
                if n == 0 {
                    return Err(EvalError::Bad("lemod 0".into()));
                }
                let mut acc: u128 = 0;
                for x in b.iter().rev() {
                    acc = ((acc << 8) | (*x as u128)) % n;
                }
                Ok(acc as u64)
            }
            _ => Err(EvalError::Bad(format!("int op {}", op))),
        }
    }

    fn n(&mut self, t: &Value, field: &str) -> Result<u64, EvalError> {
        let v = t.get(field).ok_or_else(|| EvalError::Bad(format!("missing {} in {}", field, t)))?;
        self.int(v)
    }

    pub fn eval(&mut self, t: &Value) -> Result<Vec<u8>, EvalError> {
        let op = t.get("op").and_then(|x| x.as_str()).ok_or_else(|| EvalError::Bad(format!("term without op: {}", t)))?;
        // cheap leaves are not memoised
        match op {
            "hex" => return Ok(crate::util::unhex(t.get("v").and_then(|x| x.as_str()).unwrap_or(""))),
            "ascii" => return Ok(t.get("v").and_then(|x| x.as_str()).unwrap_or("").as_bytes().to_vec()),
            "sym" => {
                let name = t.get("v").and_then(|x| x.as_str()).unwrap_or("");
                return self.env.bytes.get(name).cloned().ok_or_else(|| EvalError::Bad(format!("unbound symbol {}", name)));
            }
            "zeros" => {
                let n = self.n(t, "n")?;
                return Ok(vec![0u8; n as usize]);
            }
            "byte" => return Ok(vec![self.n(t, "n")? as u8]),
            "lets" => {
                // sequential bindings; names shadow the environment for the rest of this evaluation
                let binds = t.get("binds").and_then(|x| x.as_array()).ok_or_else(|| EvalError::Bad("lets".into()))?;
                for b in binds {
                    let name = b.get("name").and_then(|x| x.as_str()).ok_or_else(|| EvalError::Bad("lets name".into()))?;
                    let v = self.eval(b.get("val").ok_or_else(|| EvalError::Bad("lets val".into()))?)?;
                    self.env.to_mut().bytes.insert(name.to_string(), v);
                    self.memo.clear();
                }
                return self.eval(arg(t, 0)?);
            }
            "be32" => return Ok((self.n(t, "n")? as u32).to_be_bytes().to_vec()),
            "be64" => return Ok(self.n(t, "n")?.to_be_bytes().to_vec()),
            "le64" => return Ok(self.n(t, "n")?.to_le_bytes().to_vec()),
            "cat" => {
                let mut out = Vec::new();
                let a = t.get("a").and_then(|x| x.as_array()).ok_or_else(|| EvalError::Bad("cat".into()))?;
                for x in a {
                    out.extend_from_slice(&self.eval(x)?);
                }
                return Ok(out);
            }
            _ => {}
        }
        let key = t.to_string();
        if let Some(v) = self.memo.get(&key) {
            return Ok(v.clone());
        }
        let out = match op {
            "slice" => {
                let b = self.eval(arg(t, 0)?)?;
                let lo = self.n(t, "lo")? as usize;
                let hi = self.n(t, "hi")? as usize;
                if lo > hi || hi > b.len() {
                    return Err(EvalError::Bad(format!("slice {}..{} of {} bytes", lo, hi, b.len())));
                }
                b[lo..hi].to_vec()
            }
            "xor" => {
                let a = self.eval(arg(t, 0)?)?;
                let b = self.eval(arg(t, 1)?)?;
                if a.len() != b.len() {
                    return Err(EvalError::Bad(format!("xor of {} and {} bytes", a.len(), b.len())));
                }
                a.iter().zip(b.iter()).map(|(x, y)| x ^ y).collect()
            }
            "salsa" => {
                let b = self.eval(arg(t, 0)?)?;
                if b.len() != 64 {
                    return Err(EvalError::Bad(format!("salsa20/8 of {} bytes", b.len())));
                }
                kestrel_crypto::verif_salsa20_8(&b)
            }
            "select" => {
                let i = self.n(t, "idx")? as usize;
                let a = t.get("a").and_then(|x| x.as_array()).ok_or_else(|| EvalError::Bad("select".into()))?;
                let x = a.get(i).ok_or_else(|| EvalError::Bad(format!("select {} of {}", i, a.len())))?;
                self.eval(x)?
            }
            "xorbyte" => {
                let b = self.eval(arg(t, 0)?)?;
                let x = self.n(t, "n")? as u8;
                b.iter().map(|y| y ^ x).collect()
            }
            "padzero" => {
                let mut b = self.eval(arg(t, 0)?)?;
                let n = self.n(t, "n")? as usize;
                if b.len() > n {
                    return Err(EvalError::Bad("padzero: longer than target".into()));
                }
                b.resize(n, 0);
                b
            }
            "b64" => {
                let b = self.eval(arg(t, 0)?)?;
                Base64::encode_to_string(&b).map_err(|_| EvalError::Bad("b64".into()))?.into_bytes()
            }
            "sha256" => kestrel_crypto::sha256(&self.eval(arg(t, 0)?)?),
            "hmac" => {
                let k = self.eval(arg(t, 0)?)?;
                let d = self.eval(arg(t, 1)?)?;
                kestrel_crypto::hmac_sha256(&k, &d)
            }
            "x25519" => {
                let k = self.eval(arg(t, 0)?)?;
                let u = self.eval(arg(t, 1)?)?;
                if k.len() != 32 || u.len() != 32 {
                    return Err(EvalError::Bad("x25519 operand length".into()));
                }
                kestrel_crypto::x25519(&k, &u).map_err(|_| EvalError::Prim("x25519 all-zero".into()))?
            }
            "pub" => {
                let k = self.eval(arg(t, 0)?)?;
                if k.len() != 32 {
                    return Err(EvalError::Bad("pub operand length".into()));
                }
                kestrel_crypto::x25519_derive_public(&k).map_err(|_| EvalError::Prim("derive_public".into()))?
            }
            "aead" => {
                let k = self.eval(arg(t, 0)?)?;
                let n = self.eval(arg(t, 1)?)?;
                let ad = self.eval(arg(t, 2)?)?;
                let pt = self.eval(arg(t, 3)?)?;
                if k.len() != 32 || n.len() != 12 {
                    return Err(EvalError::Bad(format!("aead key {} nonce {}", k.len(), n.len())));
                }
                kestrel_crypto::chapoly_encrypt_ietf(&k, &n, &pt, &ad)
            }
            "hkdf" => {
                let salt = self.eval(arg(t, 0)?)?;
                let ikm = self.eval(arg(t, 1)?)?;
                let info = self.eval(arg(t, 2)?)?;
                let n = self.n(t, "n")? as usize;
                kestrel_crypto::hkdf_sha256(&salt, &ikm, &info, n)
            }
            "scrypt" => {
                let pw = self.eval(arg(t, 0)?)?;
                let salt = self.eval(arg(t, 1)?)?;
                let nn = self.n(t, "N")? as u32;
                let r = self.n(t, "r")? as u32;
                let p = self.n(t, "p")? as u32;
                let n = self.n(t, "n")? as usize;
                scrypt_cached(&pw, &salt, nn, r, p, n)
            }
            _ => return Err(EvalError::Bad(format!("unknown op {}", op))),
        };
        self.memo.insert(key, out.clone());
        Ok(out)
    }
}

thread_local! {
    static SCRYPT_CACHE: std::cell::RefCell<HashMap<Vec<u8>, Vec<u8>>> = std::cell::RefCell::new(HashMap::new());
}

/// scrypt is the expensive symbol (about 60 ms at the production parameters); identical
/// evaluations are cached for the life of the process.
pub fn scrypt_cached(pw: &[u8], salt: &[u8], n: u32, r: u32, p: u32, len: usize) -> Vec<u8> {
    let mut key = Vec::new();
    key.extend_from_slice(&(pw.len() as u64).to_le_bytes());
    key.extend_from_slice(pw);
    key.extend_from_slice(&(salt.len() as u64).to_le_bytes());
    key.extend_from_slice(salt);
    key.extend_from_slice(&n.to_le_bytes());
    key.extend_from_slice(&r.to_le_bytes());
    key.extend_from_slice(&p.to_le_bytes());
    key.extend_from_slice(&(len as u64).to_le_bytes());
    if let Some(v) = SCRYPT_CACHE.with(|c| c.borrow().get(&key).cloned()) {
        return v;
    }
    let v = kestrel_crypto::scrypt(pw, salt, n, r, p, len);
    SCRYPT_CACHE.with(|c| c.borrow_mut().insert(key, v.clone()));
    v
}

/// The templates printed by spec/MC_Terms.tla.
pub struct Templates(pub Value);

impl Templates {
    pub fn load(path: &str) -> Self {
        let s = std::fs::read_to_string(path).unwrap_or_else(|e| panic!("cannot read templates {}: {}", path, e));
        Templates(serde_json::from_str(&s).expect("templates JSON"))
    }
    pub fn get(&self, name: &str) -> &Value {
        self.0.get(name).unwrap_or_else(|| panic!("template {} missing", name))
    }
    pub fn eval(&self, name: &str, env: &Env) -> Result<Vec<u8>, EvalError> {
        Evaluator::new(env).eval(self.get(name))
    }
    pub fn must(&self, name: &str, env: &Env) -> Vec<u8> {
        match self.eval(name, env) {
            Ok(v) => v,
            Err(e) => panic!("template {}: {:?}", name, e),
        }
    }
    /// One chunk record as the specification prescribes it.
    pub fn chunk_record(&self, key: &[u8], prefix: &[u8], ctr: u64, last: u64, pt: &[u8]) -> Vec<u8> {
        let env = Env::new().b("key", key).b("prefix", prefix).b("pt", pt).n("ctr", ctr).n("last", last).n("len", pt.len() as u64);
        self.must("chunk_record", &env)
    }
}
