//! kdrv - the harness driver.  Subcommands read scenario lines (JSON, usually printed by
//! TLC from a behaviour of the specification), run them against the code of the working
//! tree and write traces / observations as JSON lines.
#![allow(dead_code)]

mod alloc;
// The modules of the command-line tool that are private to it (keyring parser, key locking) are compiled only into the
// second binary, krdrv (package krdriver = these sources with the feature on), so that a refactoring of those private
// interfaces can break only the checks that reach into them, not every check.
#[cfg(feature = "cli_private")]
#[path = "/repo/src/cli/src/errors.rs"]
mod errors;
mod fuzz;
#[cfg(feature = "cli_private")]
#[path = "/repo/src/cli/src/keyring.rs"]
mod keyring;
#[cfg(feature = "cli_private")]
mod kr;
mod golden;
mod noise;
mod prims;
mod sio;
mod specread;
mod stream;
mod terms;
mod util;

#[global_allocator]
static GLOBAL: alloc::Counting = alloc::Counting;

use std::sync::Mutex;

static LAST_PANIC: Mutex<String> = Mutex::new(String::new());

fn seed() -> u64 {
    std::env::var("VERIF_SEED").ok().and_then(|s| s.parse::<u64>().ok()).unwrap_or(1)
}

fn usage() -> ! {
    eprintln!("usage: kdrv stream <templates.json> <scenarios.jsonl> <trace.ndjson>");
    std::process::exit(2)
}

fn real_main() {
    let args: Vec<String> = std::env::args().collect();
    if args.len() < 2 {
        usage();
    }
    match args[1].as_str() {
        "stream" => {
            if args.len() != 5 {
                usage();
            }
            let ctx = stream::Ctx { t: terms::Templates::load(&args[2]), seed: seed() };
            stream::run_file(&ctx, &args[3], &args[4]);
        }
        "fuzz" => {
            if args.len() != 5 {
                usage();
            }
            let t = terms::Templates::load(&args[2]);
            fuzz::run_file(&t, seed(), &args[3], &args[4]);
        }
        "prims" => {
            if args.len() != 5 {
                usage();
            }
            let t = terms::Templates::load(&args[2]);
            prims::run_file(&t, seed(), &args[3], &args[4]);
        }
        #[cfg(feature = "cli_private")]
        "kr" => {
            if args.len() != 5 {
                usage();
            }
            let t = terms::Templates::load(&args[2]);
            kr::run_file(&t, seed(), &args[3], &args[4]);
        }
        "noise" => {
            if args.len() != 5 {
                usage();
            }
            let t = terms::Templates::load(&args[2]);
            noise::run_file(&t, seed(), &args[3], &args[4]);
        }
        _ => usage(),
    }
}

fn main() {
    std::panic::set_hook(Box::new(|info| {
        if let Ok(mut g) = LAST_PANIC.lock() {
            *g = format!("{}", info);
        }
    }));
    let r = std::panic::catch_unwind(real_main);
    if r.is_err() {
        eprintln!("kdrv: internal error: {}", LAST_PANIC.lock().map(|g| g.clone()).unwrap_or_default());
        std::process::exit(2);
    }
}
