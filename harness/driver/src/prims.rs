//! Primitive engine: C18 (scrypt: laws, C ABI frame), C19 (axioms of the symbolic algebra
//! against the exported primitives; RFC definitions that are structure over another
//! exported primitive, as terms), C20 (erasure programs).
use crate::alloc;
use crate::terms::{Env, Evaluator, Templates};
use crate::util::*;
use kestrel_crypto::{PayloadKey, PrivateKey};
use serde_json::{json, Value};
use std::panic::{catch_unwind, AssertUnwindSafe};

type ScryptFn = unsafe extern "C" fn(*const u8, usize, *const u8, usize, u32, u32, u32, *mut u8, usize);

fn load_ffi() -> ScryptFn {
    let path = std::env::var("VERIF_FFI_LIB").expect("VERIF_FFI_LIB");
    let c = std::ffi::CString::new(path.clone()).unwrap();
    unsafe {
        let h = libc::dlopen(c.as_ptr(), libc::RTLD_NOW | libc::RTLD_LOCAL);
        if h.is_null() {
            panic!("dlopen {} failed", path);
        }
        let s = libc::dlsym(h, b"scrypt\0".as_ptr() as *const libc::c_char);
        if s.is_null() {
            panic!("dlsym scrypt failed");
        }
        std::mem::transmute::<*mut libc::c_void, ScryptFn>(s)
    }
}

pub fn ffi_call(f: ScryptFn, seed: u64, scn: &Value) -> Value {
    let c = scn.get("call").expect("call");
    let (pwlen, saltlen) = (ju64(c, "pwlen") as usize, ju64(c, "saltlen") as usize);
    let (n, r, p, dklen) = (ju64(c, "n") as u32, ju64(c, "r") as u32, ju64(c, "p") as u32, ju64(c, "dklen") as usize);
    let mut rng = Rng::derive(seed, &format!("ffi{}", scn.get("id").map(|x| x.to_string()).unwrap_or_default()));
    let pw = rng.bytes(pwlen);
    let salt = rng.bytes(saltlen);
    let pw_copy = pw.clone();
    let salt_copy = salt.clone();
    const G: usize = 64;
    let mut buf = vec![0xA5u8; G + dklen + G];
    unsafe {
        f(pw.as_ptr(), pwlen, salt.as_ptr(), saltlen, n, r, p, buf.as_mut_ptr().add(G), dklen);
    }
    let want = kestrel_crypto::scrypt(&pw_copy, &salt_copy, n, r, p, dklen);
    let guards_ok = buf[..G].iter().all(|b| *b == 0xA5) && buf[G + dklen..].iter().all(|b| *b == 0xA5);
    let inputs_ok = pw == pw_copy && salt == salt_copy;
    let same = buf[G..G + dklen] == want[..];
    // an argument swap or a dropped parameter would make the C function agree with some other call
    json!({"ev":"ffi","id":scn.get("id").cloned().unwrap_or(json!("")),"call":c.clone(),"same":same,"guards_ok":guards_ok,"inputs_ok":inputs_ok,
           "out_hex":hex(&buf[G..G + std::cmp::min(dklen, 16)])})
}

fn short_ok_len(dklen: usize) -> bool {
    dklen >= 8
}

pub fn scrypt_axiom(seed: u64, scn: &Value) -> Value {
    let c = scn.get("call").expect("call");
    let (pwlen, saltlen) = (ju64(c, "pwlen") as usize, ju64(c, "saltlen") as usize);
    let (n, r, p, dklen) = (ju64(c, "n") as u32, ju64(c, "r") as u32, ju64(c, "p") as u32, ju64(c, "dklen") as usize);
    let mut rng = Rng::derive(seed, &format!("ax{}", scn.get("id").map(|x| x.to_string()).unwrap_or_default()));
    // HMAC-inequivalent variations: change the first byte rather than append zeros
    let pw = { let mut v = rng.bytes(pwlen); if !v.is_empty() { v[0] |= 1; } v };
    let salt = rng.bytes(saltlen);
    let base = kestrel_crypto::scrypt(&pw, &salt, n, r, p, dklen);
    let again = kestrel_crypto::scrypt(&pw, &salt, n, r, p, dklen);
    let mut pw2 = pw.clone();
    pw2.push(0x31);
    let mut salt2 = salt.clone();
    salt2.push(0x32);
    let d_pw = kestrel_crypto::scrypt(&pw2, &salt, n, r, p, dklen) != base;
    let d_salt = kestrel_crypto::scrypt(&pw, &salt2, n, r, p, dklen) != base;
    let d_n = kestrel_crypto::scrypt(&pw, &salt, n * 2, r, p, dklen) != base;
    let d_r = kestrel_crypto::scrypt(&pw, &salt, n, r + 1, p, dklen) != base;
    let d_p = kestrel_crypto::scrypt(&pw, &salt, n, r, p + 1, dklen) != base;
    let longer = kestrel_crypto::scrypt(&pw, &salt, n, r, p, dklen + 37);
    // the password enters only as an HMAC-SHA256 key (RFC 7914 -> PBKDF2 -> HMAC, RFC 2104): a password
    // longer than the 64-byte block is interchangeable with its digest, one of at most 64 bytes is NOT
    let digest = kestrel_crypto::sha256(&pw);
    let with_digest = kestrel_crypto::scrypt(&digest, &salt, n, r, p, dklen);
    let hmac_norm = if pw.len() > 64 { with_digest == base } else { with_digest != base || !short_ok_len(dklen) };
    let short_ok = dklen >= 8; // one-byte outputs collide with probability 2^-8: only judge >= 8 bytes
    json!({"ev":"scrypt_axiom","id":scn.get("id").cloned().unwrap_or(json!("")),"call":c.clone(),"len_ok":base.len() == dklen,
           "deterministic":base == again,"pw_sensitive":d_pw || !short_ok,"salt_sensitive":d_salt || !short_ok,
           "n_sensitive":d_n || !short_ok,"r_sensitive":d_r || !short_ok,"p_sensitive":d_p || !short_ok,
           "prefix":longer[..dklen] == base[..],"hmac_norm":hmac_norm})
}

/// A structural RFC definition (term over another exported primitive) against the exported function.
pub fn rfc_term(seed: u64, scn: &Value) -> Value {
    let kind = jstr(scn, "kind");
    let c = scn.get("c").expect("c");
    let mut rng = Rng::derive(seed, &format!("rfc{}", scn.get("id").map(|x| x.to_string()).unwrap_or_default()));
    let term = scn.get("term").expect("term");
    let (want, got) = match kind {
        "hmac" => {
            let key = rng.bytes(ju64(c, "klen") as usize);
            let msg = rng.bytes(ju64(c, "mlen") as usize);
            let env = Env::new().b("key", &key).b("msg", &msg);
            (Evaluator::new(&env).eval(term), kestrel_crypto::hmac_sha256(&key, &msg))
        }
        "hkdf" => {
            let salt = rng.bytes(ju64(c, "saltlen") as usize);
            let ikm = rng.bytes(ju64(c, "ikmlen") as usize);
            let info = rng.bytes(ju64(c, "infolen") as usize);
            let env = Env::new().b("salt", &salt).b("ikm", &ikm).b("info", &info);
            (Evaluator::new(&env).eval(term), kestrel_crypto::hkdf_sha256(&salt, &ikm, &info, ju64(c, "len") as usize))
        }
        "scrypt" => {
            // RFC 7914 as a term over hmac_sha256 and the Salsa20/8 core (Scrypt7914.tla) vs the tree's scrypt()
            let pw = rng.bytes(ju64(c, "pwlen") as usize);
            let salt = rng.bytes(ju64(c, "saltlen") as usize);
            let env = Env::new().b("pw", &pw).b("salt", &salt);
            (Evaluator::new(&env).eval(term),
             kestrel_crypto::scrypt(&pw, &salt, ju64(c, "n") as u32, ju64(c, "r") as u32, ju64(c, "p") as u32, ju64(c, "dklen") as usize))
        }
        x => panic!("rfc kind {}", x),
    };
    let want = want.unwrap_or_else(|e| panic!("term evaluation: {:?}", e));
    json!({"ev":"rfc","id":scn.get("id").cloned().unwrap_or(json!("")),"kind":kind,"c":c.clone(),"same":want == got,"len":got.len()})
}

pub fn aead_case(seed: u64, scn: &Value) -> Value {
    let c = scn.get("c").expect("c");
    let change = jstr(c, "change");
    let mut rng = Rng::derive(seed, &format!("aead{}", scn.get("id").map(|x| x.to_string()).unwrap_or_default()));
    let key = rng.bytes(32);
    let nonce = rng.bytes(12);
    let ad = rng.bytes(ju64(c, "adlen") as usize);
    let pt = rng.bytes(ju64(c, "ptlen") as usize);
    let r = catch_unwind(AssertUnwindSafe(|| {
        let ct = kestrel_crypto::chapoly_encrypt_ietf(&key, &nonce, &pt, &ad);
        let len_ok = ct.len() == pt.len() + 16;
        let (mut k2, mut n2, mut ad2, mut ct2) = (key.clone(), nonce.clone(), ad.clone(), ct.clone());
        match change {
            "nothing" => {}
            "key" => k2[rng.below(32) as usize] ^= 1 << rng.below(8),
            "nonce" => n2[rng.below(12) as usize] ^= 1 << rng.below(8),
            "ad" => {
                if ad2.is_empty() {
                    ad2.push(0);
                } else {
                    let i = rng.below(ad2.len() as u64) as usize;
                    ad2[i] ^= 1 << rng.below(8);
                }
            }
            "ad_dropped" => ad2.clear(),
            "ct_bit" => {
                if pt.is_empty() {
                    ct2[0] ^= 1; // no ciphertext bytes: the change lands in the tag
                } else {
                    let i = rng.below(pt.len() as u64) as usize;
                    ct2[i] ^= 1 << rng.below(8);
                }
            }
            "tag_bit" => {
                let i = pt.len() + rng.below(16) as usize;
                ct2[i] ^= 1 << rng.below(8);
            }
            "truncated_1" => {
                ct2.pop();
            }
            "truncated_tag" => ct2.truncate(pt.len()),
            "extended" => ct2.push(0),
            "empty" => ct2.clear(),
            x => panic!("aead change {}", x),
        }
        let o = kestrel_crypto::chapoly_decrypt_ietf(&k2, &n2, &ct2, &ad2);
        (len_ok, o.is_ok(), o.map(|p| p == pt).unwrap_or(false))
    }));
    match r {
        Ok((len_ok, opened, same)) => json!({"ev":"aead","id":scn.get("id").cloned().unwrap_or(json!("")),"c":c.clone(),"expect_opens":scn.get("opens").cloned().unwrap_or(json!(false)),
                                            "res":"ok","len_ok":len_ok,"opened":opened,"same":same}),
        Err(_) => json!({"ev":"aead","id":scn.get("id").cloned().unwrap_or(json!("")),"c":c.clone(),"expect_opens":scn.get("opens").cloned().unwrap_or(json!(false)),
                         "res":"panic","len_ok":false,"opened":false,"same":false}),
    }
}

/// C19: public-key derivation is multiplication of the base point, for MANY scalars (a fault that hits one key in a few
/// hundred is invisible to a handful of samples)
pub fn derive_sweep(seed: u64, scn: &Value) -> Value {
    let n = ju64_or(scn, "n", 4000);
    let mut rng = Rng::derive(seed, &format!("sweep{}", ju64_or(scn, "k", 0)));
    let mut base = [0u8; 32];
    base[0] = 9;
    let (mut errors, mut mismatches, mut panics) = (0u64, 0u64, 0u64);
    let mut first_bad = String::new();
    for _ in 0..n {
        let k = rng.bytes32();
        let r = catch_unwind(AssertUnwindSafe(|| {
            let a = kestrel_crypto::x25519_derive_public(&k);
            let b = kestrel_crypto::x25519(&k, &base);
            let c = kestrel_crypto::PrivateKey::try_from(&k[..]).unwrap().to_public().map(|p| p.as_bytes().to_vec());
            (a.ok(), b.ok(), c.ok())
        }));
        match r {
            Err(_) => panics += 1,
            Ok((Some(a), Some(b), Some(c))) => {
                if a != b || a != c {
                    mismatches += 1;
                    if first_bad.is_empty() {
                        first_bad = hex(&k);
                    }
                }
            }
            Ok(_) => {
                errors += 1;
                if first_bad.is_empty() {
                    first_bad = hex(&k);
                }
            }
        }
    }
    json!({"ev":"sweep","id":scn.get("id").cloned().unwrap_or(json!("")),"n":n,"errors":errors,"mismatches":mismatches,"panics":panics,"first_bad":first_bad})
}

pub fn dh_case(seed: u64, scn: &Value) -> Value {
    let c = scn.get("c").expect("c");
    let mut rng = Rng::derive(seed, &format!("dh{}", scn.get("id").map(|x| x.to_string()).unwrap_or_default()));
    let mk_scalar = |kind: &str, rng: &mut Rng| -> [u8; 32] {
        let mut s = rng.bytes32();
        match kind {
            "zero" => s = [0u8; 32],
            "ones" => s = [0xffu8; 32],
            "low3set" => s[0] |= 7,
            "high_set" => s[31] |= 0x80,
            "high_clear" => s[31] &= 0x3f,
            _ => {}
        }
        s
    };
    let a = mk_scalar(jstr(c, "scalar"), &mut rng);
    let b = rng.bytes32();
    let point_kind = jstr(c, "point");
    let lo = crate::noise::low_order_points();
    let r = catch_unwind(AssertUnwindSafe(|| {
        let pa = kestrel_crypto::x25519_derive_public(&a);
        let pb = kestrel_crypto::x25519_derive_public(&b);
        let mut base = [0u8; 32];
        base[0] = 9;
        let derive_is_base_mult = match (&pa, kestrel_crypto::x25519(&a, &base)) {
            (Ok(x), Ok(y)) => *x == y,
            (Err(_), Err(_)) => true,
            _ => false,
        };
        let mut equiv = true;
        // the key types' methods are the functions: to_public = x25519_derive_public, diffie_hellman = x25519,
        // try_from keeps the 32 bytes and refuses every other length
        let wrappers = {
            let sk = kestrel_crypto::PrivateKey::try_from(&a[..]).unwrap();
            let pkb = kestrel_crypto::PublicKey::try_from(&b[..]).unwrap();    // any 32 bytes are a public key
            sk.as_bytes() == &a[..]
                && pkb.as_bytes() == &b[..]
                && sk.to_public().ok().map(|p| p.as_bytes().to_vec()) == pa.as_ref().ok().cloned()
                && sk.diffie_hellman(&pkb).ok() == kestrel_crypto::x25519(&a, &b).ok()
                && [0usize, 1, 31, 33, 64].iter().all(|n| {
                    kestrel_crypto::PrivateKey::try_from(&vec![7u8; *n][..]).is_err() && kestrel_crypto::PublicKey::try_from(&vec![7u8; *n][..]).is_err()
                })
        };
        let (symmetric, failed) = match point_kind {
            "random" | "base" => {
                let (pa, pb) = (pa.unwrap(), if point_kind == "base" { base.to_vec() } else { pb.unwrap() });
                if point_kind == "base" {
                    // DH(a, 9) = Pub(a) and DH(b, Pub(a)) = DH(a, Pub(b))
                    let pb2 = kestrel_crypto::x25519_derive_public(&b).unwrap();
                    (kestrel_crypto::x25519(&a, &pb2).ok() == kestrel_crypto::x25519(&b, &pa).ok(), false)
                } else {
                    let x = kestrel_crypto::x25519(&a, &pb);
                    let y = kestrel_crypto::x25519(&b, &pa);
                    (x.is_ok() && x.ok() == y.ok(), false)
                }
            }
            "loworder" | "noncanonical" => {
                // every small-order / non-canonical encoding must be refused (all-zero output)
                let range = if point_kind == "loworder" { 0..7 } else { 7..14 };
                let all_fail = range.clone().all(|i| kestrel_crypto::x25519(&a, &lo[i]).is_err());
                (true, all_fail)
            }
            "reduces_mod_p" => {
                // u = p + j is accepted and means j (RFC 7748 section 5), with the top bit clear or set
                let mut ok = true;
                for j in 2u8..=18 {
                    let mut small = [0u8; 32];
                    small[0] = j;
                    let mut big = [0xffu8; 32];
                    big[0] = 0xed + j;
                    big[31] = 0x7f;
                    let mut big_hi = big;
                    big_hi[31] = 0xff;
                    let want = kestrel_crypto::x25519(&a, &small).ok();
                    ok &= want.is_some()
                        && kestrel_crypto::x25519(&a, &big).ok() == want
                        && kestrel_crypto::x25519(&a, &big_hi).ok() == want;
                }
                equiv = ok;
                (true, false)
            }
            "high_bit_masked" => {
                let mut u = kestrel_crypto::x25519_derive_public(&b).unwrap();
                let want = kestrel_crypto::x25519(&a, &u).ok();
                u[31] |= 0x80;
                equiv = want.is_some() && kestrel_crypto::x25519(&a, &u).ok() == want;
                (true, false)
            }
            x => panic!("point {}", x),
        };
        (derive_is_base_mult, symmetric, failed, equiv, wrappers)
    }));
    match r {
        Ok((d, s, f, q, w)) => json!({"ev":"dh","id":scn.get("id").cloned().unwrap_or(json!("")),"c":c.clone(),"res":"ok","derive_is_base_mult":d,"symmetric":s,"equiv":q,"wrappers":w,
                                "expect_fail":scn.get("fails").cloned().unwrap_or(json!(false)),"failed":f}),
        Err(_) => json!({"ev":"dh","id":scn.get("id").cloned().unwrap_or(json!("")),"c":c.clone(),"res":"panic","derive_is_base_mult":false,"symmetric":false,"equiv":false,"wrappers":false,
                         "expect_fail":scn.get("fails").cloned().unwrap_or(json!(false)),"failed":false}),
    }
}

/// Raw primitive evaluation for the supplementary reference comparison (hashlib / RFC vectors).
pub fn prim(scn: &Value) -> Value {
    let f = jstr(scn, "fn");
    let a = |k: &str| unhex(jstr_or(scn, k, ""));
    let out = catch_unwind(AssertUnwindSafe(|| match f {
        "sha256" => kestrel_crypto::sha256(&a("data")),
        "hmac" => kestrel_crypto::hmac_sha256(&a("key"), &a("data")),
        "hkdf" => kestrel_crypto::hkdf_sha256(&a("salt"), &a("ikm"), &a("info"), ju64(scn, "len") as usize),
        "scrypt" => kestrel_crypto::scrypt(&a("password"), &a("salt"), ju64(scn, "n") as u32, ju64(scn, "r") as u32, ju64(scn, "p") as u32, ju64(scn, "len") as usize),
        "x25519" => kestrel_crypto::x25519(&a("k"), &a("u")).unwrap_or_default(),
        "salsa20_8" => kestrel_crypto::verif_salsa20_8(&a("block")),
        "aead_seal" => kestrel_crypto::chapoly_encrypt_ietf(&a("key"), &a("nonce"), &a("pt"), &a("aad")),
        x => panic!("prim {}", x),
    }));
    match out {
        Ok(v) => json!({"ev":"prim","id":scn.get("id").cloned().unwrap_or(json!("")),"fn":f,"res":"ok","out_hex":hex(&v)}),
        Err(_) => json!({"ev":"prim","id":scn.get("id").cloned().unwrap_or(json!("")),"fn":f,"res":"panic","out_hex":""}),
    }
}

// ------------------------------------------------------------------------------------
// C20
// ------------------------------------------------------------------------------------

/// a payload key as a field of a larger value: it sits at offset 1 of the heap block (PayloadKey has alignment 1)
#[repr(C)]
struct Embedded {
    tag: u8,
    key: PayloadKey,
}

enum Obj {
    Priv(PrivateKey),
    Pay(Box<PayloadKey>),
    Emb(Box<Embedded>),
}

impl Obj {
    fn bytes(&self) -> &[u8] {
        match self {
            Obj::Priv(k) => k.as_bytes(),
            Obj::Pay(k) => k.as_bytes(),
            Obj::Emb(e) => e.key.as_bytes(),
        }
    }
}

struct Live {
    obj: Obj,
    expect: Vec<u8>,
    watch: usize, // watch id of the block that holds the bytes (shared by objects that share the block)
}

#[derive(Default)]
struct EraseCounts {
    released_zero: u64,
    released_dirty: u64,
    not_released: u64,
    live_changed: u64,
    leaked_blocks: u64,
    released_while_held: u64,
}

/// after the holder(s) of watch id `w` were dropped: the block must have been released, all zero - unless another live
/// object still holds the same block (shared storage), in which case it must NOT have been released
/// blocks released during the last capture that contain this secret (an all-zero "secret" - an object that was wiped
/// explicitly - is no secret and matches nothing)
fn leaked(secret: &[u8]) -> u64 {
    if secret.iter().all(|b| *b == 0) {
        0
    } else {
        alloc::captured_containing(secret) as u64
    }
}

fn judge(c: &mut EraseCounts, w: usize, still_held: bool) {
    let res = alloc::watch_result(w).0;
    if still_held {
        if res != 0 {
            c.released_while_held += 1;
        }
        return;
    }
    match res {
        1 => c.released_zero += 1,
        2 => c.released_dirty += 1,
        _ => c.not_released += 1,
    }
    alloc::unwatch(w);
}

fn erase_once(rng: &mut Rng, prog: &[Value], c: &mut EraseCounts) {
    let nslots = prog.iter().map(|st| std::cmp::max(ju64(st, "slot"), ju64_or(st, "src", 0)) as usize + 1).max().unwrap_or(1);
    let mut slots: Vec<Option<Live>> = (0..std::cmp::max(8, nslots)).map(|_| None).collect();
    let mut watch_next = 0usize;
    alloc::watch_clear_all();
    let held = |slots: &Vec<Option<Live>>, w: usize| slots.iter().flatten().any(|l| l.watch == w);
    for st in prog {
        let op = jstr(st, "op");
        let i = ju64(st, "slot") as usize;
        match op {
            "construct" => {
                alloc::capture_start();
                let obj = match jstr(st, "kind") {
                    "generate" => Obj::Priv(PrivateKey::generate()),
                    "from_bytes" => {
                        let mut b = rng.bytes32();
                        for x in b.iter_mut() {
                            *x |= 1; // no zero bytes: "all zero" cannot be an accident
                        }
                        Obj::Priv(PrivateKey::try_from(&b[..]).unwrap())
                    }
                    "payload_embedded" => {
                        let mut b = rng.bytes32();
                        for x in b.iter_mut() {
                            *x |= 1;
                        }
                        Obj::Emb(Box::new(Embedded { tag: 1, key: PayloadKey::new(&b) }))
                    }
                    _ => {
                        let mut b = rng.bytes32();
                        for x in b.iter_mut() {
                            *x |= 1;
                        }
                        Obj::Pay(Box::new(PayloadKey::new(&b)))
                    }
                };
                alloc::capture_stop();
                let expect = obj.bytes().to_vec();
                // anything released while the object was being built must not contain its secret
                c.leaked_blocks += leaked(&expect);
                alloc::watch(watch_next, obj.bytes().as_ptr(), 32);
                slots[i] = Some(Live { obj, expect, watch: watch_next });
                watch_next += 1;
            }
            "clone" => {
                let src = ju64(st, "src") as usize;
                let l = slots[src].as_ref().expect("clone of empty slot");
                alloc::capture_start();
                let cl = match &l.obj {
                    Obj::Priv(k) => Obj::Priv(k.clone()),
                    Obj::Pay(k) => Obj::Pay(k.clone()),
                    Obj::Emb(e) => Obj::Emb(Box::new(Embedded { tag: e.tag, key: e.key.clone() })),
                };
                alloc::capture_stop();
                c.leaked_blocks += leaked(&l.expect);
                let expect = l.expect.clone();
                // a clone may own a block of its own or share the block of its source
                let shared = slots.iter().flatten().find(|x| x.obj.bytes().as_ptr() == cl.bytes().as_ptr()).map(|x| x.watch);
                let w = match shared {
                    Some(w) => w,
                    None => {
                        alloc::watch(watch_next, cl.bytes().as_ptr(), 32);
                        watch_next += 1;
                        watch_next - 1
                    }
                };
                slots[i] = Some(Live { obj: cl, expect, watch: w });
            }
            "drop" => {
                let l = slots[i].take().expect("drop of empty slot");
                let (o, e, w) = (l.obj, l.expect, l.watch);
                alloc::capture_start();
                drop(o);
                alloc::capture_stop();
                c.leaked_blocks += leaked(&e);
                let h = held(&slots, w);
                judge(c, w, h);
            }
            "zeroize" => {
                // explicit wipe of a live object: it stays live and holds zeros from now on
                use zeroize::Zeroize;
                let mut l = slots[i].take().expect("zeroize of empty slot");
                let p_before = l.obj.bytes().as_ptr() as usize;
                match &mut l.obj {
                    Obj::Priv(k) => k.zeroize(),
                    Obj::Pay(k) => k.zeroize(),
                    Obj::Emb(e) => e.key.zeroize(),
                }
                let w_old = l.watch;
                let moved = l.obj.bytes().as_ptr() as usize != p_before;
                if moved {
                    // the object went to other storage (e.g. it detached from a shared buffer): follow it
                    alloc::watch(watch_next, l.obj.bytes().as_ptr(), 32);
                    l.watch = watch_next;
                    watch_next += 1;
                }
                l.expect = l.obj.bytes().to_vec();
                if l.expect.len() != 32 || l.expect.iter().any(|b| *b != 0) {
                    c.live_changed += 1; // an explicit wipe that leaves key bytes behind
                }
                slots[i] = Some(l);
                if moved && !held(&slots, w_old) {
                    judge(c, w_old, false);
                }
            }
            "clone_from" => {
                // refill the live object in slot i from the live object in slot src
                let src = ju64(st, "src") as usize;
                let src_expect = slots[src].as_ref().expect("clone_from of empty slot").expect.clone();
                let mut dst = slots[i].take().expect("clone_from into empty slot");
                let w_old = dst.watch;
                let p_before = dst.obj.bytes().as_ptr() as usize;
                let old_expect = dst.expect.clone();
                alloc::capture_start();
                {
                    let sl = slots[src].as_ref().unwrap();
                    match (&mut dst.obj, &sl.obj) {
                        (Obj::Priv(a), Obj::Priv(b)) => a.clone_from(b),
                        (Obj::Pay(a), Obj::Pay(b)) => (**a).clone_from(&**b),
                        (Obj::Emb(a), Obj::Emb(b)) => a.key.clone_from(&b.key),
                        _ => panic!("clone_from between different kinds"),
                    }
                }
                alloc::capture_stop();
                // nothing released on the way may hold the old or the new secret
                c.leaked_blocks += leaked(&old_expect) + leaked(&src_expect);
                dst.expect = src_expect;
                let p_new = dst.obj.bytes().as_ptr() as usize;
                if p_before != p_new {
                    // other storage than before: shared with the source, or a fresh block
                    let shared = slots.iter().flatten().find(|x| x.obj.bytes().as_ptr() as usize == p_new).map(|x| x.watch);
                    dst.watch = match shared {
                        Some(w) => w,
                        None => {
                            alloc::watch(watch_next, dst.obj.bytes().as_ptr(), 32);
                            watch_next += 1;
                            watch_next - 1
                        }
                    };
                    slots[i] = Some(dst);
                    let h = held(&slots, w_old);
                    if !h {
                        judge(c, w_old, false);
                    }
                } else {
                    slots[i] = Some(dst);
                }
            }
            "drop_unwind" => {
                // the handle is owned by a frame that a panic unwinds through: its destructor runs while the thread is panicking
                let l = slots[i].take().expect("drop of empty slot");
                let (o, e, w) = (l.obj, l.expect, l.watch);
                alloc::capture_start();
                let r = catch_unwind(AssertUnwindSafe(move || {
                    let _owned_by_this_frame = o;
                    std::panic::panic_any("unwinding through the owner of a key");
                }));
                alloc::capture_stop();
                assert!(r.is_err());
                c.leaked_blocks += leaked(&e);
                let h = held(&slots, w);
                judge(c, w, h);
            }
            "drop2" => {
                // two handles dropped by two threads at the same moment
                let j = ju64(st, "src") as usize;
                let a = slots[i].take().expect("drop2 of empty slot");
                let b = slots[j].take().expect("drop2 of empty slot");
                let (wa, wb) = (a.watch, b.watch);
                let bar = std::sync::Arc::new(std::sync::Barrier::new(2));
                let (oa, ob) = (a.obj, b.obj);
                let b1 = bar.clone();
                let t1 = std::thread::spawn(move || {
                    b1.wait();
                    drop(oa);
                });
                let b2 = bar.clone();
                let t2 = std::thread::spawn(move || {
                    b2.wait();
                    drop(ob);
                });
                t1.join().expect("thread");
                t2.join().expect("thread");
                let h = held(&slots, wa);
                judge(c, wa, h);
                if wb != wa {
                    let h = held(&slots, wb);
                    judge(c, wb, h);
                }
            }
            x => panic!("erase op {}", x),
        }
        // live objects keep their bytes
        for s in slots.iter().flatten() {
            if s.obj.bytes() != &s.expect[..] {
                c.live_changed += 1;
            }
        }
    }
    // drop what is left, in slot order
    for k in 0..slots.len() {
        if let Some(l) = slots[k].take() {
            let w = l.watch;
            drop(l.obj);
            let h = held(&slots, w);
            judge(c, w, h);
        }
    }
}

pub fn erase_program(seed: u64, scn: &Value) -> Value {
    let prog = jarr(scn, "prog");
    let repeat = ju64_or(scn, "repeat", 1);
    let mut c = EraseCounts::default();
    let mut rng = Rng::derive(seed, &format!("erase{}", scn.get("id").map(|x| x.to_string()).unwrap_or_default()));
    for _ in 0..repeat {
        erase_once(&mut rng, prog, &mut c);
    }
    json!({"ev":"erase","id":scn.get("id").cloned().unwrap_or(json!("")),"steps":prog.len(),"repeat":repeat,"released_zero":c.released_zero,
           "released_dirty":c.released_dirty,"not_released":c.not_released,"live_changed":c.live_changed,"leaked_blocks":c.leaked_blocks,
           "released_while_held":c.released_while_held})
}

pub fn run_file(_t: &Templates, seed: u64, inp: &str, outp: &str) {
    use std::io::{BufRead, BufReader, BufWriter, Write};
    let f = BufReader::new(std::fs::File::open(inp).expect("open scenarios"));
    let mut o = BufWriter::new(std::fs::File::create(outp).expect("create out"));
    let mut ffi: Option<ScryptFn> = None;
    for line in f.lines() {
        let line = line.unwrap();
        if line.trim().is_empty() {
            continue;
        }
        let scn: Value = serde_json::from_str(&line).expect("scenario json");
        let v = match jstr(&scn, "op") {
            "ffi" => {
                if ffi.is_none() {
                    ffi = Some(load_ffi());
                }
                ffi_call(ffi.unwrap(), seed, &scn)
            }
            "scrypt_axiom" => scrypt_axiom(seed, &scn),
            "rfc" => rfc_term(seed, &scn),
            "aead" => aead_case(seed, &scn),
            "dh" => dh_case(seed, &scn),
            "derive_sweep" => derive_sweep(seed, &scn),
            "prim" => prim(&scn),
            "erase" => erase_program(seed, &scn),
            x => panic!("op {}", x),
        };
        writeln!(o, "{}", v).unwrap();
    }
    o.flush().unwrap();
}
