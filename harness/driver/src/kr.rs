//! Keyring engine: the working tree's keyring.rs (compiled into the driver by path) against
//! scenarios from Keyring.tla and against the specification's LockedKey / EncodedPub terms.
use crate::keyring::{EncodedPk, EncodedSk, Keyring};
use crate::terms::{Env, Templates};
use crate::util::*;
use ct_codecs::{Base64, Decoder, Encoder};
use kestrel_crypto::{PrivateKey, PublicKey};
use serde_json::{json, Value};
use std::panic::{catch_unwind, AssertUnwindSafe};

pub struct Material {
    pub pubs: Vec<String>,  // P1, P2
    pub privs: Vec<String>, // K1
    pub names: Vec<(String, String)>,
}

pub fn material(t: &Templates, seed: u64) -> Material {
    let mut pubs = Vec::new();
    for l in ["P1", "P2"] {
        let sk = crate::noise::priv_of(seed, l);
        let pk = kestrel_crypto::x25519_derive_public(&sk).unwrap();
        pubs.push(String::from_utf8(t.must("encoded_pub", &Env::new().b("pk", &pk))).unwrap());
    }
    let sk = crate::noise::priv_of(seed, "P1");
    let salt = Rng::derive(seed, "kr-salt").bytes32();
    let k1 = String::from_utf8(t.must("locked_key", &Env::new().b("sk", &sk).b("password", b"pw").b("salt", &salt))).unwrap();
    let names = vec![
        ("a".to_string(), "alice".to_string()),
        // a name may contain the separator itself, any number of times, also at its end
        ("b".to_string(), "Bob=by = Bobert=son=".to_string()),
        ("tab".to_string(), "bo\tris".to_string()),
        ("empty".to_string(), "".to_string()),
        ("n128".to_string(), "\u{e9}".repeat(64)),
        // 129 bytes, and byte offset 128 (the limit) falls INSIDE a two-byte character
        ("n129".to_string(), format!("x{}", "\u{e9}".repeat(64))),
    ];
    Material { pubs, privs: vec![k1], names }
}

fn render(m: &Material, toks: &[Value], style: u64) -> String {
    let mut out = String::new();
    let field = |k: &str, v: &str, s: u64| -> String {
        match s % 4 {
            0 => format!("{} = {}", k, v),
            1 => format!("{}={}", k, v),
            2 => format!("  {}   =   {}  ", k, v),
            _ => format!("\t{}\t=\t{}\t", k, v),
        }
    };
    for (i, tk) in toks.iter().enumerate() {
        let s = style.wrapping_add(i as u64 * 7);
        let t = jstr(tk, "t");
        let v = tk.get("v").and_then(|x| x.as_str()).unwrap_or("");
        let line = match t {
            "key" => ["[Key]", "  [Key]", "[Key]  ", "\t[Key]"][(s % 4) as usize].to_string(),
            "comment" => ["# a comment", "#", "   # Name = x", "#[Key]"][(s % 4) as usize].to_string(),
            "blank" => ["", "   ", "\t", ""][(s % 4) as usize].to_string(),
            // (also long lines of multi-byte characters: text of another kind given as a keyring, an accent past byte 31)
            "junk" => ["hello", "=x", "[key]", "name = x", "これは鍵束ではありません。ただのメモです。これは鍵束ではありません。",
                       "this line is thirty-one bytes l\u{e9}ng and then some more of it follows here",
                       "\u{1F511}\u{1F511}\u{1F511}\u{1F511}\u{1F511}\u{1F511}\u{1F511}\u{1F511}\u{1F511} keys", "x"][(s % 8) as usize].to_string(),
            "name_noeq" => ["Name alice", "Name", "Name: alice", "Name\talice"][(s % 4) as usize].to_string(),
            "name" => {
                let val = m.names.iter().find(|(k, _)| k == v).map(|(_, x)| x.clone()).unwrap();
                field("Name", &val, s)
            }
            "pub" => {
                let val = match v {
                    "P1" => m.pubs[0].clone(),
                    "P2" => m.pubs[1].clone(),
                    _ => {
                        let mut spaced = m.pubs[0].clone();
                        spaced.insert(24, ' ');
                        [Base64::encode_to_string(&[7u8; 35]).unwrap(), Base64::encode_to_string(&[7u8; 37]).unwrap(), "not base64 !!".to_string(), "".to_string(), spaced][(s % 5) as usize].clone()
                    }
                };
                field("PublicKey", &val, s)
            }
            "priv" => {
                let val = match v {
                    "K1" => m.privs[0].clone(),
                    _ => {
                        // wrong length, a public key, not base64, too long, and a valid key with one blank / tab inside
                        let mut spaced = m.privs[0].clone();
                        spaced.insert(56, ' ');
                        let mut tabbed = m.privs[0].clone();
                        tabbed.insert(20, '\t');
                        [Base64::encode_to_string(&[7u8; 83]).unwrap(), m.pubs[0].clone(), "$$$".to_string(), Base64::encode_to_string(&[7u8; 85]).unwrap(), spaced, tabbed][(s % 6) as usize].clone()
                    }
                };
                field("PrivateKey", &val, s)
            }
            x => panic!("token {}", x),
        };
        out.push_str(&line);
        out.push_str(if style % 3 == 2 { "\r\n" } else { "\n" });
    }
    if style % 5 == 4 && out.ends_with('\n') {
        out.pop(); // no trailing newline
    }
    out
}

/// What the tool itself can see of an accepted keyring: for each candidate name, the entry `get_key` returns (name,
/// encoded public key, locked private key if any).  Only the interface that the tool's commands use is touched - no
/// private field, no Debug rendering - so the observation does not depend on how the keyring is stored.
fn entries_by_lookup(kr: &Keyring, candidates: &[String]) -> Vec<(String, String, Option<String>)> {
    let mut out = Vec::new();
    for name in candidates {
        if out.iter().any(|(n, _, _): &(String, String, Option<String>)| n == name) {
            continue;
        }
        if let Some(k) = kr.get_key(name) {
            out.push((name.clone(), k.public_key.as_str().to_string(), k.private_key.as_ref().map(|s| s.as_str().to_string())));
        }
    }
    out
}

/// the names a keyring text assigns (the value after the first '=' of each Name line, trimmed), in order
fn names_in_text(text: &str) -> Vec<String> {
    let mut out = Vec::new();
    for line in text.lines() {
        let l = line.trim();
        if l.starts_with("Name") {
            if let Some(i) = l.find('=') {
                out.push(l[i + 1..].trim().to_string());
            }
        }
    }
    out
}

pub fn run_kr(m: &Material, scn: &Value) -> Value {
    let toks = jarr(scn, "toks");
    let style = ju64_or(scn, "style", 0);
    let text = if let Some(t) = scn.get("text").and_then(|x| x.as_str()) { t.to_string() } else { render(m, toks, style) };
    let r = catch_unwind(AssertUnwindSafe(|| Keyring::new(&text)));
    let mut ev = json!({"ev":"kr","id":scn.get("id").cloned().unwrap_or(json!("")),"toks":toks,"class":scn.get("class").cloned().unwrap_or(json!("")),
                        "style":style,"accepted":false,"panic":false,"entries":[],"lookups_ok":true,"text":text});
    match r {
        Err(_) => ev["panic"] = json!(true),
        Ok(Err(_)) => {}
        Ok(Ok(kr)) => {
            ev["accepted"] = json!(true);
            // candidate names: the model's name values, and whatever the text itself assigns
            let mut cands: Vec<String> = names_in_text(&text);
            for (_, x) in m.names.iter() {
                cands.push(x.clone());
            }
            let ents = entries_by_lookup(&kr, &cands);
            let mut lookups_ok = true;
            let mut out = Vec::new();
            for (name, pk, sk) in ents.iter() {
                // back to token values
                let nv = m.names.iter().find(|(_, x)| x == name).map(|(k, _)| k.clone()).unwrap_or(format!("other:{}", name));
                let pv = if *pk == m.pubs[0] { "P1".to_string() } else if *pk == m.pubs[1] { "P2".to_string() } else { format!("other:{}", pk) };
                let sv = match sk {
                    None => "none".to_string(),
                    Some(s) if *s == m.privs[0] => "K1".to_string(),
                    Some(s) => format!("other:{}", s),
                };
                out.push(json!({"name": nv, "pub": pv, "priv": sv}));
                let by_name = kr.get_key(name);
                lookups_ok = lookups_ok && by_name.map(|k| k.public_key.as_str() == pk).unwrap_or(false);
                let epk: Result<EncodedPk, _> = EncodedPk::try_from(pk.as_str());
                lookups_ok = lookups_ok && epk.map(|e| kr.get_name_from_key(&e).as_ref().map(|n| n.as_str()) == Some(name.as_str())).unwrap_or(false);
            }
            // at most one answer: no two entries share a key
            for i in 0..ents.len() {
                for j in 0..i {
                    if ents[i].1 == ents[j].1 {
                        lookups_ok = false;
                    }
                }
            }
            ev["entries"] = json!(out);
            ev["lookups_ok"] = json!(lookups_ok);
        }
    }
    ev
}

/// C17: a keyring of n entries as the tool writes them (random keys, distinct names): every look-up by name
/// and by key returns exactly the entry written, and keys that are not in the keyring are not found
pub fn run_krbig(t: &Templates, seed: u64, scn: &Value) -> Value {
    let n = ju64(scn, "n") as usize;
    let k = ju64_or(scn, "k", 0);
    let mut rng = Rng::derive(seed, &format!("krbig{}.{}", n, k));
    let mut names = Vec::new();
    let mut pubs = Vec::new();
    let mut text = String::new();
    let enc = |pk: &[u8]| String::from_utf8(t.must("encoded_pub", &Env::new().b("pk", pk))).unwrap();
    for i in 0..n {
        let pk = rng.bytes32();
        let name = format!("entry {} {:08x}", i, rng.next() as u32);
        let e = enc(&pk);
        text.push_str(&format!("[Key]\nName = {}\nPublicKey = {}\n\n", name, e));
        names.push(name);
        pubs.push(e);
    }
    let strangers: Vec<String> = (0..n.max(50)).map(|_| enc(&rng.bytes32())).collect();
    let mut ev = json!({"ev":"krbig","id":scn.get("id").cloned().unwrap_or(json!("")),"n":n,"accepted":false,"panic":false,
                        "nentries":0,"lookups_ok":false,"misses_ok":false});
    match catch_unwind(AssertUnwindSafe(|| Keyring::new(&text))) {
        Err(_) => ev["panic"] = json!(true),
        Ok(Err(_)) => {}
        Ok(Ok(kr)) => {
            ev["accepted"] = json!(true);
            ev["nentries"] = json!(entries_by_lookup(&kr, &names).len());
            let mut ok = true;
            for i in 0..n {
                ok = ok && kr.get_key(&names[i]).map(|x| x.public_key.as_str() == pubs[i] && x.name.as_str() == names[i].as_str()).unwrap_or(false);
                let e: Result<EncodedPk, _> = EncodedPk::try_from(pubs[i].as_str());
                ok = ok && e.map(|e| kr.get_name_from_key(&e).as_ref().map(|n| n.as_str()) == Some(names[i].as_str())).unwrap_or(false);
            }
            ev["lookups_ok"] = json!(ok);
            let mut miss = kr.get_key("no such entry").is_none();
            for s in strangers.iter() {
                let e: Result<EncodedPk, _> = EncodedPk::try_from(s.as_str());
                miss = miss && e.map(|e| kr.get_name_from_key(&e).is_none()).unwrap_or(false);
            }
            ev["misses_ok"] = json!(miss);
        }
    }
    ev
}

/// C15 events
pub fn run_lock(t: &Templates, seed: u64, scn: &Value) -> Value {
    let kind = jstr(scn, "kind");
    let mut r = Rng::derive(seed, &format!("lock{}", ju64_or(scn, "k", 0)));
    let sk = r.bytes32();
    let salt = r.bytes32();
    let pw = unhex(jstr_or(scn, "password_hex", "7077"));
    let spec = String::from_utf8(t.must("locked_key", &Env::new().b("sk", &sk).b("password", &pw).b("salt", &salt))).unwrap();
    let mut ev = json!({"ev":"lock","id":scn.get("id").cloned().unwrap_or(json!("")),"kind":kind,"res":"err","same":false});
    // "zero_tail": a conforming locked key whose 84-byte blob ends in kz bytes 0x00, presented WITHOUT that tail (a string of
    // another length, which a decoder that pads its buffer with zeros would complete again).  Private keys are tried until
    // the tag comes out with such a tail (the derived key is computed once, by the specification's terms).
    let (sk, spec, short_tail) = if kind == "zero_tail" {
        let kz = ju64(scn, "kz") as usize;
        let key = t.must("lock_kdf", &Env::new().b("password", &pw).b("salt", &salt));
        let mut magic_salt = ct_codecs::Base64::decode_to_vec(&spec, None).unwrap();
        magic_salt.truncate(36);
        let aad = magic_salt[..4].to_vec();
        let mut found = None;
        let mut cand = [0u8; 32];
        cand.copy_from_slice(&sk);
        for ctr in 0u64..(1u64 << 26) {
            cand[..8].copy_from_slice(&ctr.to_le_bytes());
            let ct = kestrel_crypto::chapoly_encrypt_ietf(&key, &[0u8; 12], &cand, &aad);
            if ct[ct.len() - kz..].iter().all(|b| *b == 0) {
                found = Some(cand);
                break;
            }
        }
        let sk2 = found.expect("zero tail search");
        // the string itself comes from the specification's term
        let s2 = String::from_utf8(t.must("locked_key_under", &Env::new().b("key", &key).b("sk", &sk2).b("salt", &salt))).unwrap();
        let blob = ct_codecs::Base64::decode_to_vec(&s2, None).unwrap();
        assert!(blob.len() == 84 && blob[84 - kz..].iter().all(|b| *b == 0), "zero tail construction");
        (sk2, s2, Some(blob[..84 - kz].to_vec()))
    } else {
        (sk, spec, None)
    };
    match kind {
        "lock" => {
            let got = catch_unwind(AssertUnwindSafe(|| Keyring::lock_private_key(&PrivateKey::try_from(&sk[..]).unwrap(), &pw, salt).as_str().to_string()));
            match got {
                Ok(s) => {
                    ev["res"] = json!("ok");
                    ev["same"] = json!(s == spec);
                }
                Err(_) => ev["res"] = json!("panic"),
            }
        }
        _ => {
            // the string presented and the password used
            let mut s = spec.clone();
            let mut use_pw = pw.clone();
            match kind {
                "unlock_good" => {}
                "wrong_password" => use_pw = unhex(jstr(scn, "other_password_hex")),
                "bitflip" => {
                    let mut blob = ct_codecs::Base64::decode_to_vec(&spec, None).unwrap();
                    let bit = ju64(scn, "bit") as usize;
                    blob[bit / 8] ^= 1 << (bit % 8);
                    s = Base64::encode_to_string(&blob).unwrap();
                }
                "length" => {
                    let blob = ct_codecs::Base64::decode_to_vec(&spec, None).unwrap();
                    let n = ju64(scn, "n") as usize;
                    let mut b2 = blob.clone();
                    b2.resize(n, 0x41);
                    s = Base64::encode_to_string(&b2).unwrap();
                }
                "zero_tail" => {
                    let short = short_tail.clone().unwrap();
                    s = match ju64_or(scn, "form", 0) {
                        0 => Base64::encode_to_string(&short).unwrap(),
                        1 => Base64::encode_to_string(&short).unwrap().trim_end_matches('=').to_string(),
                        // the whole conforming string: must unlock (the control that the construction is right)
                        _ => {
                            ev["kind"] = json!("unlock_good");
                            spec.clone()
                        }
                    };
                }
                "alphabet" => {
                    s = match ju64(scn, "n") {
                        0 => spec.replace('+', "-").replace('/', "_"), // url-safe alphabet
                        1 => spec.trim_end_matches('=').to_string() + "=",
                        2 => format!(" {}", spec),
                        3 => format!("{}\n", spec),
                        4 => spec.to_lowercase(),
                        5 => spec[..spec.len() - 1].to_string(),
                        6 => format!("{}A", spec),
                        _ => "".to_string(),
                    };
                    if s == spec {
                        // this variant does not change this particular string: present a different defect
                        s = format!("{}==", spec);
                    }
                }
                x => panic!("lock kind {}", x),
            }
            let got = catch_unwind(AssertUnwindSafe(|| -> Result<Vec<u8>, ()> {
                let esk: EncodedSk = EncodedSk::try_from(s.as_str()).map_err(|_| ())?;
                Keyring::unlock_private_key(&esk, &use_pw).map(|k| k.as_bytes().to_vec()).map_err(|_| ())
            }));
            match got {
                Ok(Ok(k)) => {
                    ev["res"] = json!("ok");
                    ev["same"] = json!(k == sk);
                }
                Ok(Err(())) => ev["res"] = json!("err"),
                Err(_) => ev["res"] = json!("panic"),
            }
        }
    }
    ev
}

/// C17: encoded public keys
pub fn run_pub(t: &Templates, seed: u64, scn: &Value) -> Value {
    let kind = jstr(scn, "kind");
    let mut r = Rng::derive(seed, &format!("pub{}", ju64_or(scn, "k", 0)));
    let pk = r.bytes32();
    let spec = String::from_utf8(t.must("encoded_pub", &Env::new().b("pk", &pk))).unwrap();
    let mut ev = json!({"ev":"pub","id":scn.get("id").cloned().unwrap_or(json!("")),"kind":kind,"res":"err","same":false});
    if kind == "encode" {
        let got = catch_unwind(AssertUnwindSafe(|| Keyring::encode_public_key(&PublicKey::try_from(&pk[..]).unwrap()).as_str().to_string()));
        match got {
            Ok(s) => {
                ev["res"] = json!("ok");
                ev["same"] = json!(s == spec);
            }
            Err(_) => ev["res"] = json!("panic"),
        }
        return ev;
    }
    let mut s = spec.clone();
    match kind {
        "good" => {}
        "char" => {
            // replace one character by another of the alphabet
            let i = ju64(scn, "i") as usize % s.len();
            let alphabet = b"ABCDEFGHIJKLMNOPQRSTUVWXYZabcdefghijklmnopqrstuvwxyz0123456789+/";
            let mut b = s.into_bytes();
            let old = b[i];
            let mut c = alphabet[(ju64_or(scn, "c", 1) as usize + old as usize) % 64];
            if c == old {
                c = alphabet[(old as usize + 7) % 64];
            }
            b[i] = c;
            s = String::from_utf8(b).unwrap();
        }
        "checksum" => {
            let mut blob = pk.to_vec();
            blob.extend_from_slice(&r.bytes(4));
            s = Base64::encode_to_string(&blob).unwrap();
        }
        "cs_pattern" => {
            // structured changes of the 4 checksum bytes: the same bit flipped in two bytes, two bytes
            // swapped, reversed, rotated, all complemented, two / three bits flipped anywhere
            let mut blob = Base64::decode_to_vec(&spec, None).unwrap();
            let n = ju64(scn, "n") as usize;
            let cs = &mut blob[32..36];
            let orig = [cs[0], cs[1], cs[2], cs[3]];
            match n {
                0..=47 => {
                    let pairs = [(0, 1), (0, 2), (0, 3), (1, 2), (1, 3), (2, 3)];
                    let (a, b) = pairs[n / 8];
                    cs[a] ^= 1 << (n % 8);
                    cs[b] ^= 1 << (n % 8);
                }
                48..=53 => {
                    let pairs = [(0, 1), (0, 2), (0, 3), (1, 2), (1, 3), (2, 3)];
                    let (a, b) = pairs[n - 48];
                    cs.swap(a, b);
                }
                54 => cs.reverse(),
                55 => cs.rotate_left(1),
                56 => cs.rotate_left(2),
                57 => {
                    for x in cs.iter_mut() {
                        *x = !*x;
                    }
                }
                _ => {
                    for _ in 0..(2 + n % 3) {
                        let i = r.below(32) as usize;
                        cs[i / 8] ^= 1 << (i % 8);
                    }
                }
            }
            if [cs[0], cs[1], cs[2], cs[3]] == orig {
                cs[0] ^= 0x10; // the pattern did not change this particular checksum: change it anyway
            }
            s = Base64::encode_to_string(&blob).unwrap();
        }
        "short" => {
            s = Base64::encode_to_string(&pk[..ju64(scn, "n") as usize % 33]).unwrap();
        }
        x => panic!("pub kind {}", x),
    }
    let got = catch_unwind(AssertUnwindSafe(|| -> Result<Vec<u8>, ()> {
        let e = EncodedPk::try_from(s.as_str()).map_err(|_| ())?;
        Keyring::decode_public_key(&e).map(|k| k.as_bytes().to_vec()).map_err(|_| ())
    }));
    match got {
        Ok(Ok(k)) => {
            ev["res"] = json!("ok");
            ev["same"] = json!(k == pk);
        }
        Ok(Err(())) => ev["res"] = json!("err"),
        Err(_) => ev["res"] = json!("panic"),
    }
    ev
}

pub fn run_file(t: &Templates, seed: u64, inp: &str, outp: &str) {
    use std::io::{BufRead, BufReader, BufWriter, Write};
    let f = BufReader::new(std::fs::File::open(inp).expect("open scenarios"));
    let mut o = BufWriter::new(std::fs::File::create(outp).expect("create out"));
    let m = material(t, seed);
    for line in f.lines() {
        let line = line.unwrap();
        if line.trim().is_empty() {
            continue;
        }
        let scn: Value = serde_json::from_str(&line).expect("scenario json");
        let v = match jstr(&scn, "op") {
            "kr" => run_kr(&m, &scn),
            "lock" => run_lock(t, seed, &scn),
            "pub" => run_pub(t, seed, &scn),
            "krbig" => run_krbig(t, seed, &scn),
            x => panic!("op {}", x),
        };
        writeln!(o, "{}", v).unwrap();
    }
    o.flush().unwrap();
}
