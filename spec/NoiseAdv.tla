------------------------------ MODULE NoiseAdv ------------------------------
(***************************************************************************)
(* C05: the Noise X handshake under a bounded Dolev-Yao adversary.         *)
(*                                                                         *)
(* A scenario fixes which private key seals (sPriv), which public key is   *)
(* claimed inside the message (sClaim), which recipient key is addressed   *)
(* (rs), the ephemeral pair used and claimed, the private key and the      *)
(* recipient_public argument of the decryptor, and which field (if any) is *)
(* spliced in from another authentic message to the same recipient.  The   *)
(* attacker's own key is A; low-order u-coordinates are LowOrder(1).       *)
(*                                                                         *)
(* Layer A is the declarative classification C05Class; Layer B is the      *)
(* token-by-token writer/reader of NoiseX.tla.  TLC checks that the        *)
(* model's verdict respects the classification for every scenario.         *)
(***************************************************************************)
EXTENDS NoiseX, C05Contract, TLC, Json

Prologue == Lit("65676b10")

Priv(id) == Sym(id)
PubId(id) == IF id = LO THEN LowOrder(1) ELSE PubOf(Sym(id))

\* the second authentic message (S2 -> R with E2), source of spliced fields
Other == Write(Prologue, Priv("S2"), PubId("S2"), Priv("E2"), PubId("E2"), PubId("R"), Sym("PK2"))

Msg(sc) ==
  LET w == IF sc.forge = "none"
           THEN Write(Prologue, Priv(sc.sPriv), PubId(sc.sClaim), Priv(sc.ePriv), PubId(sc.eClaim), PubId(sc.rs), Sym("PK"))
           ELSE WriteForged(Prologue, Priv(sc.sPriv), PubId(sc.sClaim), Priv(sc.ePriv), PubId(sc.eClaim), PubId(sc.rs), Sym("PK"), sc.forge)
  IN IF ~w.ok THEN w
     ELSE CASE sc.splice = "none" -> w
            [] sc.splice = "e"    -> [w EXCEPT !.e = Other.e]
            [] sc.splice = "encS" -> [w EXCEPT !.encS = Other.encS]
            [] sc.splice = "encP" -> [w EXCEPT !.encP = Other.encP]

Verdict(sc) ==
  LET m == Msg(sc)
  IN IF ~m.ok THEN [wrote |-> FALSE, ok |-> FALSE]
     ELSE LET r == Read(Prologue, Priv(sc.rPriv), PubId(sc.rParam), m)
          IN IF r.ok THEN [wrote |-> TRUE, ok |-> TRUE, sender |-> r.sender, payload |-> r.payload,
                           hhAgree |-> (r.hh = m.hh)]
             ELSE [wrote |-> TRUE, ok |-> FALSE]

DevStaticKeyInClear == "StaticKeyInClear"
DevSkipSS == "SkipSS"
DevReaderIgnoresSsFailure == "ReaderIgnoresSsFailure"
DevIgnoreDhZero == "IgnoreDhZero"

VARIABLES sc, phase
Init == sc \in Scenarios /\ phase = "start"
Next == phase = "start" /\ phase' = "done" /\ UNCHANGED sc
Spec == Init /\ [][Next]_<<sc, phase>>

V == Verdict(sc)
Refused      == C05Class(sc) = "refused" => ~V.wrote
NoNullKey    == (sc.rs = LO \/ sc.eClaim = LO \/ sc.sClaim = LO) => ~V.ok
OnlyAddressed == V.ok => (sc.rs = sc.rPriv /\ sc.rParam = sc.rPriv)
SenderAuthentic == V.ok => (sc.forge = "none" /\ Eq(V.sender, PubOf(Priv(sc.sPriv))) /\ V.payload = Sym("PK") /\ V.hhAgree)
RespectsClass == /\ C05Class(sc) = "must_reject" => ~V.ok
                 /\ C05Class(sc) = "must_accept" => V.ok
                 /\ (C05Class(sc) # "refused" /\ sc.forge = "none") => V.wrote

\* C08: nothing that is sent outside an AEAD mentions a static key (private or public) of
\* either party, and the cleartext fields do not depend on who the parties are.
ClearFields(m) == {x \in {m.e, m.encS, m.encP} : x.op # "aead"}
NoIdentityInClear ==
  LET m == Msg(sc)
  IN m.ok => \A x \in ClearFields(m) : \A id \in StaticIds \cup RecipIds :
                 ~Mentions(x, Sym(id)) /\ ~Mentions(x, PubOf(Sym(id)))
ClearIndependentOfIdentity ==
  LET m == Msg(sc)
      m2 == Msg([sc EXCEPT !.sPriv = "A", !.sClaim = "A", !.rs = IF sc.rs = "R" THEN "R2" ELSE "R"])
  IN (m.ok /\ m2.ok /\ sc.rs # LO /\ sc.forge = "none") => ClearFields(m) = ClearFields(m2)

Emit == phase = "done" =>
  PrintT(<<"REPLAY", ToJson([sc |-> sc, class |-> C05Class(sc), model |-> [wrote |-> V.wrote, ok |-> V.ok]])>>)
=============================================================================
