------------------------------- MODULE Terms -------------------------------
(***************************************************************************)
(* Symbolic byte-string terms over uninterpreted primitive symbols.        *)
(*                                                                         *)
(* Every artefact kestrel reads or writes (file header, Noise handshake,   *)
(* chunk record, nonce, AAD, locked private key, encoded public key) is    *)
(* defined in WireFormat.tla / NoiseX.tla as a term built from these       *)
(* constructors.  The terms serve two purposes:                            *)
(*                                                                         *)
(*  1. inside TLC they are the values of the symbolic crypto algebra:      *)
(*     equality after normalisation (Norm) decides whether an AEAD opens,  *)
(*     whether two DH results agree, whether a key is fresh;               *)
(*  2. printed with ToJson they are evaluated by the harness               *)
(*     (harness/driver/src/terms.rs) which interprets each primitive       *)
(*     symbol with the repository's exported function of the same name,    *)
(*     giving the concrete bytes the specification prescribes.             *)
(*                                                                         *)
(* All values are records with an "op" field (TLC compares records of      *)
(* different shapes as unequal but refuses to compare a record with a      *)
(* string, so atoms are records too).                                      *)
(***************************************************************************)
EXTENDS Naturals, Sequences, FiniteSets

\* ---- integer terms (lengths, counters): a TLC integer, or symbolic ----
NSym(n)     == [op |-> "nsym", v |-> n]          \* bound by the evaluator (may be a 64-bit value)
NAdd(a, b)  == [op |-> "nadd", a |-> <<a, b>>]
NSub(a, b)  == [op |-> "nsub", a |-> <<a, b>>]

\* ---- byte-string terms ----
Lit(h)      == [op |-> "hex", v |-> h]           \* literal bytes, hex
Ascii(s)    == [op |-> "ascii", v |-> s]         \* literal bytes, the ASCII of s
Sym(n)      == [op |-> "sym", v |-> n]           \* named byte string bound by the evaluator
Zeros(n)    == [op |-> "zeros", n |-> n]
Cat(ts)     == [op |-> "cat", a |-> ts]
Slice(t, lo, hi) == [op |-> "slice", a |-> <<t>>, lo |-> lo, hi |-> hi]   \* bytes lo..hi-1
BE32(n)     == [op |-> "be32", n |-> n]
BE64(n)     == [op |-> "be64", n |-> n]
LE64(n)     == [op |-> "le64", n |-> n]
B64(t)      == [op |-> "b64", a |-> <<t>>]        \* standard alphabet, padded
XorByte(t, b) == [op |-> "xorbyte", a |-> <<t>>, n |-> b]     \* every byte of t XOR the constant b
PadZero(t, n) == [op |-> "padzero", a |-> <<t>>, n |-> n]     \* t followed by zero bytes up to length n
Byte(b)     == [op |-> "byte", n |-> b]                       \* the single byte b
\* sequential bindings (keeps long recurrences linear in size): binds = <<[name, val], ...>>
Lets(binds, body) == [op |-> "lets", binds |-> binds, a |-> <<body>>]

Xor(a, b)   == [op |-> "xor", a |-> <<a, b>>]                     \* byte-wise XOR of two strings of equal length
\* integer term: t read as a little-endian integer, modulo n;  Select: the (0-based) idx-th of the terms ts
LeMod(t, n) == [op |-> "lemod", a |-> <<t>>, n |-> n]
Select(idx, ts) == [op |-> "select", idx |-> idx, a |-> ts]

\* ---- primitive symbols (interpreted by the exported functions of kestrel_crypto) ----
Sha(t)              == [op |-> "sha256", a |-> <<t>>]
Hmac(k, t)          == [op |-> "hmac", a |-> <<k, t>>]
Dh(sk, pk)          == [op |-> "x25519", a |-> <<sk, pk>>]
PubOf(sk)           == [op |-> "pub", a |-> <<sk>>]
Aead(k, n, ad, pt)  == [op |-> "aead", a |-> <<k, n, ad, pt>>]     \* RFC 8439 seal: ct || tag
Hkdf(salt, ikm, info, len) == [op |-> "hkdf", a |-> <<salt, ikm, info>>, n |-> len]
Salsa(t)            == [op |-> "salsa", a |-> <<t>>]                \* the Salsa20/8 core on one 64-byte block (hook)
Scrypt(pw, salt, n, r, p, len) == [op |-> "scrypt", a |-> <<pw, salt>>, N |-> n, r |-> r, p |-> p, n |-> len]

\* The Noise AEAD nonce: four zero bytes, then the 64-bit little-endian counter.
NonceBytes(ctr) == Cat(<<Zeros(4), LE64(ctr)>>)

\* ---- markers used only inside TLC (never evaluated to bytes) ----
Fail     == [op |-> "fail"]
ZeroDH   == [op |-> "zeros", n |-> 32]               \* the all-zero shared secret (= Zeros(32), so an attacker can write it down)
LowOrder(i) == [op |-> "loworder", v |-> i]         \* i-th low-order / non-canonical u-coordinate
Tampered(t) == [op |-> "tampered", a |-> <<t>>]     \* t with at least one bit changed

(***************************************************************************)
(* The algebra (the only cryptographic assumptions of the model; each is   *)
(* exercised against the real exported primitive by the C19 check):        *)
(*   DH(a, Pub(b)) = DH(b, Pub(a));   DH(_, LowOrder) = ZeroDH;            *)
(*   every other constructor is injective and the constructors have        *)
(*   disjoint ranges (collision freedom);                                  *)
(*   Open(k, n, ad, c) = m  iff  c = Aead(k, n, ad, m).                    *)
(***************************************************************************)
RECURSIVE Norm(_)
Norm(t) ==
  IF t.op = "x25519"
  THEN LET sk == Norm(t.a[1])
           pk == Norm(t.a[2])
       IN IF pk.op = "loworder" THEN ZeroDH
          ELSE IF pk.op = "pub" THEN [op |-> "dhn", ks |-> {sk, pk.a[1]}]
          ELSE [op |-> "x25519", a |-> <<sk, pk>>]
  ELSE IF "a" \in DOMAIN t THEN [t EXCEPT !.a = [i \in DOMAIN t.a |-> Norm(t.a[i])]]
  ELSE t

Eq(x, y)   == Norm(x) = Norm(y)
IsZeroDH(d) == Norm(d) = ZeroDH

\* AEAD open: succeeds exactly on an untampered seal under the same key, nonce and AD.
Open(k, n, ad, c) ==
  IF c.op = "aead" /\ Eq(c.a[1], k) /\ Eq(c.a[2], n) /\ Eq(c.a[3], ad) THEN c.a[4] ELSE Fail

\* Does term t mention sub-term s anywhere?  (used for "no identity in the clear")
RECURSIVE Mentions(_, _)
Mentions(t, s) ==
  \/ t = s
  \/ /\ "a" \in DOMAIN t
     /\ \E i \in DOMAIN t.a : Mentions(t.a[i], s)
=============================================================================
