------------------------------ MODULE MC_Terms ------------------------------
(* Prints the byte-layout templates of WireFormat/NoiseX as JSON terms for the
   harness evaluator (binding 3, "term evaluation").  One trivial state. *)
EXTENDS WireFormat, TLC, Json

VARIABLE done
Init == done = FALSE
Next == done = FALSE /\ done' = TRUE

HS == Write(KeyMagic, Sym("s_priv"), Sym("s_pub"), Sym("e_priv"), Sym("e_pub"), Sym("rs"), Sym("payload"))

\* the same writer with a symbolic prologue (noise_encrypt is exported with a prologue argument)
HSP == Write(Sym("prologue"), Sym("s_priv"), Sym("s_pub"), Sym("e_priv"), Sym("e_pub"), Sym("rs"), Sym("payload"))

\* attacker-built handshakes (C05): "ss" left out, or the all-zero secret mixed instead
HSK == WriteForged(KeyMagic, Sym("s_priv"), Sym("s_pub"), Sym("e_priv"), Sym("e_pub"), Sym("rs"), Sym("payload"), "skip_ss")
HSZ == WriteForged(KeyMagic, Sym("s_priv"), Sym("s_pub"), Sym("e_priv"), Sym("e_pub"), Sym("rs"), Sym("payload"), "zero_ss")

RS == ReadSchedule(KeyMagic, Sym("r_priv"), Sym("r_pub"), Sym("e_pub"), Sym("enc_s"), Sym("s_pub"), Sym("enc_p"))
RN == ReadScheduleNull(KeyMagic, Sym("r_pub"), Sym("e_pub"), Sym("enc_s"), Sym("enc_p"))

Templates ==
  [ chunk_record |-> ChunkRecord(Sym("key"), Sym("prefix"), NSym("ctr"), NSym("last"), NSym("len"), Sym("pt")),
    chunk_header |-> ChunkHeader(NSym("ctr"), NSym("last"), NSym("len")),
    chunk_aad    |-> ChunkAad(Sym("prefix"), NSym("last"), NSym("len")),
    nonce        |-> NonceBytes(NSym("ctr")),
    noise_msg    |-> HS.msg,
    noise_e      |-> HS.e,
    noise_enc_s  |-> HS.encS,
    noise_enc_p  |-> HS.encP,
    noise_hh     |-> HS.hh,
    key_header   |-> KeyHeader(HS),
    key_file_key |-> KeyFileKey(Sym("payload"), HS.hh),
    key_prefix   |-> KeyAadPrefix,
    pass_header  |-> PassHeader(Sym("salt")),
    pass_file_key|-> PassFileKey(Sym("password"), Sym("salt")),
    pass_prefix  |-> PassAadPrefix,
    locked_key   |-> LockedKey(Sym("sk"), Sym("password"), Sym("salt")),
    lock_kdf     |-> LockKdf(Sym("password"), Sym("salt")),
    locked_key_under |-> LockedKeyUnder(Sym("key"), Sym("sk"), Sym("salt")),
    encoded_pub  |-> EncodedPub(Sym("pk")),
    key_block    |-> KeyBlock(Sym("name"), Sym("pk"), Sym("locked")),
    pub_of       |-> PubOf(Sym("sk")),
    rd_k1        |-> RS.k1,  rd_n1 |-> RS.n1,  rd_ad1 |-> RS.ad1,
    rd_k2        |-> RS.k2,  rd_n2 |-> RS.n2,  rd_ad2 |-> RS.ad2,  rd_hh |-> RS.hh,
    rd_file_key  |-> KeyFileKey(Sym("payload"), RS.hh),
    null_k1      |-> RN.k1,  null_n1 |-> RN.n1,  null_ad1 |-> RN.ad1,
    null_k2      |-> RN.k2,  null_n2 |-> RN.n2,  null_ad2 |-> RN.ad2,
    null_file_key|-> KeyFileKey(Sym("payload"), RN.hh),
    key_header_skip_ss   |-> KeyHeader(HSK),  key_file_key_skip_ss |-> KeyFileKey(Sym("payload"), HSK.hh),
    key_header_zero_ss   |-> KeyHeader(HSZ),  key_file_key_zero_ss |-> KeyFileKey(Sym("payload"), HSZ.hh),
    noise_msg_p  |-> HSP.msg,
    noise_hh_p   |-> HSP.hh,
    hkdf_noise_1 |-> HkdfOut1(Sym("ck"), Sym("ikm")),
    hkdf_noise_2 |-> HkdfOut2(Sym("ck"), Sym("ikm")) ]

Emit == done => PrintT(<<"REPLAY", ToJson(Templates)>>)
=============================================================================
