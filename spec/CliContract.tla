----------------------------- MODULE CliContract -----------------------------
(***************************************************************************)
(* Layer A of the command-line tool (C12, C13): what an invocation must    *)
(* leave behind, as a function of the abstract request only.               *)
(*                                                                         *)
(* A configuration is a record                                             *)
(*   cmd     "encrypt" | "decrypt" | "pass_encrypt" | "pass_decrypt" |     *)
(*           "key_generate"                                                *)
(*   cause   "none" or the reason the invocation must fail                 *)
(*   prior   "absent" | "present"   state of the output path before        *)
(*   inp     "file" | "stdin"        how the input is supplied             *)
(*   outp    "file" | "stdout"       where the output goes                 *)
(*   kr      "opt" | "env" | "both"  -k, KESTREL_KEYRING, or -k together   *)
(*           with a KESTREL_KEYRING naming ANOTHER keyring (same names,    *)
(*           other keys): the variable is the default, -k overrides it     *)
(*   long    TRUE: --to/--from/--output/--keyring, FALSE: -t/-f/-o/-k      *)
(*   alias   TRUE: enc/dec/pass/gen, FALSE: full command names             *)
(*   sender  "first" | "last" | "absent" | "badsum"  where the sender's    *)
(*           key is in the decrypting keyring; "badsum": an entry with the *)
(*           sender's 32 key bytes but a checksum that does not match,     *)
(*           which is not a usable key and must not name anybody           *)
(***************************************************************************)
EXTENDS Integers, Sequences, FiniteSets

Cmds == {"encrypt", "decrypt", "pass_encrypt", "pass_decrypt", "key_generate"}

\* failure causes C13 lists, before any authenticated output exists
EarlyCauses(cmd) ==
  CASE cmd = "encrypt" ->
         {"bad_args", "missing_input", "same_in_out", "missing_keyring", "malformed_keyring", "non_utf8_keyring",
          "non_utf8_keyring_path", "keyring_is_directory", "unknown_recipient",
          "unknown_sender", "no_private_key", "wrong_password", "unset_password", "non_utf8_password", "no_terminal", "refused_exchange"}
    [] cmd = "decrypt" ->
         {"bad_args", "missing_input", "same_in_out", "missing_keyring", "malformed_keyring", "non_utf8_keyring",
          "non_utf8_keyring_path", "keyring_is_directory", "unknown_recipient",
          "no_private_key", "wrong_password", "unset_password", "non_utf8_password", "no_terminal", "wrong_recipient",
          "bad_header", "other_mode_file", "corrupt_header", "truncated_header", "corrupt_first_chunk", "truncated_first_chunk"}
    [] cmd = "pass_encrypt" -> {"bad_args", "missing_input", "same_in_out", "unset_password", "non_utf8_password", "no_terminal"}
    [] cmd = "pass_decrypt" ->
         {"bad_args", "missing_input", "same_in_out", "unset_password", "non_utf8_password", "no_terminal", "wrong_password",
          "bad_header", "other_mode_file", "corrupt_header", "truncated_header", "corrupt_first_chunk", "truncated_first_chunk"}
    [] cmd = "key_generate" -> {"bad_args", "unset_password", "non_utf8_password", "no_terminal", "empty_name"}
\* the output itself cannot be written: its directory does not exist, the device is full, or stdout
\* is a full device.  The operation did not complete: exit 1 with an error message (C12), nothing new
\* at a regular output path (C13 by analogy).
\* "stdout_closed": stdout is a pipe whose reader has gone away (EPIPE)
\* "output_is_directory": the output path names an existing directory
OutputCauses == {"output_dir_missing", "output_device_full", "stdout_full", "stdout_closed", "output_is_directory"}

\* "non_utf8_password": KESTREL_PASSWORD holds bytes that are not UTF-8; "no_terminal": no --env-pass and neither a
\* controlling terminal nor a terminal on stdin, so no password can be asked for; "non_utf8_keyring": the keyring file is
\* not UTF-8 text; "non_utf8_keyring_path": KESTREL_KEYRING holds bytes that are not UTF-8 (the tool cannot take the path
\* as given); "keyring_is_directory": the keyring path names a directory.
\* The input itself cannot be read (it is a directory: open succeeds, read fails).  Not one of C13's causes: the
\* operation did not complete, so exit 1 with an error message (C10 at the process boundary, C12); the state of the
\* output path is left open.
InputCauses == {"input_read_error"}

\* failures after the first chunk has been authenticated and written
LateCauses(cmd) == IF cmd \in {"decrypt", "pass_decrypt"} THEN {"corrupt_later_chunk", "truncated_later_chunk", "appended_data"} ELSE {}
Causes(cmd) == {"none"} \cup EarlyCauses(cmd) \cup LateCauses(cmd) \cup OutputCauses
               \cup (IF cmd = "key_generate" THEN {} ELSE InputCauses)

UsesKeyring(cmd) == cmd \in {"encrypt", "decrypt"}
HasInput(cmd) == cmd # "key_generate"

Configs ==
  {c \in [cmd : Cmds, cause : UNION {Causes(x) : x \in Cmds}, prior : {"absent", "present"},
          inp : {"file", "stdin"}, outp : {"file", "stdout"}, kr : {"opt", "env", "both"},
          long : BOOLEAN, alias : BOOLEAN, sender : {"first", "last", "absent", "badsum"}] :
     /\ c.cause \in Causes(c.cmd)
     /\ (~UsesKeyring(c.cmd) => c.kr = "opt")
     /\ (c.cmd # "decrypt" => c.sender = "first")
     /\ (~HasInput(c.cmd) => c.inp = "stdin")                  \* key generate reads the name from stdin
     /\ (c.outp = "stdout" => c.prior = "absent")               \* no output path
     /\ (c.cause \in {"missing_input", "input_read_error"} => c.inp = "file")
     /\ (c.cause = "same_in_out" => (c.inp = "file" /\ c.outp = "file" /\ c.prior = "present"))
     /\ (c.cmd = "key_generate" => c.cause # "same_in_out")
     /\ (c.cause \in {"output_dir_missing", "output_device_full"} => (c.outp = "file" /\ c.prior = "absent"))
     /\ (c.cause \in {"stdout_full", "stdout_closed"} => c.outp = "stdout")
     /\ (c.cause = "output_is_directory" => (c.outp = "file" /\ c.prior = "absent"))
     /\ (c.cause = "non_utf8_keyring_path" => c.kr = "env")}

\* The abstract request: everything but the wiring.
Abstract(c) == [cmd |-> c.cmd, cause |-> c.cause, sender |-> c.sender]

(***************************************************************************)
(* Expected observation (C12, C13):                                        *)
(*   exit      0 exactly when the operation completed                      *)
(*   errline   an "Error:" line exactly when exit = 1                      *)
(*   out       "full"      the complete result is at the output            *)
(*             "untouched" a pre-existing output file is byte-identical    *)
(*             "absent"    no file exists at the output path               *)
(*             "prefix1"   exactly the authenticated prefix (first chunk)  *)
(*             "appended"  key generate: old contents ++ the new block     *)
(*   named     decrypt success: "name" the keyring entry holding the       *)
(*             sender's key is named / "unknown" with its encoding         *)
(***************************************************************************)
Expected(c) ==
  IF c.cause = "none"
  THEN [exit |-> 0, errline |-> FALSE,
        out |-> IF c.cmd = "key_generate" /\ c.prior = "present" THEN "appended" ELSE "full",
        named |-> IF c.cmd = "decrypt" THEN (IF c.sender \in {"absent", "badsum"} THEN "unknown" ELSE "name") ELSE "n/a"]
  ELSE IF c.cause \in OutputCauses
  THEN [exit |-> 1, errline |-> TRUE,
        out |-> IF c.cause = "output_dir_missing" THEN "absent" ELSE "n/a", named |-> "n/a"]
  ELSE IF c.cause \in InputCauses
  THEN [exit |-> 1, errline |-> TRUE, out |-> "n/a", named |-> "n/a"]
  ELSE IF c.cause \in LateCauses(c.cmd)
  THEN [exit |-> 1, errline |-> TRUE,
        \* test files have two chunks and the damage is in / after the second: the first chunk is the
        \* authenticated prefix; with data appended after an authentic final chunk that chunk may be out too
        out |-> IF c.cause = "appended_data" THEN "prefix1or2" ELSE "prefix1", named |-> "n/a"]
  ELSE [exit |-> 1, errline |-> TRUE,
        out |-> IF c.outp = "stdout" THEN "none" ELSE IF c.prior = "present" THEN "untouched" ELSE "absent",
        named |-> "n/a"]
=============================================================================
