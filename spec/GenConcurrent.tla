--------------------------- MODULE GenConcurrent ---------------------------
(***************************************************************************)
(* Beyond the listed properties: two `kestrel key generate -o F` processes *)
(* running at the same time on one file (C14 quantifies over SEQUENCES of  *)
(* commands only).  gen_key (src/cli/src/commands.rs) does, per process:   *)
(*                                                                         *)
(*   Look     exists := Path::new(F).exists()        (decides the leading  *)
(*            newline and how the file is opened)                          *)
(*   Open     exists: OpenOptions::append(true).open(F)                    *)
(*            else:   OnDemandFile: File::create(F) at the first write     *)
(*                    (creates or TRUNCATES)                               *)
(*   Write    one write_all of the whole block (a single append / write)   *)
(*                                                                         *)
(* The file is the sequence of blocks it holds.  TLC shows:                *)
(*   - F present initially: every interleaving keeps all keys (append      *)
(*     writes are atomic and ordered): KeepsKeys holds;                    *)
(*   - F absent initially: both processes can see "absent"; the second     *)
(*     File::create truncates what the first one wrote: KeepsKeys fails.   *)
(* This is recorded as an observation (DESIGN.md 7), not as a finding: no  *)
(* listed property quantifies over concurrent invocations.                 *)
(***************************************************************************)
EXTENDS Integers, Sequences, FiniteSets, TLC

CONSTANTS Procs,            \* e.g. {1, 2}
          InitiallyPresent  \* BOOLEAN

VARIABLES present,  \* does F exist
          file,     \* its blocks (block = the process that wrote it, 0 = the initial content, -1 = a hole)
          pc,       \* process -> "look" | "open" | "write" | "done"
          saw,      \* process -> what Look returned
          mode,     \* process -> "none" | "append" | "create"
          pos       \* process -> write offset of a handle opened with create (number of blocks), unused for append
vars == <<present, file, pc, saw, mode, pos>>

Init == /\ present = InitiallyPresent /\ file = IF InitiallyPresent THEN <<0>> ELSE <<>>
        /\ pc = [p \in Procs |-> "look"] /\ saw = [p \in Procs |-> FALSE]
        /\ mode = [p \in Procs |-> "none"] /\ pos = [p \in Procs |-> 0]

Look(p) == /\ pc[p] = "look" /\ saw' = [saw EXCEPT ![p] = present]
           /\ pc' = [pc EXCEPT ![p] = "open"] /\ UNCHANGED <<present, file, mode, pos>>
Open(p) == /\ pc[p] = "open"
           /\ IF saw[p]
              THEN /\ present                       \* (nobody deletes the file in this model)
                   /\ mode' = [mode EXCEPT ![p] = "append"] /\ UNCHANGED <<present, file, pos>>
              ELSE \* OnDemandFile: nothing happens to the file yet; File::create runs at the first write
                   /\ mode' = [mode EXCEPT ![p] = "create"] /\ UNCHANGED <<present, file, pos>>
           /\ pc' = [pc EXCEPT ![p] = "write"] /\ UNCHANGED saw
Write(p) == /\ pc[p] = "write"
            /\ IF mode[p] = "append"
               THEN file' = Append(file, p) /\ UNCHANGED <<present, pos>>
               ELSE \* File::create (create or TRUNCATE), then the block at offset 0
                    /\ present' = TRUE /\ file' = <<p>> /\ pos' = [pos EXCEPT ![p] = 1]
            /\ pc' = [pc EXCEPT ![p] = "done"] /\ UNCHANGED <<saw, mode>>
Next == \E p \in Procs : Look(p) \/ Open(p) \/ Write(p)
Spec == Init /\ [][Next]_vars

AllDone == \A p \in Procs : pc[p] = "done"
Blocks == {file[i] : i \in 1..Len(file)}
\* every key generated so far is in the file, and so is what was there before
KeepsKeys == AllDone => (Procs \subseteq Blocks /\ (InitiallyPresent => 0 \in Blocks))
=============================================================================
