--------------------------- MODULE KeyringContract ---------------------------
(* Layer A of C17: line tokens and the declarative contract (no state).  See Keyring.tla. *)
EXTENDS Naturals, Sequences, FiniteSets

\* ---- line tokens ----
NameVals == {"a", "b", "tab", "empty", "n128", "n129"}   \* "tab" = a name with an interior tab; "b" is rendered as a name that
                                                          \* contains the '=' separator several times, also at its end
PubVals  == {"P1", "P2", "badpub"}
PrivVals == {"K1", "badpriv"}
Tokens ==
  {[t |-> "key"], [t |-> "comment"], [t |-> "blank"], [t |-> "junk"], [t |-> "name_noeq"]}
  \cup {[t |-> "name", v |-> v] : v \in NameVals}
  \cup {[t |-> "pub", v |-> v] : v \in PubVals}
  \cup {[t |-> "priv", v |-> v] : v \in PrivVals}

ValidName(v) == v \notin {"empty", "n129"}      \* 1..128 bytes
WellPub(v)   == v \in {"P1", "P2"}              \* base64 of 36 bytes
WellPriv(v)  == v = "K1"                        \* base64 of 84 bytes
None == "none"

----------------------------------------------------------------------------
(* Layer A *)

\* index of the section (0 = before the first [Key]) each token belongs to
RECURSIVE SecOf(_, _)
SecOf(toks, i) == IF i = 0 THEN 0
                  ELSE SecOf(toks, i - 1) + (IF toks[i].t = "key" THEN 1 ELSE 0)
NSec(toks) == SecOf(toks, Len(toks))
InSec(toks, s) == {i \in 1..Len(toks) : SecOf(toks, i) = s}
Vals(toks, s, kind) == {toks[i].v : i \in {k \in InSec(toks, s) : toks[k].t = kind}}
Count(toks, s, kind) == Cardinality({k \in InSec(toks, s) : toks[k].t = kind})

SectionBad(toks, s) ==
  \/ Count(toks, s, "name") = 0 \/ \E v \in Vals(toks, s, "name") : ~ValidName(v)
  \/ Count(toks, s, "pub") = 0  \/ \E v \in Vals(toks, s, "pub") : ~WellPub(v)
  \/ \E v \in Vals(toks, s, "priv") : ~WellPriv(v)
Repeated(toks) ==
  \E s1, s2 \in 1..NSec(toks) : s1 # s2 /\
     (Vals(toks, s1, "name") \cap Vals(toks, s2, "name") # {} \/ Vals(toks, s1, "pub") \cap Vals(toks, s2, "pub") # {})
MustReject(toks) == (\E s \in 1..NSec(toks) : SectionBad(toks, s)) \/ Repeated(toks)

\* every section has exactly one name, one public key, at most one private key; nothing else
Unambiguous(toks) ==
  /\ NSec(toks) >= 1
  /\ \A i \in 1..Len(toks) : toks[i].t \in {"key", "name", "pub", "priv", "comment", "blank"}
  /\ \A i \in InSec(toks, 0) : toks[i].t \in {"comment", "blank"}
  /\ \A s \in 1..NSec(toks) : Count(toks, s, "name") = 1 /\ Count(toks, s, "pub") = 1 /\ Count(toks, s, "priv") <= 1
The(S) == CHOOSE x \in S : TRUE
Entries(toks) ==
  [s \in 1..NSec(toks) |->
     [name |-> The(Vals(toks, s, "name")), pub |-> The(Vals(toks, s, "pub")),
      priv |-> IF Count(toks, s, "priv") = 0 THEN None ELSE The(Vals(toks, s, "priv"))]]

\* what `key generate` writes: [Key], Name, PublicKey, PrivateKey; a blank line before every further block
RECURSIVE IsBlocks(_)
IsBlocks(toks) ==
  \/ toks = <<>>
  \/ /\ Len(toks) >= 4
     /\ toks[1].t = "key" /\ toks[2].t = "name" /\ toks[3].t = "pub" /\ toks[4].t = "priv"
     /\ \/ Len(toks) = 4
        \/ Len(toks) > 5 /\ toks[5].t = "blank" /\ IsBlocks(SubSeq(toks, 6, Len(toks)))
ToolWritten(toks) ==
  /\ toks # <<>> /\ IsBlocks(toks)
  /\ ~MustReject(toks)
MustAccept(toks) == ToolWritten(toks)

Class(toks) == IF MustReject(toks) THEN "must_reject" ELSE IF MustAccept(toks) THEN "must_accept" ELSE "may"

=============================================================================
