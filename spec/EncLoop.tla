------------------------------- MODULE EncLoop -------------------------------
(***************************************************************************)
(* Layer B (implementation model) of the encryptor:                        *)
(*   key_encrypt / pass_encrypt header phase  (encrypt.rs:27-105)          *)
(*   encrypt_chunks                           (encrypt.rs:117-177)         *)
(* at the grain of one action per I/O call.  The environment chooses how   *)
(* many bytes each read returns, how many each write accepts, and which    *)
(* call fails (and how).                                                   *)
(*                                                                         *)
(* Plaintext byte i is the abstract value i; a chunk is the interval       *)
(* [lo, hi).  The model runs in "scale 1" (CS small); schedules are        *)
(* replayed on the hooked loop with the same CS, and - scaled - on the     *)
(* public functions with CS = 65536.                                       *)
(*                                                                         *)
(* Named deviations (Variant) are alternative behaviours kept in the model *)
(* so that every invariant is shown to bite (negative configurations).     *)
(***************************************************************************)
EXTENDS Integers, Sequences, FiniteSets, TLC, Json

CONSTANTS CS,          \* chunk size
          MaxLen,      \* plaintext lengths 0..MaxLen
          HdrItems,    \* sizes of the header items written (write_all each) before the loop, then one flush
          MaxFaults,   \* injected faults per run
          MaxSplits,   \* partial accepts per run (-1: unbounded)
          MaxShort,    \* short reads per run (-1: unbounded); a short read returns fewer bytes than asked AND fewer than remain
          NonConf,     \* TRUE: the source may deliver data after having signalled end of data
          Variant      \* "none" or the name of a deviation

VARIABLES L,        \* plaintext length
          pos,      \* bytes delivered by the source
          pc,       \* "hdr" | "hflush" | "read0" | "read" | "seal" | "write" | "flush" | "end"
          hix,      \* index of the header item being written
          plo, prevLen,   \* the look-ahead buffer `prev`: plaintext interval [plo, plo+prevLen)
          numRead,  \* bytes in `buff` from the latest read
          done,     \* end of data seen
          ctr,      \* chunk_number
          item,     \* what is being written: [k, size, ctr, last, lo, hi]
          acc,      \* bytes of `item` the sink has accepted so far
          sink,     \* completely accepted items, in order (the partial one is `item`/`acc`)
          sealed,   \* history: every AEAD seal performed, [nonce, last, lo, hi]
          res,      \* "run" | "ok" | "err_read" | "err_write" | "err_unexpected"
          faults, splits, shorts,   \* budgets used
          hardFault,  \* history: a non-retried fault happened ("none" | "read" | "write")
          eofSignalled, \* the source returned 0 at least once
          rs, ws, fs  \* history: the schedule, one directive per read / write / flush call

vars == <<L, pos, pc, hix, plo, prevLen, numRead, done, ctr, item, acc, sink, sealed, res,
          faults, splits, shorts, hardFault, eofSignalled, rs, ws, fs>>

\* schedule directives are integers: n >= 0 bytes, or one of these codes
D_OTHER   == -1
D_INTR    == -2
D_EXTRA   == -3
D_FULL    == -4
D_ALLBUT1 == -5

NoItem == [k |-> "none", size |-> 0, ctr |-> 0, last |-> 0, lo |-> 0, hi |-> 0]
HdrItem(i) == [k |-> "file", size |-> HdrItems[i], ctr |-> 0, last |-> 0, lo |-> 0, hi |-> 0]

Min(a, b) == IF a < b THEN a ELSE b

Init == /\ L \in 0..MaxLen /\ pos = 0
        /\ pc = (IF HdrItems = <<>> THEN "read0" ELSE "hdr") /\ hix = 1
        /\ plo = 0 /\ prevLen = 0 /\ numRead = 0 /\ done = FALSE /\ ctr = 0
        /\ item = (IF HdrItems = <<>> THEN NoItem ELSE HdrItem(1)) /\ acc = 0
        /\ sink = <<>> /\ sealed = {} /\ res = "run"
        /\ faults = 0 /\ splits = 0 /\ shorts = 0 /\ hardFault = "none" /\ eofSignalled = FALSE
        /\ rs = <<>> /\ ws = <<>> /\ fs = <<>>

----------------------------------------------------------------------------
(* reads *)

Avail == L - pos
\* what a conforming source may return to read(buf[CS]): 0 only at end of data
ReadSizes ==
  IF Avail = 0 THEN {0}
  ELSE LET full == Min(CS, Avail)
       IN {full} \cup (IF MaxShort < 0 \/ shorts < MaxShort THEN 1..full ELSE {})
IsShort(n) == n < Min(CS, Avail)

\* first read, before the loop (encrypt.rs:130-134)
ReadFirst ==
  /\ pc = "read0"
  /\ \E n \in (IF Variant = "ReadAllFirst" THEN {Avail} ELSE ReadSizes) :   \* deviation: slurp the whole input
       /\ prevLen' = n /\ plo' = pos /\ pos' = pos + n
       /\ done' = (n = 0)
       /\ shorts' = IF MaxShort >= 0 /\ IsShort(n) THEN shorts + 1 ELSE shorts
       /\ eofSignalled' = (eofSignalled \/ n = 0)
       /\ rs' = Append(rs, n)
  /\ pc' = "read"
  /\ UNCHANGED <<L, hix, numRead, ctr, item, acc, sink, sealed, res, faults, splits, hardFault, ws, fs>>

\* look-ahead read at the top of the loop (encrypt.rs:136-141)
ReadNext ==
  /\ pc = "read"
  /\ \E n \in ReadSizes \cup (IF NonConf /\ eofSignalled /\ Avail = 0 THEN {1} ELSE {}) :
       /\ numRead' = n
       /\ pos' = IF n <= Avail THEN pos + n ELSE pos
       /\ shorts' = IF MaxShort >= 0 /\ Avail > 0 /\ IsShort(n) THEN shorts + 1 ELSE shorts
       /\ eofSignalled' = (eofSignalled \/ n = 0)
       /\ rs' = Append(rs, IF n > Avail THEN D_EXTRA ELSE n)
       /\ IF Variant = "ShortReadIsEof"
          THEN \* deviation: a read shorter than the buffer is taken for end of data
               /\ done' = (done \/ n < CS)
               /\ pc' = "seal" /\ res' = res
          ELSE IF n # 0 /\ done
          THEN /\ pc' = "end" /\ res' = "err_unexpected" /\ done' = done
          ELSE /\ pc' = "seal" /\ res' = res /\ done' = (done \/ n = 0)
  /\ UNCHANGED <<L, hix, plo, prevLen, ctr, item, acc, sink, sealed, faults, splits, hardFault, ws, fs>>

\* a failing read: bare `read`, so even ErrorKind::Interrupted is returned as IORead
ReadFail ==
  /\ pc \in {"read0", "read"} /\ faults < MaxFaults
  /\ \E kind \in {D_OTHER, D_INTR} : rs' = Append(rs, kind)
  /\ pc' = "end" /\ res' = "err_read" /\ faults' = faults + 1 /\ hardFault' = "read"
  /\ UNCHANGED <<L, pos, hix, plo, prevLen, numRead, done, ctr, item, acc, sink, sealed, splits, shorts,
                 eofSignalled, ws, fs>>

----------------------------------------------------------------------------
(* seal: chapoly_encrypt_noise(key, chunk_number, aad(last, len), prev[..prev_read]) *)

Seal ==
  /\ pc = "seal"
  /\ LET last == IF done THEN 1 ELSE 0
         lo   == IF Variant = "SealCurrentBuffer" THEN pos - numRead ELSE plo
         len  == IF Variant = "SealCurrentBuffer" THEN numRead ELSE prevLen
     IN /\ sealed' = sealed \cup {[nonce |-> ctr, last |-> last, lo |-> lo, hi |-> lo + len]}
        /\ item' = [k |-> "rhdr", size |-> 16, ctr |-> ctr, last |-> last, lo |-> lo, hi |-> lo + len]
  /\ acc' = 0 /\ pc' = "write"
  /\ UNCHANGED <<L, pos, hix, plo, prevLen, numRead, done, ctr, sink, res, faults, splits, shorts, hardFault,
                 eofSignalled, rs, ws, fs>>

----------------------------------------------------------------------------
(* writes: write_all(item) = a loop of write calls; each accepts 1..remaining bytes *)

Rem == item.size - acc
Accepts == {Rem} \cup (IF (MaxSplits < 0 \/ splits < MaxSplits) /\ Rem > 1 THEN {1, Rem - 1} ELSE {})
Directive(n) == IF n = Rem THEN D_FULL ELSE IF n = 1 THEN 1 ELSE D_ALLBUT1

AfterItem ==  \* what follows a completely written item
  IF item.k = "file"
  THEN IF hix < Len(HdrItems)
       THEN /\ hix' = hix + 1 /\ item' = HdrItem(hix + 1) /\ pc' = "hdr"
       ELSE /\ hix' = hix /\ item' = NoItem /\ pc' = "hflush"
  ELSE IF item.k = "rhdr"
  THEN /\ hix' = hix /\ pc' = "write"
       /\ item' = [item EXCEPT !.k = "rbody", !.size = (item.hi - item.lo) + 16]
  ELSE /\ hix' = hix /\ item' = NoItem /\ pc' = "flush"

Write ==
  /\ pc \in {"hdr", "write"}
  /\ \E n \in Accepts :
       /\ ws' = Append(ws, Directive(n))
       /\ splits' = IF MaxSplits >= 0 /\ n < Rem THEN splits + 1 ELSE splits
       /\ IF acc + n = item.size
          THEN /\ sink' = Append(sink, item) /\ acc' = 0 /\ AfterItem
          ELSE /\ IF Variant = "WriteNotAll"
                  THEN \* deviation: a single write instead of write_all - the rest is dropped
                       /\ sink' = Append(sink, [item EXCEPT !.size = acc + n]) /\ acc' = 0 /\ AfterItem
                  ELSE /\ acc' = acc + n /\ sink' = sink /\ UNCHANGED <<hix, item, pc>>
  /\ UNCHANGED <<L, pos, plo, prevLen, numRead, done, ctr, sealed, res, faults, shorts, hardFault, eofSignalled, rs, fs>>

\* a failing write call: error, zero-length accept (write_all turns it into WriteZero), or
\* ErrorKind::Interrupted (write_all retries the call)
WriteFail ==
  /\ pc \in {"hdr", "write"} /\ faults < MaxFaults
  /\ \E kind \in {D_OTHER, 0, D_INTR} :
       /\ ws' = Append(ws, kind)
       /\ IF kind = D_INTR
          THEN UNCHANGED <<pc, res, hardFault>>
          ELSE pc' = "end" /\ res' = "err_write" /\ hardFault' = "write"
  /\ faults' = faults + 1
  /\ UNCHANGED <<L, pos, hix, plo, prevLen, numRead, done, ctr, item, acc, sink, sealed, splits, shorts,
                 eofSignalled, rs, fs>>

----------------------------------------------------------------------------
(* flush after the header and after every record *)

NextChunk ==  \* prev.clone_from(buff); prev_read = num_read; chunk_number += 1
  /\ plo' = pos - numRead /\ prevLen' = numRead
  /\ ctr' = IF Variant = "CounterStuck" THEN ctr
            ELSE IF Variant = "CounterSkips" THEN ctr + 2 ELSE ctr + 1

Flush ==
  /\ pc \in {"hflush", "flush"}
  /\ fs' = Append(fs, D_FULL)
  /\ IF pc = "hflush" THEN pc' = "read0" /\ UNCHANGED <<plo, prevLen, ctr, res>>
     ELSE IF done THEN pc' = "end" /\ res' = "ok" /\ UNCHANGED <<plo, prevLen, ctr>>
     ELSE pc' = "read" /\ res' = res /\ NextChunk
  /\ UNCHANGED <<L, pos, hix, numRead, done, item, acc, sink, sealed, faults, splits, shorts, hardFault,
                 eofSignalled, rs, ws>>

FlushFail ==
  /\ pc \in {"hflush", "flush"} /\ faults < MaxFaults
  /\ \E kind \in {D_OTHER, D_INTR} : fs' = Append(fs, kind)
  /\ faults' = faults + 1
  /\ IF Variant = "SwallowFlushError"
     THEN \* deviation: the result of flush is ignored
          /\ hardFault' = "write"
          /\ IF pc = "hflush" THEN pc' = "read0" /\ UNCHANGED <<plo, prevLen, ctr, res>>
             ELSE IF done THEN pc' = "end" /\ res' = "ok" /\ UNCHANGED <<plo, prevLen, ctr>>
             ELSE pc' = "read" /\ res' = res /\ NextChunk
     ELSE pc' = "end" /\ res' = "err_write" /\ hardFault' = "write" /\ UNCHANGED <<plo, prevLen, ctr>>
  /\ UNCHANGED <<L, pos, hix, numRead, done, item, acc, sink, sealed, splits, shorts, eofSignalled, rs, ws>>

Next == ReadFirst \/ ReadNext \/ ReadFail \/ Seal \/ Write \/ WriteFail \/ Flush \/ FlushFail

Spec     == Init /\ [][Next]_vars
FairSpec == Spec /\ WF_vars(Next)

----------------------------------------------------------------------------
(* Layer A predicates evaluated on the model *)

Bodies  == SelectSeq(sink, LAMBDA it : it.k = "rbody")
RHdrs   == SelectSeq(sink, LAMBDA it : it.k = "rhdr")
FileHdr == SelectSeq(sink, LAMBDA it : it.k = "file")

RECURSIVE SumSizes(_)
SumSizes(s) == IF s = <<>> THEN 0 ELSE Head(s).size + SumSizes(Tail(s))
SinkBytes == SumSizes(sink) + acc
RECURSIVE SumSeq(_)
SumSeq(s) == IF s = <<>> THEN 0 ELSE Head(s) + SumSeq(Tail(s))
HdrLen == SumSeq(HdrItems)

\* C07 (within one file): chunk i is sealed exactly once, under nonce i
NonceOnce == \A a, b \in sealed : a.nonce = b.nonce => a = b
NonceIsIndex == \A a \in sealed : a.nonce < Cardinality(sealed)

\* C01/C06/C08: on success the sink is header ++ records forming a legal chunking of 0..L-1
LegalOutput == res = "ok" =>
   /\ Len(Bodies) = Len(RHdrs) /\ Len(Bodies) >= 1
   /\ Len(FileHdr) = Len(HdrItems)
   /\ \A i \in 1..Len(Bodies) :
        /\ Bodies[i].ctr = i - 1 /\ RHdrs[i].ctr = i - 1
        /\ Bodies[i].last = (IF i = Len(Bodies) THEN 1 ELSE 0)
        /\ Bodies[i].lo = (IF i = 1 THEN 0 ELSE Bodies[i - 1].hi)
        /\ Bodies[i].hi - Bodies[i].lo <= CS
        /\ (Bodies[i].hi - Bodies[i].lo >= 1 \/ (L = 0 /\ Len(Bodies) = 1))
        /\ Bodies[i].size = (Bodies[i].hi - Bodies[i].lo) + 16
        /\ RHdrs[i].size = 16
   /\ Bodies[Len(Bodies)].hi = L
   /\ SinkBytes = HdrLen + 32 * Len(Bodies) + L        \* the size formula of C08
   /\ pos = L /\ eofSignalled

\* C11: a chunk is completely written before more than two further chunks are consumed
Covered == IF Len(Bodies) = 0 THEN 0 ELSE Bodies[Len(Bodies)].hi
Lag == pos - Covered <= 2 * CS

\* C10
Completes     == (pc = "end" /\ faults = 0 /\ res # "err_unexpected") => res = "ok"
OnlyNonConfUnexpected == res = "err_unexpected" => NonConf
FaultSurfaces == /\ (pc = "end" /\ hardFault = "read")  => res = "err_read"
                 /\ (pc = "end" /\ hardFault = "write") => res = "err_write"
                 /\ res = "ok" => hardFault = "none"
\* what has been written so far is always a prefix of a legal output: items in program order
PrefixShape == \A i \in 1..Len(sink) :
                  /\ i <= Len(HdrItems) => sink[i].k = "file"
                  /\ i > Len(HdrItems) => sink[i].k = (IF (i - Len(HdrItems)) % 2 = 1 THEN "rhdr" ELSE "rbody")

TypeOK == /\ pos \in 0..L /\ ctr \in Nat /\ acc \in 0..(IF item.size = 0 THEN 0 ELSE item.size - 1)
          /\ pc \in {"hdr", "hflush", "read0", "read", "seal", "write", "flush", "end"}
          /\ res \in {"run", "ok", "err_read", "err_write", "err_unexpected"}
          /\ (pc = "end") = (res # "run")

Termination == <>(pc = "end")

\* exhaustive checking: hide the schedule history (it multiplies states without adding behaviour)
View == <<L, pos, pc, hix, plo, prevLen, numRead, done, ctr, item, acc, sink, sealed, res,
          faults, splits, shorts, hardFault, eofSignalled>>

\* ---- behaviour emission (spec -> impl replay): one line per complete behaviour ----
RECURSIVE Lens(_)
Lens(s) == IF s = <<>> THEN <<>> ELSE <<Head(s).hi - Head(s).lo>> \o Lens(Tail(s))
Emit == (pc = "end") =>
   PrintT(<<"REPLAY", ToJson([op |-> "enc", plen |-> L, cs |-> CS, rs |-> rs, ws |-> ws, fs |-> fs,
                              nonconf |-> (\E i \in 1..Len(rs) : rs[i] = D_EXTRA),
                              exp |-> [res |-> res, chunks |-> Lens(Bodies), sink |-> SinkBytes]])>>)
=============================================================================
