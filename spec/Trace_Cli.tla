------------------------------ MODULE Trace_Cli ------------------------------
(***************************************************************************)
(* Layer A trace specification for runs of the real kestrel binary.        *)
(*   cli   one invocation of a configuration of CliContract (C12, C13)     *)
(*   argv  one invocation with an arbitrary argument vector (C09)          *)
(*   gen   one step of a key-generation history (C14)                      *)
(*   life  one step of a key life-cycle history (C16)                      *)
(***************************************************************************)
EXTENDS CliContract, PromptContract, TLC, Json, IOUtils, SequencesExt

Rec == ndJsonDeserialize(IOEnv.TRACE)
N   == Len(Rec)
VARIABLES l, viol
vars == <<l, viol>>
Init == l = 1 /\ viol = {}
Flag(cond, name) == IF cond THEN {} ELSE {<<l, name>>}

Cfg(e) == [cmd |-> e.cfg.cmd, cause |-> e.cfg.cause, prior |-> e.cfg.prior, inp |-> e.cfg.inp, outp |-> e.cfg.outp,
           kr |-> e.cfg.kr, long |-> e.cfg.long, alias |-> e.cfg.alias, sender |-> e.cfg.sender]

OutMatches(want, got) ==
  \/ want = got
  \/ want = "prefix1or2" /\ got \in {"prefix1", "full"}

CliChecks(e) ==
  LET c == Cfg(e)
      x == Expected(c)
  IN Flag(c \in Configs, "TOOL_config_outside_contract")
     \cup Flag(e.exit \in {0, 1}, "C12_exit_status_not_0_or_1")
     \cup Flag(e.exit = x.exit, "C12_exit_status_untruthful")
     \cup Flag(e.errline = (e.exit = 1), "C12_error_line_iff_exit_1")
     \cup (IF c.cause = "none"
           THEN (IF x.out = "appended"
                 THEN Flag(OutMatches(x.out, e.out), "C14_generate_did_not_append")
                 ELSE Flag(OutMatches(x.out, e.out), "C12_result_incomplete_or_wrong"))
           ELSE IF c.cause \in OutputCauses
           THEN Flag(x.out = "n/a" \/ OutMatches(x.out, e.out), "C13_output_created_although_it_cannot_be_written")
           ELSE IF c.cause \in LateCauses(c.cmd)
           THEN Flag(OutMatches(x.out, e.out), "C13_output_is_not_the_authenticated_prefix")
           ELSE Flag(OutMatches(x.out, e.out), "C13_output_created_or_clobbered_by_failed_command"))
     \cup Flag(e.exit = 0 => e.named = x.named, "C12_sender_not_named_correctly")
     \* C10 at the tool: an I/O failure (output cannot be written, reader gone, input cannot be read) is never a success
     \cup Flag(c.cause \in (OutputCauses \cup InputCauses) => (e.exit = 1 /\ e.errline), "C10_io_failure_not_reported_as_an_error_by_the_tool")
     \* C13 for key generation onto an existing file: whatever it holds, a run that fails leaves it as it was
     \cup Flag((c.cmd = "key_generate" /\ c.prior = "present" /\ c.outp = "file" /\ e.exit # 0) => e.out = "untouched",
               "C13_output_created_or_clobbered_by_failed_command")
     \* C03 at the tool: a modified, truncated or extended file is never a success
     \cup Flag((c.cmd \in {"decrypt", "pass_decrypt"} /\ c.cause \in (LateCauses(c.cmd) \cup {"bad_header", "corrupt_header", "truncated_header",
                  "corrupt_first_chunk", "truncated_first_chunk", "other_mode_file"})) => e.exit # 0, "C03_tool_accepts_a_modified_or_truncated_file")
     \* C10 at the tool: a sink that takes part of what it is offered (stdout and its line buffer) loses nothing
     \cup Flag((c.cause = "none" /\ c.outp = "stdout" /\ c.cmd # "key_generate") => (e.exit = 0 /\ OutMatches(x.out, e.out)),
               "C10_tool_loses_data_on_a_partial_write")
     \* C04 at the tool: decryption reports success only for a complete authentic message completely delivered
     \cup Flag((c.cmd \in {"decrypt", "pass_decrypt"} /\ c.cause # "none") => e.exit # 0, "C04_tool_reports_success_without_a_verified_and_delivered_final_chunk")
     \* C04 at the tool: whatever the output path held before, after a decryption it holds the authentic plaintext - all of
     \* it on success, the authenticated prefix after a later chunk failed - and nothing else
     \cup Flag((c.cmd \in {"decrypt", "pass_decrypt"} /\ c.outp = "file" /\ (c.cause = "none" \/ c.cause \in LateCauses(c.cmd)))
                 => OutMatches(x.out, e.out), "C04_destination_is_not_exactly_the_authenticated_plaintext_prefix")
     \* C15 at the tool: a password the tool cannot take as given (not UTF-8), or a wrong one, never locks or unlocks anything
     \cup Flag(c.cause \in {"non_utf8_password", "wrong_password"} => e.exit = 1, "C15_tool_works_under_a_password_other_than_the_one_given")
     \* C17 at the tool: an entry whose checksum does not match is not a usable key, so it names nobody
     \cup Flag((c.cmd = "decrypt" /\ c.sender = "badsum" /\ e.exit = 0) => e.named = "unknown", "C17_entry_with_bad_checksum_used_to_name_the_sender")
     \* C17 at the tool: a well-formed keyring of any size is taken whole (every entry found, wherever it stands), and a
     \* keyring that repeats a name is refused, wherever the repetition stands
     \cup Flag((c.cmd \in {"encrypt", "decrypt"} /\ c.cause = "none") => e.exit = 0, "C17_tool_refuses_or_loses_part_of_a_well_formed_keyring")
     \cup Flag((c.cmd = "decrypt" /\ c.cause = "none" /\ c.sender \in {"first", "last"} /\ e.exit = 0) => e.named = "name",
                "C17_tool_does_not_find_an_entry_of_the_keyring")
     \cup Flag((c.cmd \in {"encrypt", "decrypt"} /\ c.cause = "malformed_keyring") => e.exit = 1, "C17_tool_accepts_a_keyring_it_must_refuse")
     \* C05 at the tool: the file is made for the key the NAME given stands for (opened by the specification with that key)
     \cup Flag((c.cmd = "encrypt" /\ c.cause = "none") => e.out = "full", "C05_tool_encrypted_to_or_from_another_key_than_the_named_one")
     \* C05 at the tool: a keyring in which a name stands for two keys (or a key has two names) is refused, never resolved
     \* silently to one of them
     \cup Flag((c.cmd \in {"encrypt", "decrypt"} /\ c.cause = "malformed_keyring") => e.exit = 1,
               "C05_tool_resolves_an_ambiguous_or_malformed_keyring_silently")
     \* C05 at the tool: whoever is reported is the holder of the authenticated key, never another keyring entry
     \cup Flag(e.exit = 0 => e.named \notin {"wrong_name", "wrong_unknown"}, "C05_tool_reports_a_sender_other_than_the_authenticated_key")

\* C09: whatever the arguments, exit 0 or 1, "Error:" exactly when 1, no hang
\* e.streams: "normal" | "stdout_full" | "stderr_full" (a standard stream that cannot be written).  With stderr unwritable
\* no error line can be seen, but the status still is 0 or 1 and nothing panics.
ArgvChecks(e) ==
  Flag(~e.timed_out, "C09_hang")
  \cup (IF e.streams = "stderr_full"
        THEN Flag(e.exit \in {0, 1}, "C09_panic_or_abort_when_stderr_cannot_be_written")
        ELSE Flag(e.exit \in {0, 1}, "C09_exit_status_not_0_or_1")
             \cup Flag(e.errline = (e.exit = 1), "C09_error_line_iff_exit_1"))
  \* where the peak resident set of the process was measured (very large input files): a constant bound, 300 MB
  \cup Flag("rss_kb" \notin DOMAIN e \/ e.rss_kb <= 300000, "C09_memory_raised_by_input_at_the_tool")

\* C14: one `key generate -o F` step
GenChecks(e) ==
  Flag(e.exit = 0, "C14_generate_failed")
  \cup Flag(e.prefix_kept, "C14_earlier_contents_not_a_prefix")
  \cup Flag(e.parses, "C14_file_no_longer_parses_as_keyring")
  \cup Flag(e.names_present, "C14_generated_key_missing_or_reordered")
  \cup Flag(e.usable, "C14_generated_key_not_usable_with_its_password")

\* C16: one step of a key life-cycle history
LifeChecks(e) ==
  \* (a password that is not UTF-8 may be refused: the step then changes nothing)
  Flag(e.exit = 0 \/ e.refusable, "C16_command_failed")
  \cup Flag(e.identity_kept, "C16_private_key_changed_or_lost")
  \cup Flag(e.old_passwords_dead, "C16_earlier_password_still_works")
  \cup Flag(e.salt_fresh, "C16_salt_reused")
  \cup Flag(e.pub_matches, "C16_extracted_public_key_differs")
  \cup Flag(~e.secret_leaked, "C16_private_key_in_output")

\* interactive password entry on a terminal: the outcome is the contract's function of the typed script
TtyChecks(e) ==
  LET x == PExpected(e.cmd, e.script) IN
  Flag(x.res = e.exp.res /\ x.pw = e.exp.pw, "TOOL_prompt_expectation")
  \cup Flag(~e.timed_out, "C09_hang")
  \cup (IF x.res = "ok"
        THEN Flag(e.rc = 0, "C12_exit_status_untruthful")
             \cup Flag(e.out = "full", "C12_result_incomplete_or_wrong")
             \* C08: what an encryption leaves in its output is the file format and nothing else (no prompt, no name)
             \cup (IF e.cmd \in {"encrypt", "pass_encrypt"} THEN Flag(e.out = "full", "C08_file_is_not_header_plus_records") ELSE {})
             \cup Flag(e.pw_ok, "C16_relocked_under_a_password_other_than_the_confirmed_one")
             \* C15 at the terminal: the key unlocks under the password it is locked under, at whichever attempt it is typed
             \cup (IF e.cmd \in {"decrypt", "encrypt"}
                   THEN Flag(e.rc = 0 /\ e.out = "full", "C15_key_did_not_unlock_under_its_password_typed_at_the_terminal") ELSE {})
        ELSE IF x.res = "error"
        THEN Flag(e.rc = 1 /\ e.errline, "C12_exit_status_untruthful")
             \cup Flag(e.out \in {"untouched", "absent", "none"}, "C13_output_created_or_clobbered_by_failed_command")
             \cup Flag(~e.printed_key, "C16_relocked_although_no_new_password_was_confirmed")
        ELSE \* interrupted at a prompt: the user backed out before any output existed
             Flag(e.rc # 0, "C12_exit_status_untruthful")
             \* ... and before any new password was confirmed: no re-locked key is printed
             \cup Flag(~e.printed_key, "C16_relocked_although_no_new_password_was_confirmed")
             \cup Flag(e.out \in {"untouched", "absent", "none"}, "C13_output_created_or_clobbered_by_failed_command"))

\* C11 at the process boundary: peak resident set of the tool on a large input vs a small one
RssChecks(e) ==
  Flag(e.exit = 0, "C12_exit_status_untruthful")
  \cup Flag(e.rss_kb <= e.base_rss_kb + 16384, "C11_process_memory_grows_with_input_size")
  \cup Flag(e.roundtrip_ok, "C01_round_trip_differs")

\* C01 / C02 through the tool: encrypt then decrypt, via files or pipes, onto fresh or pre-existing output paths
RtChecks(e) ==
  Flag(e.enc_exit = 0 /\ e.dec_exit = 0, e.prop \o "_cli_round_trip_failed")
  \cup Flag(e.spec_ok, e.prop \o "_cli_produced_file_differs_from_specification")
  \cup Flag(e.same, e.prop \o "_cli_round_trip_differs")
  \cup Flag(e.named, e.prop \o "_cli_sender_not_named")

Checks(e) ==
  CASE e.ev = "cli"  -> CliChecks(e)
    [] e.ev = "rt"   -> RtChecks(e)
    \* password mode with passwords that are not UTF-8: refused, or taken as given
    [] e.ev = "rtf"  -> Flag(e.refused \/ e.own_ok, "C02_cli_round_trip_failed")
                        \cup Flag(e.refused \/ e.other_rejected, "C02_file_opens_under_a_different_password")
    [] e.ev = "rss"  -> RssChecks(e)
    \* an invocation with several operands: refused, or every output has randomness of its own (C07, C16)
    [] e.ev = "multi" -> Flag(~e.accepted \/ e.distinct, IF e.prop = "C16" THEN "C16_salt_reused" ELSE "C07_value_drawn_twice")
    \* C04 at a terminal: a later chunk is damaged; the right password is typed as often as the tool asks
    [] e.ev = "ttyd" -> Flag(e.rc # 0, "C04_tool_reports_success_without_a_verified_and_delivered_final_chunk")
                        \cup Flag(e.out_is_first_chunk, "C04_destination_is_not_exactly_the_authenticated_plaintext_prefix")
    \* C15 at the tool for a password of e.len bytes: generated under it, opened by the specification under it, public key
    \* extracted by the tool under it
    [] e.ev = "pwlen" -> Flag(e.gen_exit = 0 /\ e.spec_ok /\ e.extract_exit = 0 /\ e.pub_ok,
                              "C15_key_locked_under_a_password_of_this_length_does_not_unlock_at_the_tool")
    [] e.ev = "tty"  -> TtyChecks(e)
    [] e.ev = "argv" -> ArgvChecks(e)
    [] e.ev = "gen"  -> GenChecks(e)
    [] e.ev = "life" -> LifeChecks(e)
    [] OTHER         -> {<<l, "TOOL_unknown_event">>}

Step == /\ l <= N /\ viol' = viol \cup Checks(Rec[l]) /\ l' = l + 1
Report ==
  /\ l = N + 1
  /\ PrintT(<<"REPLAY", ToJson([viol |-> SetToSeq({[line |-> v[1], pred |-> v[2]] : v \in viol})])>>)
  /\ l' = N + 2 /\ UNCHANGED viol
Next == Step \/ Report
TraceSpec == Init /\ [][Next]_vars
TraceAccepted ==
  \/ TLCGet("stats").diameter - 2 = N
  \/ Print(<<"TRACE-NOT-CONSUMED at line", TLCGet("stats").diameter>>, FALSE)
=============================================================================
