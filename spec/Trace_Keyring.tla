---------------------------- MODULE Trace_Keyring ----------------------------
(***************************************************************************)
(* Layer A trace specification for the keyring engine: C17 (parser),       *)
(* C15 (locked private keys), and the encoded public key.                  *)
(***************************************************************************)
EXTENDS KeyringContract, TLC, Json, IOUtils, SequencesExt

Rec == ndJsonDeserialize(IOEnv.TRACE)
N   == Len(Rec)
VARIABLES l, viol
vars == <<l, viol>>
Init == l = 1 /\ viol = {}
Flag(cond, name) == IF cond THEN {} ELSE {<<l, name>>}

\* JSON tokens lack the v field when the TLA+ token has none; normalise
Tok(x) == IF "v" \in DOMAIN x THEN [t |-> x.t, v |-> x.v] ELSE [t |-> x.t]
Toks(e) == [i \in 1..Len(e.toks) |-> Tok(e.toks[i])]

KrChecks(e) ==
  LET toks == Toks(e) IN
  Flag(e.class = "auto" \/ Class(toks) = e.class, "TOOL_class")      \* "auto": not classified by the producer of the scenario
  \cup Flag(~e.panic, "C17_parser_panicked")
  \cup Flag(~e.panic, "C09_panic_or_abort")            \* the same observation, reported by C09 on its own run of these texts
  \cup Flag(MustReject(toks) => ~e.accepted, "C17_accepted_incomplete_or_duplicate_keyring")
  \cup Flag(MustAccept(toks) => e.accepted, "C17_rejected_tool_written_keyring")
  \cup Flag((e.accepted /\ Unambiguous(toks)) =>
              \* entries as the tool's own look-ups return them (get_key over the names of the text and of the model):
              \* the same entries as the sections written; their order in storage is not observable and not required
              (Len(e.entries) = NSec(toks)
               /\ {[name |-> e.entries[i].name, pub |-> e.entries[i].pub, priv |-> e.entries[i].priv] : i \in 1..Len(e.entries)}
                  = {[name |-> Entries(toks)[s].name, pub |-> Entries(toks)[s].pub, priv |-> Entries(toks)[s].priv] : s \in 1..NSec(toks)}),
          "C17_entries_differ_from_sections_written")
  \cup Flag(e.accepted => e.lookups_ok, "C17_lookup_not_functional")

\* C15: lock / unlock, documented format, tamper evidence
LockChecks(e) ==
  Flag(e.res # "panic", "C15_panic")
  \cup (IF e.kind = "lock" THEN Flag(e.same, "C15_locked_string_differs_from_documented_format")
        ELSE IF e.kind = "unlock_good" THEN Flag(e.res = "ok" /\ e.same, "C15_conforming_string_does_not_unlock_to_the_key")
        ELSE Flag(e.res = "err", "C15_altered_or_foreign_string_unlocked"))

\* C17: an encoded public key is usable only if its checksum matches
PubChecks(e) ==
  Flag(e.res # "panic", "C17_public_key_decoder_panicked")
  \cup (IF e.kind = "good" THEN Flag(e.res = "ok" /\ e.same, "C17_valid_public_key_refused")
        ELSE IF e.kind = "encode" THEN Flag(e.same, "C17_encoded_public_key_differs_from_documented_format")
        ELSE Flag(e.res = "err", "C17_public_key_with_bad_checksum_or_shape_usable"))

\* C17 on large keyrings in the tool's own layout: accepted, every section an entry, look-ups functional,
\* keys that were not written are not found
KrBigChecks(e) ==
  Flag(~e.panic, "C17_parser_panicked")
  \cup Flag(e.accepted, "C17_rejected_tool_written_keyring")
  \cup Flag(e.accepted => e.nentries = e.n, "C17_entries_differ_from_sections_written")
  \cup Flag(e.accepted => (e.lookups_ok /\ e.misses_ok), "C17_lookup_not_functional")

Checks(e) ==
  CASE e.ev = "kr"   -> KrChecks(e)
    [] e.ev = "krbig" -> KrBigChecks(e)
    [] e.ev = "lock" -> LockChecks(e)
    [] e.ev = "pub"  -> PubChecks(e)
    \* the process running this scenario was killed by the code under test (abort, panic across the C boundary)
    [] e.ev = "crash" -> {<<l, e.prop \o "_process_killed_in_the_code_under_test">>}
    [] OTHER         -> {<<l, "TOOL_unknown_event">>}

Step == /\ l <= N /\ viol' = viol \cup Checks(Rec[l]) /\ l' = l + 1
Report ==
  /\ l = N + 1
  /\ PrintT(<<"REPLAY", ToJson([viol |-> SetToSeq({[line |-> v[1], pred |-> v[2]] : v \in viol})])>>)
  /\ l' = N + 2 /\ UNCHANGED viol
Next == Step \/ Report
TraceSpec == Init /\ [][Next]_vars
TraceAccepted ==
  \/ TLCGet("stats").diameter - 2 = N
  \/ Print(<<"TRACE-NOT-CONSUMED at line", TLCGet("stats").diameter>>, FALSE)
=============================================================================
