----------------------------- MODULE MC_EncLoop -----------------------------
(* Model-checking instance of EncLoop: constant values that a .cfg cannot express. *)
EXTENDS EncLoop
HdrNone == <<>>            \* the hooked chunk loop: no file header
HdrKey  == <<4, 128>>      \* key_encrypt: prologue, Noise handshake message
HdrPass == <<4, 32>>       \* pass_encrypt: magic, salt
HdrSmall == <<2, 3>>     \* two header items of abstract small sizes (exhaustive checking)
Unbounded == -1
=============================================================================
