----------------------------- MODULE MC_EncLoop -----------------------------
(* Model-checking instance of EncLoop: constant values that a .cfg cannot express. *)
EXTENDS EncLoop, IndDefs
HdrNone == <<>>            \* the hooked chunk loop: no file header
HdrKey  == <<4, 128>>      \* key_encrypt: prologue, Noise handshake message
HdrPass == <<4, 32>>       \* pass_encrypt: magic, salt
HdrSmall == <<2, 3>>     \* two header items of abstract small sizes (exhaustive checking)
Unbounded == -1

(* Refinement link to the unbounded argument: the integer projection of every reachable state of
   EncLoop satisfies the inductive invariant that Apalache proves for EncLoopInd (so the
   projection is a faithful abstraction of the model that is replayed into the code). *)
MaxNonce == IF sealed = {} THEN -1 ELSE CHOOSE n \in {a.nonce : a \in sealed} : \A b \in sealed : b.nonce <= n
ProjPc == CASE pc \in {"hdr", "hflush", "read0"} -> "read0"
            [] pc = "read" -> "read" [] pc = "seal" -> "seal"
            [] pc \in {"write", "flush"} -> "write"
            [] OTHER -> IF res = "ok" THEN "end" ELSE "failed"
ProjIndInv == EncIndInv(CS, L, ProjPc, pos, (IF pc = "flush" THEN Covered - prevLen ELSE Covered),
                        prevLen, numRead, done, ctr, Cardinality(sealed), MaxNonce)
=============================================================================
