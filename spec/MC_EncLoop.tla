----------------------------- MODULE MC_EncLoop -----------------------------
(* Model-checking instance of EncLoop: constant values that a .cfg cannot express. *)
EXTENDS EncLoop, IndDefs
HdrNone == <<>>            \* the hooked chunk loop: no file header
HdrKey  == <<4, 128>>      \* key_encrypt: prologue, Noise handshake message
HdrPass == <<4, 32>>       \* pass_encrypt: magic, salt
HdrSmall == <<2, 3>>     \* two header items of abstract small sizes (exhaustive checking)
Unbounded == -1

(* Refinement link to the unbounded argument: the integer projection of every reachable state of
   EncLoop satisfies the inductive invariant that Apalache proves for EncLoopInd (so the
   projection is a faithful abstraction of the model that is replayed into the code). *)
MaxNonce == IF sealed = {} THEN -1 ELSE CHOOSE n \in {a.nonce : a \in sealed} : \A b \in sealed : b.nonce <= n
ProjPc == CASE pc \in {"hdr", "hflush", "read0"} -> "read0"
            [] pc = "read" -> "read" [] pc = "seal" -> "seal"
            [] pc \in {"write", "flush"} -> "write"
            [] OTHER -> IF res = "ok" THEN "end" ELSE "failed"
\* a record counts as covered once it is written AND flushed (WriteRec of EncLoopInd = body complete + flush)
FlushFailed == pc = "end" /\ res = "err_write" /\ item.k = "none" /\ Len(sink) > 0 /\ sink[Len(sink)].k = "rbody"
ProjCovered == IF pc = "flush" \/ FlushFailed THEN Covered - prevLen ELSE Covered
ProjIndInv == EncIndInv(CS, L, ProjPc, pos, ProjCovered, prevLen, numRead, done, ctr, Cardinality(sealed), MaxNonce)
\* ... and every step of EncLoop (conforming source, baseline variant) is a step of EncLoopInd or leaves its
\* variables unchanged
Ind == INSTANCE EncLoopInd WITH pc <- ProjPc, covered <- ProjCovered, nsealed <- Cardinality(sealed), lastNonce <- MaxNonce
MCLens == 0..CS          \* cfg: Lens <- [EncLoopInd] MCLens
ProjEncInit == (pc \in {"hdr", "read0"} /\ sink = <<>> /\ acc = 0 /\ pos = 0 /\ rs = <<>>) => Ind!Init
RefinesEncLoopInd == [][Ind!Next \/ UNCHANGED Ind!vars]_vars
=============================================================================
