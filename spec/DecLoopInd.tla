----------------------------- MODULE DecLoopInd -----------------------------
(***************************************************************************)
(* Unbounded argument (Apalache) for the decryptor of DecLoop.tla,         *)
(* projected to integers.  The input is described by three parameters      *)
(* (variables that never change, so that the TLC model can instantiate     *)
(* them with functions of its abstract file):                              *)
(*   A        the first A records are authentic in position and completely *)
(*            present (A >= 0 arbitrary, record lengths arbitrary in 0..CS)*)
(*            and the decryptor cannot get past record A: record A is      *)
(*            flagged final, or record A+1 is absent, cut, or does not open*)
(*   final    record A carries the last-chunk flag                         *)
(*   trailing bytes follow the final record                                *)
(*                                                                         *)
(*   ReleasedIsAuthenticPrefix  plaintext accepted by the sink never       *)
(*        exceeds the plaintext of records authenticated so far (C04)      *)
(*   AcceptMeansComplete        success only after record A, flagged       *)
(*        final, verified, nothing following, end of data seen (C03, C04)  *)
(*   WholeChunks                without a write fault the output ends on   *)
(*        a chunk boundary                                                 *)
(* for ANY number of chunks.  MC_DecLoop checks with TLC that every step   *)
(* of the implementation-shaped model DecLoop is a step of this module (or *)
(* leaves its variables unchanged) under the projection ProjDec*.          *)
(***************************************************************************)
EXTENDS Integers, IndDefs

CONSTANTS
  \* @type: Int;
  CS

VARIABLES
  \* @type: Int;
  A,
  \* @type: Bool;
  final,
  \* @type: Bool;
  trailing,
  \* @type: Str;
  pc,
  \* @type: Int;
  j,
  \* @type: Int;
  authBytes,
  \* @type: Int;
  out,
  \* @type: Int;
  clen,
  \* @type: Int;
  wrem,
  \* @type: Bool;
  eofSeen,
  \* @type: Str;
  res

vars == <<A, final, trailing, pc, j, authBytes, out, clen, wrem, eofSeen, res>>
Params == <<A, final, trailing>>

\* the range of length values (all integers for Apalache; TLC overrides it with 0..CS)
Lens == Int

ConstInit == CS \in Nat /\ CS >= 1

ParamOK == A \in Nat /\ final \in BOOLEAN /\ trailing \in BOOLEAN /\ (final => A >= 1) /\ (trailing => final)

Init == /\ A \in Nat /\ final \in BOOLEAN /\ trailing \in BOOLEAN /\ ParamOK
        /\ pc = "hdr" /\ j = 1 /\ authBytes = 0 /\ out = 0 /\ clen = 0 /\ wrem = 0 /\ eofSeen = FALSE /\ res = "run"

End(r) == pc' = "end" /\ res' = r

\* the header phase: read, magic check, handshake / key derivation.  A header that is refused
\* belongs to a file none of whose records would open (A = 0)
Hdr == /\ pc = "hdr"
       /\ \/ pc' = "rhdr" /\ UNCHANGED res
          \/ A = 0 /\ End("err_hdr")
       /\ UNCHANGED <<j, authBytes, out, clen, wrem, eofSeen, Params>>
\* read the 16 header bytes and the body of record j (read_exact loops, the length check)
ReadRec == /\ pc = "rhdr"
           /\ IF j <= A
              THEN pc' = "open" /\ UNCHANGED <<res, eofSeen>>
              ELSE \* record A+1: absent or cut (end of data), a length field above the chunk size,
                   \* garbage, or a complete record that will not open
                   \/ pc' = "open" /\ UNCHANGED <<res, eofSeen>>
                   \/ \E r \in {"err_read", "err_chunklen", "err_auth"} : End(r) /\ eofSeen' \in BOOLEAN
           /\ UNCHANGED <<j, authBytes, out, clen, wrem, Params>>
\* AEAD open with the running index: records 1..A open, record A+1 does not.  The plaintext
\* (clen bytes) is held; it is handed to write_all at once, or after the probe for the final record
Open == /\ pc = "open"
        /\ IF j <= A
           THEN \E n \in Lens :
                  /\ n >= 0 /\ n <= CS
                  /\ authBytes' = authBytes + n /\ clen' = n /\ UNCHANGED res
                  /\ IF j = A /\ final THEN pc' = "probe" /\ UNCHANGED wrem
                     ELSE pc' = (IF n > 0 THEN "write" ELSE "flush") /\ wrem' = n
           ELSE End("err_auth") /\ UNCHANGED <<authBytes, clen, wrem>>
        /\ UNCHANGED <<j, out, eofSeen, Params>>
\* after the final record: a read must return 0
Probe == /\ pc = "probe"
         /\ IF trailing THEN End("err_trailing") /\ UNCHANGED <<eofSeen, wrem>>
            ELSE eofSeen' = TRUE /\ pc' = (IF clen > 0 THEN "write" ELSE "flush") /\ wrem' = clen /\ UNCHANGED res
         /\ UNCHANGED <<j, authBytes, out, clen, Params>>
\* write_all: the sink accepts 1..wrem bytes per call
Write == /\ pc = "write"
         /\ \E n \in Lens : /\ n >= 1 /\ n <= wrem /\ out' = out + n /\ wrem' = wrem - n
                           /\ pc' = (IF n = wrem THEN "flush" ELSE "write")
         /\ UNCHANGED <<j, authBytes, clen, eofSeen, res, Params>>
Flush == /\ pc = "flush"
         /\ IF j = A /\ final THEN End("ok") /\ UNCHANGED j
            ELSE pc' = "rhdr" /\ j' = j + 1 /\ UNCHANGED res
         /\ UNCHANGED <<authBytes, out, clen, wrem, eofSeen, Params>>
\* an I/O fault at any call ends the run with an error
Fail == /\ pc \in {"hdr", "rhdr", "probe", "write", "flush"}
        /\ End(IF pc \in {"write", "flush"} THEN "err_write" ELSE "err_read")
        /\ eofSeen' \in (IF pc \in {"hdr", "rhdr"} THEN BOOLEAN ELSE {eofSeen})
        /\ UNCHANGED <<j, authBytes, out, clen, wrem, Params>>
Stutter == pc = "end" /\ UNCHANGED vars
Next == Hdr \/ ReadRec \/ Open \/ Probe \/ Write \/ Flush \/ Fail \/ Stutter

\* ---- the properties ----
ReleasedIsAuthenticPrefix == out <= authBytes
AcceptMeansComplete == res = "ok" => (final /\ ~trailing /\ j = A /\ A >= 1 /\ eofSeen /\ out = authBytes)
\* the held plaintext of a chunk is released completely or (failure before write_all) not at all
WholeChunks == (pc = "end" /\ res # "err_write") => (out = authBytes \/ out + clen = authBytes)
Safety == ReleasedIsAuthenticPrefix /\ AcceptMeansComplete /\ WholeChunks

\* ---- inductive invariant (shared with the TLC refinement check) ----
IndInv == DecIndInv(CS, A, final, trailing, pc, j, authBytes, out, clen, wrem, eofSeen, res)
IndInit == /\ A \in Int /\ final \in BOOLEAN /\ trailing \in BOOLEAN
           /\ pc \in {"hdr", "rhdr", "open", "probe", "write", "flush", "end"}
           /\ j \in Int /\ authBytes \in Int /\ out \in Int /\ clen \in Int /\ wrem \in Int /\ eofSeen \in BOOLEAN
           /\ res \in {"run", "ok", "err_read", "err_write", "err_auth", "err_hdr", "err_chunklen", "err_trailing"}
           /\ IndInv
=============================================================================
