-------------------------------- MODULE Prompt --------------------------------
(***************************************************************************)
(* The interactive password paths of the CLI (commands.rs: ask_pass,       *)
(* confirm_loop, the unlock loops of encrypt / decrypt, change_pass), when *)
(* the tool runs on a terminal and the password is typed instead of taken  *)
(* from the environment.  The environment is a script of typed lines,      *)
(* ended by an interrupt (Ctrl-C).                                         *)
(*                                                                         *)
(* Layer A (PExpected) is declarative over the script; Layer B transcribes  *)
(* the loops.  Related properties: C12 (exit 0 exactly when the operation  *)
(* completed), C13 (backing out never creates or clobbers the output),     *)
(* C16 (change-pass re-locks under the confirmed new password).            *)
(* Deviations (each must break MatchesContract):                           *)
(*   ConfirmByPrefix      the confirmation counts as a match when one      *)
(*                        entry is a prefix of the other                   *)
(*   UnlockAttemptsCapped after two failed unlock attempts a third         *)
(*                        password is asked for and not tried              *)
(***************************************************************************)
EXTENDS PromptContract, TLC, Json
CONSTANTS MaxLines, PVariant

IsPrefix2(u, v) == u = v \/ u = "e" \/ (u = "x" /\ v = "xp")
SameEntry(u, v) == IF PVariant = "ConfirmByPrefix" THEN IsPrefix2(u, v) \/ IsPrefix2(v, u) ELSE u = v

\* ---------- Layer B ----------
VARIABLES cmd, script, k, pc, a, b, old, out, fails
vars == <<cmd, script, k, pc, a, b, old, out, fails>>
\* k: lines consumed; pc: which prompt is showing; a, b: what was typed at ask / confirm
Init == /\ cmd \in PCmds /\ script = <<>> /\ k = 0 /\ a = "" /\ b = "" /\ old = ""
        /\ pc = (IF cmd = "pass_encrypt" THEN "ask" ELSE IF cmd = "change_pass" THEN "old" ELSE "unlock")
        /\ out = [res |-> "run", pw |-> "n/a", used |-> 0] /\ fails = 0

Type(w) ==   \* the user types w at the current prompt
  /\ out.res = "run" /\ Len(script) < MaxLines
  /\ script' = Append(script, w) /\ k' = k + 1
  /\ CASE pc = "ask" -> a' = w /\ pc' = "confirm" /\ UNCHANGED <<b, old, out>>
       [] pc = "confirm" ->
            IF SameEntry(a, w)
            THEN /\ pc' = "done" /\ b' = w /\ UNCHANGED <<a, old>>
                 /\ IF cmd = "change_pass"
                    THEN out' = (IF old = "good" THEN [res |-> "ok", pw |-> a, used |-> k + 1] ELSE [res |-> "error", pw |-> "n/a", used |-> k + 1])
                    ELSE out' = [res |-> "ok", pw |-> a, used |-> k + 1]
            ELSE pc' = "ask" /\ b' = w /\ UNCHANGED <<a, old, out>>      \* "Passwords do not match": ask again (stdin is a terminal)
       [] pc = "unlock" ->
            IF PVariant = "UnlockAttemptsCapped" /\ fails >= 2
            THEN pc' = "done" /\ out' = [res |-> "error", pw |-> "n/a", used |-> k + 1] /\ UNCHANGED <<a, b, old>>   \* asked, not tried
            ELSE IF w = "good" THEN pc' = "done" /\ out' = [res |-> "ok", pw |-> "n/a", used |-> k + 1] /\ UNCHANGED <<a, b, old>>
            ELSE UNCHANGED <<pc, a, b, old, out>>                            \* "Key unlock failed.": ask again
       [] pc = "old" -> old' = w /\ pc' = "ask" /\ UNCHANGED <<a, b, out>>
  /\ fails' = IF pc = "unlock" /\ w # "good" THEN fails + 1 ELSE fails
  /\ UNCHANGED cmd
Interrupt ==   \* Ctrl-C at the prompt
  /\ out.res = "run" /\ out' = [res |-> "interrupted", pw |-> "n/a", used |-> k]
  /\ UNCHANGED <<cmd, script, k, pc, a, b, old, fails>>
Next == (\E w \in Words : Type(w)) \/ Interrupt
Spec == Init /\ [][Next]_vars

MatchesContract == out.res # "run" => out = PExpected(cmd, script)
Emit == out.res # "run" => PrintT(<<"REPLAY", ToJson([cmd |-> cmd, script |-> script, exp |-> out])>>)
=============================================================================
