-------------------------------- MODULE Shapes --------------------------------
(***************************************************************************)
(* C09: the shapes of untrusted input at each byte surface.  A shape is a  *)
(* (surface, generator) pair; the generators are the structural classes    *)
(* that the decoders distinguish (DecLoop / NoiseX reader / Keyring):      *)
(* too short, exact, too long, a valid prefix followed by garbage, a valid *)
(* artefact with a few bytes changed, hostile length fields, wrong         *)
(* alphabets.  The harness instantiates each shape with every length up to *)
(* a bound (and every length around each field boundary of the format).    *)
(* Layer A: the result is a value or an error, never a panic, abort or     *)
(* hang, and peak heap stays under a constant per surface.                 *)
(***************************************************************************)
EXTENDS Naturals, Sequences, TLC, Json
ByteSurfaces == {"key_decrypt", "pass_decrypt", "dec_chunks", "noise_decrypt", "aead_open", "file_format"}
TextSurfaces == {"encoded_pk", "encoded_sk", "keyring"}
ByteKinds == {"random", "zeros", "prefix", "prefix_then_random", "extend", "mutate", "lenfield"}
TextKinds == {"b64", "ascii", "utf8", "prefix", "mutate", "insert", "lines", "random"}   \* insert: one foreign character inside a valid text
Shapes == (ByteSurfaces \X ByteKinds) \cup (TextSurfaces \X TextKinds)
\* field boundaries of each surface (from WireFormat.tla): lengths around them are always tried
Boundaries(s) ==
  CASE s = "key_decrypt"   -> {0, 4, 36, 84, 132, 148, 189, 205}
    [] s = "pass_decrypt"  -> {0, 4, 36, 52, 98}
    [] s = "dec_chunks"    -> {0, 8, 12, 16, 40, 56, 76}
    [] s = "noise_decrypt" -> {0, 32, 64, 80, 96, 128, 65535, 65536}
    [] s = "aead_open"     -> {0, 15, 16, 17, 48}
    [] s = "encoded_pk"    -> {0, 47, 48, 49}
    [] s = "encoded_sk"    -> {0, 111, 112, 113}
    [] OTHER               -> {0}
\* constant heap bounds per surface (bytes): buffers are sized by the chunk size / scrypt parameters only
HeapBound(s) ==
  CASE s \in {"pass_decrypt", "encoded_sk"} -> 36 * 1024 * 1024
    [] s = "noise_decrypt" -> 1024 * 1024
    [] OTHER -> 2 * 1024 * 1024
VARIABLE sh
Init == sh \in Shapes
Next == UNCHANGED sh
Spec == Init /\ [][Next]_sh
Emit == PrintT(<<"REPLAY", ToJson([surface |-> sh[1], kind |-> sh[2], boundaries |-> Boundaries(sh[1]), heap |-> HeapBound(sh[1])])>>)
=============================================================================
