------------------------------- MODULE IndDefs -------------------------------
(* The inductive invariants of the unbounded arguments as parameterised predicates, shared by the
   integer projections (unbounded/EncLoopInd.tla, proved by Apalache) and by the TLC models
   (MC_EncLoop: every reachable state of EncLoop, projected, satisfies the predicate). *)
EXTENDS Integers

EncIndInv(CS, L, pc, pos, covered, prevLen, numRead, done, ctr, nsealed, lastNonce) ==
  /\ pc \in {"read0", "read", "seal", "write", "end", "failed"}
  /\ pos >= 0 /\ pos <= L /\ covered >= 0 /\ prevLen >= 0 /\ prevLen <= CS /\ numRead >= 0 /\ numRead <= CS
  /\ ctr >= 0 /\ nsealed >= 0
  /\ (pc = "read0" => pos = 0 /\ covered = 0 /\ ctr = 0 /\ nsealed = 0)
  /\ (pc = "read"  => pos = covered + prevLen /\ ctr = nsealed)
  /\ (pc = "seal"  => pos = covered + prevLen + numRead /\ ctr = nsealed)
  /\ (pc = "write" => pos = covered + prevLen + numRead /\ ctr = nsealed - 1 /\ lastNonce = ctr)
  /\ (pc = "end"   => covered = pos)
  /\ (pc = "failed" => pos - covered <= 2 * CS)
  /\ (done => pos = L)
  /\ ((pc \in {"seal", "write"} /\ done) => numRead = 0)
=============================================================================
