------------------------------- MODULE IndDefs -------------------------------
(* The inductive invariants of the unbounded arguments as parameterised predicates, shared by the
   integer projections (EncLoopInd.tla and DecLoopInd.tla, proved by Apalache) and by the TLC models
   (MC_EncLoop: every reachable state of EncLoop, projected, satisfies the predicate; MC_DecLoop: in addition every step of DecLoop is a step of DecLoopInd). *)
EXTENDS Integers

EncIndInv(CS, L, pc, pos, covered, prevLen, numRead, done, ctr, nsealed, lastNonce) ==
  /\ pc \in {"read0", "read", "seal", "write", "end", "failed"}
  /\ pos >= 0 /\ pos <= L /\ covered >= 0 /\ prevLen >= 0 /\ prevLen <= CS /\ numRead >= 0 /\ numRead <= CS
  /\ ctr >= 0 /\ nsealed >= 0
  /\ (pc = "read0" => pos = 0 /\ covered = 0 /\ ctr = 0 /\ nsealed = 0)
  /\ (pc = "read"  => pos = covered + prevLen /\ ctr = nsealed)
  /\ (pc = "seal"  => pos = covered + prevLen + numRead /\ ctr = nsealed)
  /\ (pc = "write" => pos = covered + prevLen + numRead /\ ctr = nsealed - 1 /\ lastNonce = ctr)
  /\ (pc = "end"   => covered = pos)
  /\ (pc = "failed" => pos - covered <= 2 * CS)
  /\ (done => pos = L)
  /\ ((pc \in {"seal", "write"} /\ done) => numRead = 0)

DecIndInv(CS, A, final, trailing, pc, j, authBytes, out, clen, wrem, eofSeen, res) ==
  /\ A >= 0 /\ (final => A >= 1) /\ (trailing => final)
  /\ pc \in {"hdr", "rhdr", "open", "probe", "write", "flush", "end"}
  /\ j >= 1 /\ authBytes >= 0 /\ out >= 0 /\ clen >= 0 /\ clen <= CS /\ wrem >= 0 /\ wrem <= clen
  /\ res \in {"run", "ok", "err_read", "err_write", "err_auth", "err_hdr", "err_chunklen", "err_trailing"}
  /\ (pc = "end") = (res # "run")
  /\ (pc = "hdr" => j = 1 /\ out = 0 /\ authBytes = 0 /\ clen = 0 /\ wrem = 0)
  /\ (pc \in {"rhdr", "open"} => out = authBytes /\ wrem = 0 /\ j <= A + 1 /\ (final => j <= A))
  /\ (pc = "probe" => out + clen = authBytes /\ wrem = 0 /\ j = A /\ final)
  /\ (pc = "write" => out + wrem = authBytes /\ j <= A /\ wrem >= 1)
  /\ (pc = "flush" => out = authBytes /\ wrem = 0 /\ j <= A)
  /\ ((pc \in {"write", "flush"} /\ j = A /\ final) => eofSeen /\ ~trailing)
  /\ (res = "err_write" => out + wrem = authBytes)
  /\ (res = "err_trailing" => out + clen = authBytes /\ trailing)
  /\ (res = "err_read" => out = authBytes \/ out + clen = authBytes)
  /\ (res \in {"err_auth", "err_hdr", "err_chunklen"} => out = authBytes)
  /\ out <= authBytes
  /\ (res = "ok" => final /\ ~trailing /\ j = A /\ eofSeen /\ out = authBytes)
=============================================================================
