------------------------------ MODULE Trace_Fuzz ------------------------------
(* Layer A trace specification for C09's byte surfaces: every recorded call ended in a
   value or an error, within the surface's constant heap bound and a generous time bound. *)
EXTENDS Naturals, Sequences, FiniteSets, TLC, Json, IOUtils, SequencesExt
HeapBound(s) ==
  CASE s \in {"pass_decrypt", "encoded_sk"} -> 36 * 1024 * 1024
    [] s = "noise_decrypt" -> 1024 * 1024
    [] OTHER -> 2 * 1024 * 1024
Rec == ndJsonDeserialize(IOEnv.TRACE)
N   == Len(Rec)
VARIABLES l, viol
vars == <<l, viol>>
Init == l = 1 /\ viol = {}
Flag(cond, name) == IF cond THEN {} ELSE {<<l, name>>}
Checks(e) ==
  IF e.ev # "fuzz" THEN {<<l, "TOOL_unknown_event">>}
  ELSE Flag(e.res \in {"ok", "err"}, "C09_panic_or_abort")
       \cup Flag(e.res \notin {"ok", "err"} \/ e.heap <= HeapBound(e.surface) + e.len, "C09_memory_raised_by_input")
       \* the largest single allocation REQUEST (granted or not) obeys the same bound: a length field must not size a buffer
       \cup Flag(e.maxreq <= HeapBound(e.surface) + e.len, "C09_allocation_request_raised_by_input")
       \cup Flag(e.ms <= 20000, "C09_unbounded_work")
Step == /\ l <= N /\ viol' = viol \cup Checks(Rec[l]) /\ l' = l + 1
Report ==
  /\ l = N + 1
  /\ PrintT(<<"REPLAY", ToJson([viol |-> SetToSeq({[line |-> v[1], pred |-> v[2]] : v \in viol})])>>)
  /\ l' = N + 2 /\ UNCHANGED viol
Next == Step \/ Report
TraceSpec == Init /\ [][Next]_vars
TraceAccepted ==
  \/ TLCGet("stats").diameter - 2 = N
  \/ Print(<<"TRACE-NOT-CONSUMED at line", TLCGet("stats").diameter>>, FALSE)
=============================================================================
