----------------------------- MODULE Trace_Noise -----------------------------
(***************************************************************************)
(* Layer A trace specification for handshake scenarios (C05) and other     *)
(* one-shot observations of the noise engine.  Each event is one executed  *)
(* scenario with what the real code did; the classification is recomputed  *)
(* here from the scenario (C05Contract) and compared.                      *)
(***************************************************************************)
EXTENDS C05Contract, TLC, Json, IOUtils, SequencesExt

Rec == ndJsonDeserialize(IOEnv.TRACE)
N   == Len(Rec)

VARIABLES l, viol
vars == <<l, viol>>
Init == l = 1 /\ viol = {}

Flag(cond, name) == IF cond THEN {} ELSE {<<l, name>>}

HsChecks(e) ==
  LET c == C05Class(e.sc) IN
  Flag(c = e.class, "TOOL_class")
  \cup Flag(e.dec # "panic" /\ e.enc # "panic", "C05_panic")
  \cup Flag(e.dec # "panic" /\ e.enc # "panic", "C09_panic_or_abort")    \* the same observation, reported by C09 on its own run
  \cup Flag(c = "refused" => ~e.wrote, "C05_encrypted_to_null_key")
  \cup Flag(c = "must_accept" => (e.wrote /\ e.dec = "ok" /\ e.plain_ok), "C05_rejected_honest_file")
  \cup Flag(c = "must_reject" => (~e.wrote \/ e.dec # "ok"), "C05_accepted_forged_or_misaddressed_file")
  \cup Flag(e.dec = "ok" => e.sender = e.sc.sPriv, "C05_reported_sender_did_not_seal")
  \cup Flag(e.dec = "ok" => (e.sc.rs = e.sc.rPriv), "C05_decrypted_by_unaddressed_key")

\* C06: the real encryptor and the specification's terms agree byte for byte (and on refusal)
HsFormat(e) == Flag(e.sc.forge # "none" \/ (e.same /\ e.wrote = e.spec_wrote), "C06_encoder_output_differs_from_specification")

\* C06 (c): frozen files keep decrypting and parse under the specification
GoldenChecks(e) ==
  Flag(e.dec = "ok" /\ e.plain_ok /\ e.sender_ok, "C06_frozen_file_no_longer_decrypts")
  \cup Flag(e.spec_ok, "C06_frozen_file_does_not_parse_under_the_specification")

\* C06: noise_encrypt's message and handshake hash are the specification's terms
HhChecks(e) ==
  Flag(e.res = "ok" /\ e.same_msg, "C06_handshake_message_differs_from_specification")
  \cup Flag(e.res # "ok" \/ e.same_hh, "C06_handshake_hash_differs_from_specification")

\* C06 / C19: nonce = 4 zero bytes ++ LE64(counter) for every counter value
NonceChecks(e) == Flag(e.res = "ok" /\ e.same /\ e.opens, "C19_counter_nonce_layout_differs_from_specification")

\* C08: size formula; cleartext fields equal for two identity pairs; no identity in the file
ClearChecks(e) ==
  Flag(e.ok /\ e.framing_ok, "C08_file_is_not_header_plus_records")
  \* (the second file of the pair has a record count of its own where the input came over a pipe; otherwise it equals the first)
  \cup Flag(e.ok => (e.flen = e.H + 32 * e.nrec + e.plen
                     /\ e.flen_b = e.H + 32 * (IF "nrec_b" \in DOMAIN e THEN e.nrec_b ELSE e.nrec) + e.plen
                     /\ ("nrec_b" \in DOMAIN e \/ e.flen_b = e.flen)), "C08_size_differs_from_formula")
  \cup Flag(e.ok => e.clear_equal, "C08_cleartext_depends_on_identities")
  \cup Flag(e.ok => ~e.identity_found, "C08_identity_appears_in_file")

Checks(e) ==
  CASE e.ev = "hs"     -> HsChecks(e) \cup HsFormat(e)
    [] e.ev = "clear"  -> ClearChecks(e)
    \* C01 over thousands of random key pairs in one event
    [] e.ev = "ksweep" -> Flag(e.failed = 0 /\ e.panics = 0, "C01_round_trip_fails_for_some_key_pairs")
    [] e.ev = "golden" -> GoldenChecks(e)
    [] e.ev = "hh"     -> HhChecks(e)
    [] e.ev = "nonce"  -> NonceChecks(e)
    \* the process running this scenario was killed by the code under test (abort, panic across the C boundary)
    [] e.ev = "crash" -> {<<l, e.prop \o "_process_killed_in_the_code_under_test">>}
    [] OTHER           -> {<<l, "TOOL_unknown_event">>}

Step ==
  /\ l <= N
  /\ viol' = viol \cup Checks(Rec[l])
  /\ l' = l + 1

Report ==
  /\ l = N + 1
  /\ PrintT(<<"REPLAY", ToJson([viol |-> SetToSeq({[line |-> v[1], pred |-> v[2]] : v \in viol})])>>)
  /\ l' = N + 2 /\ UNCHANGED viol

Next == Step \/ Report
TraceSpec == Init /\ [][Next]_vars
TraceAccepted ==
  \/ TLCGet("stats").diameter - 2 = N
  \/ Print(<<"TRACE-NOT-CONSUMED at line", TLCGet("stats").diameter>>, FALSE)
=============================================================================
