------------------------------- MODULE DecLoop -------------------------------
(***************************************************************************)
(* Layer B (implementation model) of the decryptor, preceded by a bounded  *)
(* adversary that edits an authentic file:                                 *)
(*   key_decrypt / pass_decrypt header phase   (decrypt.rs:16-95)          *)
(*   decrypt_chunks                            (decrypt.rs:104-176)        *)
(* One action per I/O call (the read_exact / write_all loops are loops of  *)
(* read / write calls here, as they are in std).                           *)
(*                                                                         *)
(* The input is an abstract file (AFile.tla).  What the decryptor sees is  *)
(* determined by position: record j's cleartext fields are those of        *)
(* f.recs[j]; whether it opens is decided by the AEAD assumption (Opens).  *)
(* Layer A predicates (AFile!Class, AuthC, Due ...) are evaluated on every *)
(* state of this model.                                                    *)
(***************************************************************************)
EXTENDS AFile, TLC, Json

CONSTANTS CS,         \* chunk size
          Src,        \* authentic source files: sequence of chunkings (sequences of plaintext lengths)
          HdrParts,   \* sizes of the header parts read with read_exact before the loop
          MaxEdits,   \* adversary edits per file
          MaxFaults, MaxSplits, MaxShort,   \* environment budgets (-1 = unbounded)
          Variant

\* schedule directives (same coding as EncLoop)
D_OTHER   == -1
D_INTR    == -2
D_FULL    == -4
D_ALLBUT1 == -5

RECURSIVE SumSeq(_)
SumSeq(s) == IF s = <<>> THEN 0 ELSE Head(s) + SumSeq(Tail(s))
H == SumSeq(HdrParts)
Min(a, b) == IF a < b THEN a ELSE b

\* authentic record i (1-based) of source file s (1-based); ids in the record are 0-based
ARec(s, i) == [src |-> s - 1, idx |-> i - 1, plen |-> Src[s][i],
               last |-> (IF i = Len(Src[s]) THEN 1 ELSE 0),
               flagf |-> (IF i = Len(Src[s]) THEN 1 ELSE 0), lenf |-> Src[s][i],
               ctrok |-> TRUE, tam |-> FALSE]
AFileOf(s) == [hdrok |-> TRUE, hsrc |-> s - 1, recs |-> [i \in 1..Len(Src[s]) |-> ARec(s, i)],
               cut |-> -1, trail |-> 0]

VARIABLES f,        \* the abstract file presented to the decryptor
          edits,    \* history: list of edit names applied
          pos,      \* bytes consumed from the source
          pc,       \* "adv" | "hdr" | "rhdr" | "lenchk" | "rbody" | "open" | "probe" | "write" | "flush" | "end"
          part,     \* header part being read
          need,     \* bytes still missing in the current read_exact
          j,        \* position (1-based) of the record being processed = chunk_number + 1
          wrem,     \* plaintext bytes of the current chunk still to be accepted by the sink
          out,      \* plaintext bytes accepted by the sink
          res,      \* "run" | "ok" | "err_read" | "err_write" | "err_hdr" | "err_chunklen" | "err_auth" | "err_trailing"
          eofSeen,  \* a read returned 0 with the whole file consumed
          faults, splits, shorts, hardFault,
          relOk,    \* history: every released chunk had opened in its position
          maxReq,   \* history: largest read request
          rs, ws, fs

vars == <<f, edits, pos, pc, part, need, j, wrem, out, res, eofSeen, faults, splits, shorts, hardFault,
          relOk, maxReq, rs, ws, fs>>

Init == /\ \E s \in 1..Len(Src) : f = AFileOf(s)
        /\ edits = <<>> /\ pos = 0 /\ pc = "adv" /\ part = 1 /\ need = 0 /\ j = 1 /\ wrem = 0 /\ out = 0
        /\ res = "run" /\ eofSeen = FALSE /\ faults = 0 /\ splits = 0 /\ shorts = 0 /\ hardFault = "none"
        /\ relOk = TRUE /\ maxReq = 0 /\ rs = <<>> /\ ws = <<>> /\ fs = <<>>

----------------------------------------------------------------------------
(* The adversary: a bounded sequence of edits on the file *)

DecVars == <<pos, part, need, j, wrem, out, res, eofSeen, faults, splits, shorts, hardFault, relOk, maxReq, rs, ws, fs>>
NRec == Len(f.recs)
Insert(s, k, x) == SubSeq(s, 1, k - 1) \o <<x>> \o SubSeq(s, k, Len(s))      \* x becomes element k
Remove(s, k)    == SubSeq(s, 1, k - 1) \o SubSeq(s, k + 1, Len(s))
CanEdit == pc = "adv" /\ Len(edits) < MaxEdits /\ f.cut < 0 /\ f.trail = 0  \* cut / append come last
Edit(name, nf) == /\ f' = nf /\ edits' = Append(edits, name) /\ UNCHANGED <<pc, DecVars>>

\* offsets within record k at which a truncation is tried: start, inside counter, flag, length, body, tag, last byte
CutOffsets(r) == {0, 1, 8, 12, 16, 16 + r.plen, 31 + r.plen}

AdvHdr      == CanEdit /\ f.hdrok /\ Edit("hdr", [f EXCEPT !.hdrok = FALSE])
AdvSwapHdr  == CanEdit /\ \E s \in 1..Len(Src) : s - 1 # f.hsrc /\ Edit("swaphdr", [f EXCEPT !.hsrc = s - 1])
AdvTamper   == CanEdit /\ \E k \in 1..NRec : ~f.recs[k].tam /\ Edit("tamper", [f EXCEPT !.recs[k].tam = TRUE])
AdvFlag     == CanEdit /\ \E k \in 1..NRec : \E v \in {0, 1, 2} : v # f.recs[k].flagf
                                 /\ Edit("flag", [f EXCEPT !.recs[k].flagf = v])
AdvLen      == CanEdit /\ \E k \in 1..NRec : \E v \in {f.recs[k].plen - 1, f.recs[k].plen + 1, CS + 1, 0} :
                                 v >= 0 /\ v # f.recs[k].lenf /\ Edit("len", [f EXCEPT !.recs[k].lenf = v])
AdvCtr      == CanEdit /\ \E k \in 1..NRec : f.recs[k].ctrok /\ Edit("ctr", [f EXCEPT !.recs[k].ctrok = FALSE])
AdvDelete   == CanEdit /\ \E k \in 1..NRec : Edit("delete", [f EXCEPT !.recs = Remove(f.recs, k)])
AdvDup      == CanEdit /\ \E k \in 1..NRec : Edit("dup", [f EXCEPT !.recs = Insert(f.recs, k, f.recs[k])])
AdvSwap     == CanEdit /\ \E k \in 1..(NRec - 1) :
                 Edit("swap", [f EXCEPT !.recs = [f.recs EXCEPT ![k] = f.recs[k + 1], ![k + 1] = f.recs[k]]])
AdvSplice   == CanEdit /\ \E s \in 1..Len(Src) : \E i \in 1..Len(Src[s]), k \in 1..(NRec + 1) :
                 s - 1 # f.hsrc /\ Edit("splice", [f EXCEPT !.recs = Insert(f.recs, k, ARec(s, i))])
AdvReplace  == CanEdit /\ \E s \in 1..Len(Src) : \E i \in 1..Len(Src[s]), k \in 1..NRec :
                 s - 1 # f.hsrc /\ Edit("replace", [f EXCEPT !.recs[k] = ARec(s, i)])
\* a record that was never sealed by anyone (attacker-made bytes with chosen cleartext fields)
Forged(k, fl, ln) == [src |-> 99, idx |-> k - 1, plen |-> ln, last |-> fl, flagf |-> fl, lenf |-> ln, ctrok |-> TRUE, tam |-> TRUE]
AdvForge    == CanEdit /\ \E k \in 1..(NRec + 1), fl \in {0, 1}, ln \in {0, 1} :
                 Edit("forge", [f EXCEPT !.recs = Insert(f.recs, k, Forged(k, fl, ln))])
AdvTruncate == /\ pc = "adv" /\ Len(edits) < MaxEdits /\ f.cut < 0 /\ f.trail = 0
               /\ \E c \in ({0, 1, H - 1} \cap 0..(H - 1))
                       \cup UNION {{EndOf(f.recs, H, k - 1) + o : o \in CutOffsets(f.recs[k])} : k \in 1..NRec} :
                    c < FullLen(f, H) /\ Edit("truncate", [f EXCEPT !.cut = c])
AdvAppend   == /\ pc = "adv" /\ Len(edits) < MaxEdits /\ f.cut < 0 /\ f.trail = 0
               /\ \E t \in {1, 16, 17} : Edit("append", [f EXCEPT !.trail = t])

Adversary == AdvHdr \/ AdvSwapHdr \/ AdvTamper \/ AdvFlag \/ AdvLen \/ AdvCtr \/ AdvDelete \/ AdvDup
             \/ AdvSwap \/ AdvSplice \/ AdvReplace \/ AdvForge \/ AdvTruncate \/ AdvAppend

Start == /\ pc = "adv"
         /\ IF HdrParts = <<>> THEN pc' = "rhdr" /\ need' = 16 ELSE pc' = "hdr" /\ need' = HdrParts[1]
         /\ UNCHANGED <<f, edits, pos, part, j, wrem, out, res, eofSeen, faults, splits, shorts, hardFault,
                        relOk, maxReq, rs, ws, fs>>

----------------------------------------------------------------------------
(* The decryptor *)

FLen  == FileLen(f, H)
Avail == FLen - pos

\* does record k, read at position k, open?  (deviations change what is authenticated)
OpensV(k) ==
  IF k > NRec THEN FALSE
  ELSE LET r == f.recs[k]
       IN CASE Variant = "FlagNotInAad" ->
                 f.hdrok /\ r.src = f.hsrc /\ r.idx = k - 1 /\ ~r.tam /\ r.lenf = r.plen
            [] Variant = "NonceFromFile" ->   \* nonce taken from the stored counter field
                 f.hdrok /\ r.src = f.hsrc /\ r.ctrok /\ ~r.tam /\ r.flagf = r.last /\ r.lenf = r.plen
            [] Variant = "HeaderNotChecked" ->   \* chunk key independent of the header / password
                 r.src = f.hsrc /\ r.idx = k - 1 /\ ~r.tam /\ r.flagf = r.last /\ r.lenf = r.plen
            [] OTHER -> Opens(f, k)

\* the fields the decryptor reads for the record at position j (meaningful only if it is there)
Cur == f.recs[j]
InFile == j <= NRec /\ (~Truncated(f, H) \/ EndOf(f.recs, H, j) <= f.cut)   \* record j completely present

\* unbounded: every size; with a budget: the full amount, or one byte, or all but one byte
ReadSizes == IF Avail = 0 THEN {0}
             ELSE LET full == Min(need, Avail)
                  IN {full} \cup (IF MaxShort < 0 THEN 1..full
                                  ELSE IF shorts < MaxShort /\ full > 1 THEN {1, full - 1} ELSE {})
RDirective(n) == LET full == Min(need, Avail)
                 IN IF n = 0 \/ n = full THEN D_FULL ELSE IF n = 1 THEN 1 ELSE IF n = full - 1 THEN D_ALLBUT1 ELSE n

\* what follows a completed read_exact
AfterRead ==
  CASE pc = "hdr" ->
         IF part < Len(HdrParts)
         THEN \* a modified header may be refused as soon as the part carrying the change has been
              \* read (bad magic after part 1), or only once all of it is there
              \/ /\ part' = part + 1 /\ need' = HdrParts[part + 1] /\ pc' = "hdr" /\ UNCHANGED res
              \/ /\ ~f.hdrok /\ Variant # "HeaderNotChecked"
                 /\ pc' = "end" /\ res' = "err_hdr" /\ UNCHANGED <<part, need>>
         ELSE \* header complete: magic check, handshake / key derivation
              IF f.hdrok \/ Variant = "HeaderNotChecked"
              THEN /\ pc' = "rhdr" /\ need' = 16 /\ UNCHANGED <<part, res>>
              ELSE \* a modified header or a wrong key: either the header is refused right away
                   \* (key mode, bad magic) or the first chunk will not open (password mode salt)
                   /\ pc' = "end" /\ res' = "err_hdr" /\ UNCHANGED <<part, need>>
    [] pc = "rhdr" -> /\ pc' = "lenchk" /\ UNCHANGED <<part, need, res>>
    [] pc = "rbody" -> /\ pc' = "open" /\ UNCHANGED <<part, need, res>>

\* one `read` call inside a read_exact loop
Read ==
  /\ pc \in {"hdr", "rhdr", "rbody"}
  /\ \E n \in ReadSizes :
       /\ rs' = Append(rs, RDirective(n))
       /\ maxReq' = IF need > maxReq THEN need ELSE maxReq
       /\ shorts' = IF MaxShort >= 0 /\ n > 0 /\ n < Min(need, Avail) THEN shorts + 1 ELSE shorts
       /\ IF n = 0
          THEN \* end of data inside read_exact: UnexpectedEof -> IORead
               /\ eofSeen' = TRUE /\ pos' = pos
               /\ IF Variant = "EofAtBoundaryOk" /\ pc = "rhdr" /\ need = 16
                  THEN pc' = "end" /\ res' = "ok" /\ UNCHANGED <<part, need>>
                  ELSE pc' = "end" /\ res' = "err_read" /\ UNCHANGED <<part, need>>
          ELSE /\ pos' = pos + n /\ UNCHANGED eofSeen
               /\ IF n = need THEN AfterRead
                  ELSE need' = need - n /\ UNCHANGED <<pc, part, res>>
  /\ UNCHANGED <<f, edits, j, wrem, out, faults, splits, hardFault, relOk, ws, fs>>

\* a failing read call: read_exact retries Interrupted, anything else is IORead
ReadFail ==
  /\ pc \in {"hdr", "rhdr", "rbody"} /\ faults < MaxFaults
  /\ \E kind \in {D_OTHER, D_INTR} :
       /\ rs' = Append(rs, kind)
       /\ IF kind = D_INTR THEN UNCHANGED <<pc, res, hardFault>>
          ELSE pc' = "end" /\ res' = "err_read" /\ hardFault' = "read"
  /\ faults' = faults + 1
  /\ maxReq' = IF need > maxReq THEN need ELSE maxReq
  /\ UNCHANGED <<f, edits, pos, part, need, j, wrem, out, eofSeen, splits, shorts, relOk, ws, fs>>

\* ciphertext_length > chunk_size -> ChunkLen; otherwise read lenf + 16 bytes
LenCheck ==
  /\ pc = "lenchk"
  /\ IF j > NRec
     THEN \* the 16 bytes came from appended garbage: any of the error exits
          \E e \in {"err_chunklen", "err_auth", "err_read"} : pc' = "end" /\ res' = e /\ UNCHANGED need
     ELSE IF Cur.lenf > CS /\ Variant # "NoLenCheck"
     THEN pc' = "end" /\ res' = "err_chunklen" /\ UNCHANGED need
     ELSE pc' = "rbody" /\ need' = Cur.lenf + 16 /\ UNCHANGED res
  /\ UNCHANGED <<f, edits, pos, part, j, wrem, out, eofSeen, faults, splits, shorts, hardFault, relOk, maxReq, rs, ws, fs>>

\* chapoly_decrypt_noise(key, chunk_number, aad(flag, len), body)
Open ==
  /\ pc = "open"
  /\ IF OpensV(j)
     THEN IF Cur.flagf = 1 /\ Variant # "NoEofProbe"
          THEN pc' = "probe" /\ UNCHANGED <<res, wrem>>
          ELSE pc' = (IF Cur.plen > 0 THEN "write" ELSE "flush") /\ wrem' = Cur.plen /\ UNCHANGED res
     ELSE IF Variant = "WriteBeforeVerify" /\ j <= NRec
     THEN \* deviation: the (unauthenticated) plaintext is streamed out before the tag is checked
          pc' = "write" /\ wrem' = Cur.lenf /\ UNCHANGED res
     ELSE pc' = "end" /\ res' = "err_auth" /\ UNCHANGED wrem
  /\ relOk' = (relOk /\ (pc' \in {"write", "probe", "flush"} => (j <= NRec /\ Opens(f, j))))
  /\ UNCHANGED <<f, edits, pos, part, need, j, out, eofSeen, faults, splits, shorts, hardFault, maxReq, rs, ws, fs>>

\* after a chunk flagged final: one bare read(1) must return 0
Probe ==
  /\ pc = "probe"
  /\ maxReq' = IF 1 > maxReq THEN 1 ELSE maxReq
  /\ IF Avail > 0
     THEN /\ rs' = Append(rs, D_FULL) /\ pos' = pos + 1 /\ pc' = "end" /\ res' = "err_trailing"
          /\ UNCHANGED <<wrem, eofSeen>>
     ELSE /\ rs' = Append(rs, D_FULL) /\ eofSeen' = TRUE /\ pos' = pos
          /\ pc' = (IF Cur.plen > 0 THEN "write" ELSE "flush") /\ wrem' = Cur.plen /\ UNCHANGED res
  /\ UNCHANGED <<f, edits, part, need, j, out, faults, splits, shorts, hardFault, relOk, ws, fs>>

ProbeFail ==   \* bare read: even Interrupted surfaces as IORead
  /\ pc = "probe" /\ faults < MaxFaults
  /\ \E kind \in {D_OTHER, D_INTR} : rs' = Append(rs, kind)
  /\ pc' = "end" /\ res' = "err_read" /\ hardFault' = "read" /\ faults' = faults + 1
  /\ maxReq' = IF 1 > maxReq THEN 1 ELSE maxReq
  /\ UNCHANGED <<f, edits, pos, part, need, j, wrem, out, eofSeen, splits, shorts, relOk, ws, fs>>

Accepts == {wrem} \cup (IF (MaxSplits < 0 \/ splits < MaxSplits) /\ wrem > 1 THEN {1, wrem - 1} ELSE {})
Directive(n) == IF n = wrem THEN D_FULL ELSE IF n = 1 THEN 1 ELSE D_ALLBUT1

Write ==
  /\ pc = "write"
  /\ \E n \in Accepts :
       /\ ws' = Append(ws, Directive(n))
       /\ splits' = IF MaxSplits >= 0 /\ n < wrem THEN splits + 1 ELSE splits
       /\ out' = out + n /\ wrem' = wrem - n
       /\ pc' = IF n = wrem THEN "flush" ELSE "write"
  /\ UNCHANGED <<f, edits, pos, part, need, j, res, eofSeen, faults, shorts, hardFault, relOk, maxReq, rs, fs>>

WriteFail ==
  /\ pc = "write" /\ faults < MaxFaults
  /\ \E kind \in {D_OTHER, 0, D_INTR} :
       /\ ws' = Append(ws, kind)
       /\ IF kind = D_INTR THEN UNCHANGED <<pc, res, hardFault>>
          ELSE pc' = "end" /\ res' = "err_write" /\ hardFault' = "write"
  /\ faults' = faults + 1
  /\ UNCHANGED <<f, edits, pos, part, need, j, wrem, out, eofSeen, splits, shorts, relOk, maxReq, rs, fs>>

AfterFlush ==
  IF ~OpensV(j) THEN pc' = "end" /\ res' = "err_auth" /\ UNCHANGED <<j, need>>   \* only under WriteBeforeVerify
  ELSE IF j <= NRec /\ Cur.flagf = 1 /\ OpensV(j)      \* `done`
  THEN pc' = "end" /\ res' = "ok" /\ UNCHANGED <<j, need>>
  ELSE pc' = "rhdr" /\ need' = 16 /\ j' = j + 1 /\ UNCHANGED res

Flush ==
  /\ pc = "flush" /\ fs' = Append(fs, D_FULL) /\ AfterFlush
  /\ UNCHANGED <<f, edits, pos, part, wrem, out, eofSeen, faults, splits, shorts, hardFault, relOk, maxReq, rs, ws>>

FlushFail ==
  /\ pc = "flush" /\ faults < MaxFaults
  /\ \E kind \in {D_OTHER, D_INTR} : fs' = Append(fs, kind)
  /\ faults' = faults + 1 /\ hardFault' = "write"
  /\ IF Variant = "SwallowFlushError" THEN AfterFlush
     ELSE pc' = "end" /\ res' = "err_write" /\ UNCHANGED <<j, need>>
  /\ UNCHANGED <<f, edits, pos, part, wrem, out, eofSeen, splits, shorts, relOk, maxReq, rs, ws>>

Decrypt == Read \/ ReadFail \/ LenCheck \/ Open \/ Probe \/ ProbeFail \/ Write \/ WriteFail \/ Flush \/ FlushFail
Next == Adversary \/ Start \/ Decrypt

Spec     == Init /\ [][Next]_vars
FairSpec == Spec /\ WF_vars(Start) /\ WF_vars(Decrypt)

----------------------------------------------------------------------------
(* Layer A predicates on the model *)

\* C04: what has been released is a prefix of the authentic plaintext made of chunks that were
\* authentic in position and completely consumed
ReleasedIsAuthenticPrefix == relOk /\ out <= AuthC(f, H, pos)

\* C02 / C05: under a wrong key or password (or with a modified header) nothing is released
WrongKeyReleasesNothing == ~f.hdrok => (out = 0 /\ res # "ok")

\* C03 / C04: success only for a complete authentic message, completely written, end of data seen
AcceptMeansComplete == res = "ok" =>
   /\ Class(f, H) # "must_reject"
   /\ out = TotalPlain(f, H) /\ pos = FLen /\ eofSeen

\* C01 / C06: an untouched (or counter-only edited) complete file is accepted when nothing fails
MustAccept == (pc = "end" /\ faults = 0 /\ Class(f, H) = "must_accept") => res = "ok"

\* C10
FaultSurfaces == /\ (pc = "end" /\ hardFault = "read")  => res = "err_read"
                 /\ (pc = "end" /\ hardFault = "write") => res = "err_write"
                 /\ res = "ok" => hardFault = "none"
WholeChunks == (pc = "end" /\ hardFault # "write") => out \in Boundaries(f, H)

\* C11: a chunk is out before more than two further chunks have been read
Lag == Due(f, H, CS, pos) <= out

\* C09: no request is sized by a header field beyond the chunk size
BoundedRequest == maxReq <= CS + 16 \/ maxReq <= H

TypeOK == /\ pos \in 0..FLen /\ out \in 0..TotalPlain(f, H) + CS
          /\ (pc = "end") = (res # "run")
          /\ res \in {"run", "ok", "err_read", "err_write", "err_hdr", "err_chunklen", "err_auth", "err_trailing"}

Termination == <>(pc = "end")

View == <<f, pos, pc, part, need, j, wrem, out, res, eofSeen, faults, splits, shorts, hardFault, relOk, maxReq>>

\* ---- behaviour emission ----
CutRec == IF f.cut < 0 THEN [rec |-> -1, off |-> 0]
          ELSE IF f.cut < H THEN [rec |-> 0, off |-> f.cut]
          ELSE LET k == CHOOSE k \in 1..NRec : EndOf(f.recs, H, k - 1) <= f.cut /\ f.cut < EndOf(f.recs, H, k)
               IN [rec |-> k, off |-> f.cut - EndOf(f.recs, H, k - 1)]
Emit == (pc = "end") =>
   PrintT(<<"REPLAY", ToJson([op |-> "dec", cs |-> CS, file |-> f, cutrec |-> CutRec, edits |-> edits,
                              rs |-> rs, ws |-> ws, fs |-> fs,
                              exp |-> [res |-> res, out |-> out, class |-> Class(f, H)]])>>)
=============================================================================
