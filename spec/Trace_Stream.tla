---------------------------- MODULE Trace_Stream ----------------------------
(***************************************************************************)
(* Layer A trace specification for the stream functions (impl -> spec).    *)
(*                                                                         *)
(* Input: an ndjson file of events recorded by the harness at the          *)
(* Read/Write boundary of the real encrypt / decrypt functions (one event  *)
(* per read, write, flush call; `begin` and `end` around each run; many    *)
(* runs concatenated).  This module is a total monitor: every well-formed  *)
(* event is consumed, the contract's predicates (DESIGN.md 5.1: E1-E6 for  *)
(* encryption, D1-D8 for decryption) are evaluated at every event, and a   *)
(* broken predicate is recorded in `viol`, watched by the invariant        *)
(* NoViolation.  Nothing here prescribes chunking, buffering, or the       *)
(* number and size of I/O calls: those are read from the trace.            *)
(*                                                                         *)
(* The decryption predicates are stated over the abstract file (AFile.tla) *)
(* carried in the `begin` event; the projections the harness logs          *)
(* (authc, due, class, boundary) are recomputed here from the abstract     *)
(* file and must agree (a disagreement is a tooling error, not a           *)
(* violation: names starting with TOOL_).                                  *)
(***************************************************************************)
EXTENDS AFile, TLC, Json, IOUtils, SequencesExt

Rec == ndJsonDeserialize(IOEnv.TRACE)
N   == Len(Rec)

VARIABLES l,      \* index of the next event
          m,      \* monitor state of the current run
          viol    \* set of <<event index, predicate name>> of broken predicates

vars == <<l, m, viol>>

Idle == [active |-> FALSE]

\* (the begin record itself stays in the trace: the state holds its index only, or every state would carry - and TLC would
\* fingerprint - the tens of thousands of chunk records a multi-GiB run lists there)
NewRun(bi) == [active |-> TRUE, bi |-> bi, cons |-> 0, acc |-> 0, eof |-> FALSE,
              hard |-> <<>>,      \* sides of hard (non-retryable) faults, in order
              intr |-> {},        \* sides on which an Interrupted fault was injected
              owed |-> {},        \* kinds of call that were interrupted and not yet re-issued
              wfault |-> FALSE,   \* any fault on the write side (write or flush), hard or transient
              unflushed |-> 0,    \* bytes the sink accepted since its last successful flush
              maxheap |-> 0,      \* largest heap peak seen at any event of this run
              ended |-> FALSE]

B(mm) == Rec[mm.bi]
Init == l = 1 /\ m = Idle /\ viol = {}

Side(kind) == IF kind = "read" THEN "read" ELSE "write"
SideErr(s) == IF s = "read" THEN "err_read" ELSE "err_write"

HasScn(b) == "scn" \in DOMAIN b
F(b) == [hdrok |-> b.scn.hdrok, hsrc |-> b.scn.hsrc, recs |-> b.scn.recs, cut |-> b.scn.cut, trail |-> b.scn.trail]

Flag(cond, name) == IF cond THEN {} ELSE {<<l, name>>}

----------------------------------------------------------------------------
(* begin *)

BeginChecks(b) ==
  IF b.op = "dec" /\ HasScn(b)
  THEN Flag(Class(F(b), b.H) = b.class, "TOOL_projection_class")
       \cup Flag(FileLen(F(b), b.H) = b.flen, "TOOL_projection_flen")
  ELSE {}

Begin ==
  /\ l <= N /\ Rec[l].ev = "begin"
  /\ m' = NewRun(l)
  /\ viol' = viol \cup BeginChecks(Rec[l])
  /\ l' = l + 1

----------------------------------------------------------------------------
(* read / write / flush *)

IsHard(e) == e.ret = -1 \/ (e.ev = "write" /\ e.ret = 0 /\ e.req > 0)
IsIntr(e) == e.ret = -2

\* predicates evaluated at every I/O event
EventChecks(e, mm) ==
  LET b == B(mm) IN
  Flag(e.heap <= b.heapk, IF b.op = "enc" THEN "E5_heap_not_constant" ELSE "D8_heap_not_constant")
  \cup (IF b.op = "enc"
        THEN Flag(e.cons - e.cov <= 3 * b.cs, "E4_output_lags_input")
        ELSE Flag(e.acc >= e.due, "D7_output_lags_input")
             \cup (IF e.ev = "write" /\ e.req > 0
                   THEN Flag(e.off + e.req <= e.authc, "D1_write_before_authenticated")
                        \cup Flag(e.ok, "D1_written_bytes_not_authentic_plaintext")
                   ELSE {})
             \cup (IF HasScn(b)
                   THEN Flag(AuthC(F(b), b.H, e.cons) = e.authc /\ Due(F(b), b.H, b.cs, e.cons) = e.due,
                             "TOOL_projection_auth")
                   ELSE {}))
  \cup Flag(~mm.ended, "D6_event_after_end")

IOEvent ==
  /\ l <= N /\ Rec[l].ev \in {"read", "write", "flush"} /\ m.active
  /\ LET e == Rec[l]
         total == IF B(m).op = "enc" THEN B(m).plen ELSE B(m).flen
     IN /\ m' = [m EXCEPT
                  !.cons = e.cons, !.acc = e.acc,
                  !.eof  = (m.eof \/ (e.ev = "read" /\ e.ret = 0 /\ e.req > 0 /\ e.cons = total)),
                  !.hard = IF IsHard(e) THEN Append(m.hard, Side(e.ev)) ELSE m.hard,
                  !.intr = IF IsIntr(e) THEN m.intr \cup {Side(e.ev)} ELSE m.intr,
                  !.owed = IF IsIntr(e) THEN m.owed \cup {e.ev}
                           ELSE IF IsHard(e) THEN m.owed ELSE m.owed \ {e.ev},
                  !.wfault = (m.wfault \/ (e.ev # "read" /\ (IsHard(e) \/ IsIntr(e)))),
                  !.unflushed = IF e.ev = "write" /\ e.ret > 0 THEN m.unflushed + e.ret
                                ELSE IF e.ev = "flush" /\ e.ret = 0 THEN 0 ELSE m.unflushed,
                  !.maxheap = IF e.heap > m.maxheap THEN e.heap ELSE m.maxheap]
        /\ viol' = viol \cup EventChecks(e, m)
  /\ l' = l + 1

----------------------------------------------------------------------------
(* end of an encryption run: E1, E2, E3, E6 *)

RECURSIVE SumN(_)
SumN(R) == IF R = <<>> THEN 0 ELSE Head(R).n + SumN(Tail(R))
RECURSIVE SumLen(_)
SumLen(R) == IF R = <<>> THEN 0 ELSE Head(R).n * Head(R).len + SumLen(Tail(R))

\* the sink is header ++ records forming a legal chunking of the plaintext (C01, C06, C08)
LegalOutput(b, e) ==
  LET R == b.recs IN
  /\ Len(R) >= 1
  /\ \A i \in 1..Len(R) :
       /\ R[i].ok /\ R[i].ctrok /\ R[i].n >= 1
       /\ \/ R[i].len \in 1..b.cs
          \/ (R[i].len = 0 /\ b.plen = 0 /\ Len(R) = 1 /\ R[1].n = 1)
       /\ i < Len(R) => R[i].last = 0
  /\ R[Len(R)].last = 1 /\ R[Len(R)].n = 1
  /\ SumLen(R) = b.plen
  /\ b.residue = 0 /\ ~b.dead /\ b.hdr_ok
  /\ b.sinklen = b.H + 32 * SumN(R) + b.plen      \* size formula of C08
  /\ e.cons = b.plen

EncEnd(e, mm) ==
  LET b == B(mm)
      nofault == mm.hard = <<>> /\ mm.intr = {}
  IN Flag(e.res \notin {"panic", "hang"}, "E6_panic_or_hang")
     \cup (IF mm.hard # <<>>
           THEN Flag(e.res = SideErr(mm.hard[1]), "E3_fault_not_surfaced_on_its_side")
           ELSE IF e.res # "ok" /\ e.res \notin {"panic", "hang"}
           THEN Flag(b.nonconf \/ (\E s \in mm.intr : e.res = SideErr(s)), "E2_error_without_cause")
           ELSE {})
     \cup (IF e.res = "ok" /\ ~b.nonconf
           THEN Flag(LegalOutput(b, e), "E1_illegal_output")
                \cup Flag(mm.eof, "E1_success_without_end_of_data")
                \cup Flag(mm.owed = {}, "E3_interrupted_call_not_retried")
           ELSE {})
     \cup Flag(~b.twin.used \/ b.twin.prefix_ok, "E3_written_bytes_not_prefix_of_fault_free_run")

----------------------------------------------------------------------------
(* end of a decryption run: D2 - D6 *)

DecEnd(e, mm) ==
  LET b == B(mm)
      nofault == mm.hard = <<>> /\ mm.intr = {}
      plen == IF HasScn(b) THEN TotalPlain(F(b), b.H) ELSE b.plen
  IN Flag(e.res \notin {"panic", "hang"}, "D6_panic_or_hang")
     \cup (IF mm.hard # <<>>
           THEN Flag(e.res = SideErr(mm.hard[1]), "D4_fault_not_surfaced_on_its_side")
           ELSE Flag(~(e.res = "err_write" /\ "write" \notin mm.intr), "D4_write_error_without_cause")
                \cup Flag(~(e.res = "err_read" /\ "read" \notin mm.intr /\ b.class # "must_reject"),
                          "D4_read_error_without_cause"))
     \cup (IF e.res = "ok"
           THEN Flag(b.class # "must_reject", "D2_accepted_unauthentic_file")
                \cup Flag(e.acc = plen, "D2_success_with_incomplete_output")
                \cup Flag(e.cons = b.flen /\ mm.eof, "D2_success_without_end_of_data")
                \cup Flag(e.sender_ok, "D2_wrong_sender_reported")
                \cup Flag(mm.owed = {}, "D4_interrupted_call_not_retried")
           ELSE {})
     \cup Flag(~(b.class = "must_accept" /\ nofault /\ e.res # "ok"), "D3_rejected_authentic_file")
     \cup (IF ~mm.wfault THEN Flag(e.boundary, "D5_partial_chunk_released") ELSE {})
     \* whatever the decryptor handed to the sink has also been flushed through it when it returns - with success or with
     \* an error: a sink that buffers would otherwise deliver part of a chunk, and deliver it after the error was reported
     \cup (IF ~mm.wfault /\ e.res \notin {"panic", "hang"}
           THEN Flag(mm.unflushed = 0, "D5_accepted_bytes_not_flushed_when_the_call_returns") ELSE {})
     \cup Flag(~b.twin.used \/ b.twin.prefix_ok, "D4_written_bytes_not_prefix_of_fault_free_run")
     \cup (IF HasScn(b)
           THEN Flag((e.acc \in Boundaries(F(b), b.H)) = e.boundary, "TOOL_projection_boundary")
           ELSE {})

\* C11, sharper than the constant bound: where the harness also ran the same operation on a three-chunk
\* input (heap_ref >= 0), the peak heap of this run must not exceed that by more than 1 KiB, so even a
\* few bytes kept per chunk show on an input of thousands of chunks.
HeapIndependentOfLength(mm) ==
  IF "heap_ref" \in DOMAIN B(mm) /\ B(mm).heap_ref >= 0
  THEN Flag(mm.maxheap <= B(mm).heap_ref + 1024,
            IF B(mm).op = "enc" THEN "E5_heap_grows_with_input_length" ELSE "D8_heap_grows_with_input_length")
  ELSE {}

End ==
  /\ l <= N /\ Rec[l].ev = "end" /\ m.active
  /\ viol' = viol \cup (IF B(m).op = "enc" THEN EncEnd(Rec[l], m) ELSE DecEnd(Rec[l], m))
                  \cup HeapIndependentOfLength(m)
                  \* the stretch between the last I/O call and the return (e.g. a buffer sized by a header field just read)
                  \cup (IF "heap" \in DOMAIN Rec[l]
                        THEN Flag(Rec[l].heap <= B(m).heapk, IF B(m).op = "enc" THEN "E5_heap_not_constant" ELSE "D8_heap_not_constant")
                        ELSE {})
                  \cup Flag(Rec[l].cons = m.cons /\ Rec[l].acc = m.acc, "TOOL_counts")
  /\ m' = [m EXCEPT !.ended = TRUE]
  /\ l' = l + 1

\* After the last event the verdict is printed (one line).  The broken predicates are not
\* reported through a TLC invariant because TLC's reconstruction of a counterexample that
\* is hundreds of thousands of states deep takes minutes; the monitor instead runs to the
\* end of the trace and reports every broken predicate with its event index.
Report ==
  /\ l = N + 1
  /\ PrintT(<<"REPLAY", ToJson([viol |-> SetToSeq({[line |-> v[1], pred |-> v[2]] : v \in viol})])>>)
  /\ l' = N + 2 /\ UNCHANGED <<m, viol>>

Next == Begin \/ IOEvent \/ End \/ Report
TraceSpec == Init /\ [][Next]_vars

TraceAccepted ==
  \/ TLCGet("stats").diameter - 2 = N
  \/ Print(<<"TRACE-NOT-CONSUMED at line", TLCGet("stats").diameter>>, FALSE)
=============================================================================
