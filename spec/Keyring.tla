------------------------------- MODULE Keyring -------------------------------
(***************************************************************************)
(* The keyring file: a line-oriented text of [Key] sections.               *)
(*                                                                         *)
(* Layer A (contract, what C17 states) is declarative, over the sequence   *)
(* of line tokens of a text:                                               *)
(*   MustReject   some section lacks a name of 1..128 bytes or a           *)
(*                well-formed public key, has a malformed private key, or  *)
(*                a name or public key occurs in two sections              *)
(*   MustAccept   the text is what the tool itself writes: blocks          *)
(*                [Key] / Name / PublicKey / PrivateKey (blank lines       *)
(*                between), distinct names and keys, every name one that   *)
(*                key generation accepts                                   *)
(*   otherwise    MAY: the property is silent                              *)
(*   on acceptance of an unambiguous text the entries are exactly the      *)
(*   sections in order, so look-ups by name / key have at most one answer. *)
(*                                                                         *)
(* Layer B is a transcription of Keyring::parse_config / add_key           *)
(* (src/cli/src/keyring.rs:222-392), one action per line, one branch per   *)
(* `if`.  TLC checks B against A for every token sequence up to a bound    *)
(* and prints each sequence for replay into the real parser.               *)
(***************************************************************************)
EXTENDS KeyringContract, TLC, Json

CONSTANTS MaxLines,
          StripTabs     \* TRUE: the parser deletes every tab of a line before looking at it
                        \* (the pinned code, keyring.rs:231-233); FALSE: it only trims

\* what the parser takes the name to be
Parsed(v)    == IF StripTabs /\ v = "tab" THEN "tab-stripped" ELSE v

----------------------------------------------------------------------------
(* Layer B: parse_config, one action per line *)

VARIABLES toks,     \* the lines consumed so far
          keyFound, name, pub, priv, keys,
          res       \* "run" while lines may follow; the verdict is computed by Finish

vars == <<toks, keyFound, name, pub, priv, keys, res>>

Init == toks = <<>> /\ keyFound = FALSE /\ name = None /\ pub = None /\ priv = None /\ keys = <<>> /\ res = "run"

DupIn(ks, n, p) == \E i \in 1..Len(ks) : ks[i].name = n \/ ks[i].pub = p

\* add_key (keyring.rs:352-392): result "err" or the extended list
AddKey(ks, n, p, k) ==
  IF n = None \/ p = None THEN [ok |-> FALSE, keys |-> ks]
  ELSE IF DupIn(ks, n, p) THEN [ok |-> FALSE, keys |-> ks]
  ELSE [ok |-> TRUE, keys |-> Append(ks, [name |-> n, pub |-> p, priv |-> k])]

Line(tok) ==
  /\ res = "run" /\ Len(toks) < MaxLines
  /\ toks' = Append(toks, tok)
  /\ CASE tok.t = "key" ->
            IF keyFound
            THEN IF name = None \/ pub = None
                 THEN res' = "err" /\ UNCHANGED <<keyFound, name, pub, priv, keys>>
                 ELSE LET r == AddKey(keys, name, pub, priv)
                      IN IF ~r.ok THEN res' = "err" /\ UNCHANGED <<keyFound, name, pub, priv, keys>>
                         ELSE keys' = r.keys /\ name' = None /\ pub' = None /\ priv' = None /\ UNCHANGED <<keyFound, res>>
            ELSE keyFound' = TRUE /\ UNCHANGED <<name, pub, priv, keys, res>>
       [] tok.t = "name" ->
            IF ~keyFound \/ name # None \/ ~ValidName(tok.v)
            THEN res' = "err" /\ UNCHANGED <<keyFound, name, pub, priv, keys>>
            ELSE name' = Parsed(tok.v) /\ UNCHANGED <<keyFound, pub, priv, keys, res>>
       [] tok.t = "name_noeq" -> res' = "err" /\ UNCHANGED <<keyFound, name, pub, priv, keys>>
       [] tok.t = "pub" ->
            IF ~keyFound \/ pub # None \/ ~WellPub(tok.v)
            THEN res' = "err" /\ UNCHANGED <<keyFound, name, pub, priv, keys>>
            ELSE pub' = tok.v /\ UNCHANGED <<keyFound, name, priv, keys, res>>
       [] tok.t = "priv" ->
            IF ~keyFound \/ priv # None \/ ~WellPriv(tok.v)
            THEN res' = "err" /\ UNCHANGED <<keyFound, name, pub, priv, keys>>
            ELSE priv' = tok.v /\ UNCHANGED <<keyFound, name, pub, keys, res>>
       [] tok.t \in {"comment", "blank"} -> UNCHANGED <<keyFound, name, pub, priv, keys, res>>
       [] tok.t = "junk" -> res' = "err" /\ UNCHANGED <<keyFound, name, pub, priv, keys>>

Next == \E tok \in Tokens : Line(tok)
Spec == Init /\ [][Next]_vars

\* the verdict if the text ended here (end of parse_config)
Final ==
  IF res = "err" THEN [ok |-> FALSE, keys |-> <<>>]
  ELSE IF ~keyFound THEN [ok |-> FALSE, keys |-> <<>>]
  ELSE LET r == AddKey(keys, name, pub, priv)
       IN IF ~r.ok THEN [ok |-> FALSE, keys |-> <<>>] ELSE [ok |-> TRUE, keys |-> r.keys]

----------------------------------------------------------------------------
(* B against A *)

RejectsWhatItMust == MustReject(toks) => ~Final.ok
AcceptsToolWritten == MustAccept(toks) => Final.ok
\* C17: every keyring the tool writes parses back to the names and keys that were written;
\* accepted unambiguous texts yield exactly their sections in order
ParseBack == (Final.ok /\ Unambiguous(toks)) => Final.keys = Entries(toks)
LookupUnique == Final.ok =>
   \A i, j \in 1..Len(Final.keys) : i # j => (Final.keys[i].name # Final.keys[j].name /\ Final.keys[i].pub # Final.keys[j].pub)

Emit == PrintT(<<"REPLAY", ToJson([toks |-> toks, class |-> Class(toks), model |-> Final.ok])>>)
=============================================================================
