--------------------------------- MODULE Cli ---------------------------------
(***************************************************************************)
(* Layer B model of a kestrel invocation as the ordered list of steps the  *)
(* code performs (src/cli/src/main.rs, commands.rs), each of which can     *)
(* fail for the causes C13 lists, acting on an abstract file system cell   *)
(* (the output path).  The wiring (file/stdin, -o/stdout, -k/env, long or  *)
(* short options, command or alias) is part of the configuration; the      *)
(* Layer A expectation (CliContract!Expected) forgets it.                  *)
(***************************************************************************)
EXTENDS CliContract, TLC, Json

CONSTANT Variant    \* "none" | "EagerCreate" | "ExitZeroOnError" | "FirstEntryIsSender" | "HeaderBeforePassword"

\* the steps of each command, in the code's order
Steps(cmd) ==
  CASE cmd = "encrypt" ->
         <<"parse_args", "same_path", "open_input", "open_output", "open_keyring", "find_recipient", "find_sender",
           "need_private", "ask_pass", "unlock", "handshake", "write_header", "chunks", "done">>
    [] cmd = "decrypt" ->
         <<"parse_args", "same_path", "open_input", "open_output", "open_keyring", "find_recipient",
           "need_private", "ask_pass", "unlock", "read_header", "handshake", "first_chunk", "later_chunks", "name_sender", "done">>
    [] cmd = "pass_encrypt" ->
         IF Variant = "HeaderBeforePassword"
         THEN <<"parse_args", "same_path", "open_input", "open_output", "write_header", "ask_pass", "chunks", "done">>
         ELSE <<"parse_args", "same_path", "open_input", "open_output", "ask_pass", "write_header", "chunks", "done">>
    [] cmd = "pass_decrypt" ->
         <<"parse_args", "same_path", "open_input", "open_output", "ask_pass", "read_header", "first_chunk", "later_chunks", "done">>
    [] cmd = "key_generate" ->
         <<"parse_args", "ask_name", "ask_pass", "generate", "open_output", "write_block", "done">>

\* the step at which each cause makes the command fail
FailStep(cause) ==
  CASE cause = "bad_args" -> "parse_args"
    [] cause = "same_in_out" -> "same_path"
    [] cause = "missing_input" -> "open_input"
    [] cause \in {"missing_keyring", "malformed_keyring", "non_utf8_keyring", "non_utf8_keyring_path", "keyring_is_directory"} -> "open_keyring"
    [] cause = "unknown_recipient" -> "find_recipient"
    [] cause = "unknown_sender" -> "find_sender"
    [] cause = "no_private_key" -> "need_private"
    [] cause \in {"unset_password", "non_utf8_password", "no_terminal"} -> "ask_pass"
    [] cause = "empty_name" -> "ask_name"
    [] cause = "wrong_password" -> "unlock"          \* key commands; password decryption: see below
    [] cause = "refused_exchange" -> "handshake"
    [] cause = "wrong_recipient" -> "handshake"
    [] cause \in {"bad_header", "other_mode_file", "truncated_header"} -> "read_header"
    [] cause = "corrupt_header" -> "handshake"
    [] cause \in {"corrupt_first_chunk", "truncated_first_chunk"} -> "first_chunk"
    [] cause \in {"corrupt_later_chunk", "truncated_later_chunk", "appended_data"} -> "later_chunks"
    [] OTHER -> "never"
\* the step that performs the first write to the output
FirstWrite(cmd) == CASE cmd \in {"encrypt", "pass_encrypt"} -> "write_header"
                     [] cmd \in {"decrypt", "pass_decrypt"} -> "first_chunk"
                     [] OTHER -> "write_block"
\* the step that performs the first read of the input's data
FirstRead(cmd) == CASE cmd \in {"encrypt", "pass_encrypt"} -> "chunks"
                    [] OTHER -> "read_header"
FailsAt(c, step) ==
  \/ FailStep(c.cause) = step
  \/ c.cause \in InputCauses /\ step = FirstRead(c.cmd)
  \/ c.cause \in OutputCauses /\ step = FirstWrite(c.cmd)
  \/ c.cmd = "pass_decrypt" /\ c.cause \in {"wrong_password", "corrupt_header"} /\ step = "first_chunk"

VARIABLES cfg, pc, cell, exit, errline, named
\* cell: content of the output path: "absent" | "old" | "empty" | "partial" | "prefix1" | "full" | "appended"
vars == <<cfg, pc, cell, exit, errline, named>>

Init == /\ cfg \in Configs /\ pc = 1 /\ cell = (IF cfg.prior = "present" THEN "old" ELSE "absent")
        /\ exit = -1 /\ errline = FALSE /\ named = "n/a"

Create == IF cfg.outp = "file" THEN "empty" ELSE cell     \* File::create: create or truncate

Step ==
  /\ exit = -1
  /\ LET s == Steps(cfg.cmd)[pc] IN
     IF FailsAt(cfg, s)
     THEN /\ exit' = (IF Variant = "ExitZeroOnError" /\ s = "later_chunks" THEN 0 ELSE 1)
          /\ errline' = (exit' = 1)
          /\ cell' = (IF s = "later_chunks" /\ cfg.outp = "file" THEN "prefix1" ELSE cell)
          /\ UNCHANGED <<cfg, pc, named>>
     ELSE /\ pc' = pc + 1
          /\ CASE s = "open_output" ->
                    /\ cell' = IF Variant = "EagerCreate" THEN Create
                               ELSE IF cfg.cmd = "key_generate" THEN cell ELSE cell    \* OnDemandFile: nothing yet
                    /\ UNCHANGED <<exit, errline, named>>
               [] s \in {"write_header", "first_chunk"} ->
                    \* first write: the output file is created / truncated now
                    /\ cell' = IF cfg.outp = "file" THEN "partial" ELSE cell
                    /\ UNCHANGED <<exit, errline, named>>
               [] s = "write_block" ->
                    /\ cell' = IF cfg.outp = "file" THEN (IF cell = "old" THEN "appended" ELSE "full") ELSE cell
                    /\ UNCHANGED <<exit, errline, named>>
               [] s \in {"chunks", "later_chunks"} ->
                    /\ cell' = IF cfg.outp = "file" THEN "full" ELSE cell
                    /\ UNCHANGED <<exit, errline, named>>
               [] s = "name_sender" ->
                    /\ named' = IF cfg.sender \in {"absent", "badsum"} THEN "unknown"
                                ELSE IF Variant = "FirstEntryIsSender" /\ cfg.sender = "last" THEN "wrong_name" ELSE "name"
                    /\ UNCHANGED <<cell, exit, errline>>
               [] s = "done" -> exit' = 0 /\ UNCHANGED <<cell, errline, named>>
               [] OTHER -> UNCHANGED <<cell, exit, errline, named>>
          /\ UNCHANGED cfg

Spec == Init /\ [][Step]_vars /\ WF_vars(Step)

Finished == exit # -1
Obs == [exit |-> exit, errline |-> errline, named |-> named,
        out |-> IF cfg.cause \in {"output_device_full", "stdout_full", "stdout_closed", "output_is_directory"} \cup InputCauses THEN "n/a"
                ELSE IF cfg.outp = "stdout" /\ cfg.cause # "none" /\ cfg.cause \notin LateCauses(cfg.cmd) THEN "none"
                ELSE IF cfg.outp = "stdout" THEN (IF cfg.cause = "none" THEN "full" ELSE "prefix1")
                ELSE IF cell = "old" THEN "untouched" ELSE cell]

\* C13
NoClobber == (Finished /\ cfg.cause \in (EarlyCauses(cfg.cmd) \cup {"output_dir_missing"}) /\ cfg.outp = "file") =>
                cell = (IF cfg.prior = "present" THEN "old" ELSE "absent")
PrefixOnLaterFailure == (Finished /\ cfg.cause \in LateCauses(cfg.cmd)) => (exit = 1 /\ (cfg.outp = "file" => cell = "prefix1"))
\* C12
ExitTruthful == Finished => ((exit = 0) = (cfg.cause = "none") /\ errline = (exit = 1))
MatchesContract == Finished =>
   LET e == Expected(cfg) IN
   /\ Obs.exit = e.exit /\ Obs.errline = e.errline /\ Obs.named = e.named
   /\ (Obs.out = e.out \/ (e.out = "prefix1or2" /\ Obs.out = "prefix1"))
\* the outcome is a function of the abstract request: two configurations with the same abstraction
\* (checked pairwise through the contract, which only sees Abstract(cfg), prior and outp)
Termination == <>Finished

Emit == Finished => PrintT(<<"REPLAY", ToJson([cfg |-> cfg, exp |-> Expected(cfg)])>>)
=============================================================================
