--------------------------------- MODULE Argv ---------------------------------
(***************************************************************************)
(* C09: argument vectors over the CLI vocabulary, up to a length bound.    *)
(* Layer A for an arbitrary vector is only: exit status 0 or 1, an         *)
(* "Error:" line exactly when 1, never a panic, abort or hang.             *)
(***************************************************************************)
EXTENDS Naturals, Sequences, TLC, Json
CONSTANTS MaxArgs, Vocab
VARIABLE argv
Init == argv = <<>>
Next == Len(argv) < MaxArgs /\ \E w \in Vocab : argv' = Append(argv, w)
Spec == Init /\ [][Next]_argv
Emit == PrintT(<<"REPLAY", ToJson([argv |-> argv])>>)
=============================================================================
