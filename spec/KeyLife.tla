------------------------------- MODULE KeyLife -------------------------------
(***************************************************************************)
(* Key life-cycle histories (C14, C16).                                    *)
(*                                                                         *)
(* Part 1 - a keyring file under repeated `key generate -o F` (C14).       *)
(*   The file is a sequence of items; what was there initially is opaque   *)
(*   ("old"), possibly without a trailing newline.  Generate appends a     *)
(*   separator and a new block.  Deviation TruncateOnGenerate is the       *)
(*   pinned code (File::create truncates): it must break KeepsKeys.        *)
(*                                                                         *)
(*   F is named by a path; several paths name the same file (PathKinds):   *)
(*   the plain path, a symbolic link to it, a path through "sub/..", a     *)
(*   second hard link.  Look (does F exist?) and Open both resolve the     *)
(*   path; the contract does not depend on which name is used.  Deviation  *)
(*   LookDoesNotFollowLinks (the existence test uses lstat-like metadata:  *)
(*   a symbolic link "is not a file", so the create-or-TRUNCATE branch is  *)
(*   taken, and create follows the link) must break KeepsKeys.             *)
(*                                                                         *)
(* Part 2 - one key under change-pass / extract-pub / use (C16).           *)
(*   Passwords are drawn from a small set; every re-lock draws a fresh     *)
(*   salt; the private key never changes.  Deviations ReuseSaltOnChange    *)
(*   and RelockFreshKey must break the invariants.                         *)
(***************************************************************************)
EXTENDS Naturals, Sequences, FiniteSets, TLC, Json

CONSTANTS MaxOps, Variant

InitialFiles == {"absent", "empty", "keyring_nl", "keyring_no_nl", "keyring_comments"}
Passwords == {"p0", "p1", "p2", "p3"}
PathKinds == {"direct", "symlink", "dotdot", "hardlink"}

VARIABLES mode,      \* "gen" | "life"
          file,      \* gen: [exists, items]
          ngen,      \* gen: number of keys generated so far
          initial,   \* gen: the initial state name
          hist,      \* the operations so far
          sk,        \* life: identity of the private key in the newest locked string
          pw,        \* life: password of the newest locked string
          pwHist,    \* life: passwords used so far, in order
          salt,      \* life: salt of the newest locked string
          salts,     \* life: all salts so far
          nextSalt
vars == <<mode, file, ngen, initial, hist, sk, pw, pwHist, salt, salts, nextSalt>>

InitGen == /\ mode = "gen" /\ initial \in InitialFiles
           /\ file = (IF initial = "absent" THEN [exists |-> FALSE, items |-> <<>>]
                      ELSE IF initial = "empty" THEN [exists |-> TRUE, items |-> <<>>]
                      ELSE [exists |-> TRUE, items |-> <<[k |-> "old", name |-> initial]>>])
           /\ ngen = 0 /\ hist = <<>> /\ sk = 0 /\ pw = "p0" /\ pwHist = <<>> /\ salt = 0 /\ salts = {} /\ nextSalt = 1
InitLife == /\ mode = "life" /\ initial = "n/a" /\ file = [exists |-> FALSE, items |-> <<>>] /\ ngen = 0
            /\ hist = <<>> /\ sk = 1 /\ \E p \in Passwords : pw = p /\ pwHist = <<p>>
            /\ salt = 1 /\ salts = {1} /\ nextSalt = 2
Init == InitGen \/ InitLife

\* `key generate -o F` (commands.rs:285-326)
\* what the existence test answers for a path of kind via
Looks(via) == IF Variant = "LookDoesNotFollowLinks" /\ via = "symlink" THEN FALSE ELSE file.exists
GenerateVia(via) ==
  /\ mode = "gen" /\ Len(hist) < MaxOps
  /\ (via = "hardlink" => file.exists)            \* a second hard link needs a file to link to
  /\ LET block == [k |-> "block", name |-> ngen + 1]
         sep   == [k |-> "sep", name |-> 0]
     IN file' = IF ~file.exists THEN [exists |-> TRUE, items |-> <<block>>]
                ELSE IF ~Looks(via) THEN [exists |-> TRUE, items |-> <<block>>]        \* create-or-truncate through the path
                ELSE IF Variant = "TruncateOnGenerate" THEN [exists |-> TRUE, items |-> <<sep, block>>]
                ELSE [exists |-> TRUE, items |-> file.items \o <<sep, block>>]
  /\ ngen' = ngen + 1 /\ hist' = Append(hist, via)
  /\ UNCHANGED <<mode, initial, sk, pw, pwHist, salt, salts, nextSalt>>
Generate == \E via \in PathKinds : GenerateVia(via)

ChangePass ==
  /\ mode = "life" /\ Len(hist) < MaxOps
  /\ \E new \in Passwords :
       /\ pw' = new /\ pwHist' = Append(pwHist, new) /\ hist' = Append(hist, <<"changepass", new>>)
  /\ salt' = (IF Variant = "ReuseSaltOnChange" THEN salt ELSE nextSalt)
  /\ salts' = salts \cup {salt'} /\ nextSalt' = nextSalt + 1
  /\ sk' = (IF Variant = "RelockFreshKey" THEN sk + 1 ELSE sk)
  /\ UNCHANGED <<mode, file, ngen, initial>>
ExtractPub ==
  /\ mode = "life" /\ Len(hist) < MaxOps /\ hist' = Append(hist, <<"extractpub">>)
  /\ UNCHANGED <<mode, file, ngen, initial, sk, pw, pwHist, salt, salts, nextSalt>>
Use ==
  /\ mode = "life" /\ Len(hist) < MaxOps /\ hist' = Append(hist, <<"use">>)
  /\ UNCHANGED <<mode, file, ngen, initial, sk, pw, pwHist, salt, salts, nextSalt>>

Next == Generate \/ ChangePass \/ ExtractPub \/ Use
Spec == Init /\ [][Next]_vars

\* ---- C14 ----
Blocks == SelectSeq(file.items, LAMBDA it : it.k = "block")
KeepsKeys == mode = "gen" =>
   /\ Len(Blocks) = ngen /\ \A i \in 1..ngen : Blocks[i].name = i            \* every generated key, in order
   /\ (initial \in {"keyring_nl", "keyring_no_nl", "keyring_comments"} /\ ngen > 0) =>
         (file.items # <<>> /\ file.items[1].k = "old")                       \* earlier contents are a prefix
\* ---- C16 ----
IdentityKept == mode = "life" => sk = 1
SaltsFresh   == mode = "life" => Cardinality(salts) = Len(pwHist)
\* the newest string unlocks exactly under the newest password (symbolic scrypt is injective)
UnlocksUnder(p) == p = pw

EmitGen  == (mode = "gen" /\ Len(hist) = MaxOps) => PrintT(<<"REPLAY", ToJson([mode |-> "gen", initial |-> initial, n |-> ngen, vias |-> hist])>>)
EmitLife == (mode = "life" /\ Len(hist) = MaxOps) => PrintT(<<"REPLAY", ToJson([mode |-> "life", first |-> pwHist[1], ops |-> hist])>>)
=============================================================================
