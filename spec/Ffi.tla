--------------------------------- MODULE Ffi ---------------------------------
(***************************************************************************)
(* C18: the exported C function                                            *)
(*   void scrypt(pw, pw_len, salt, salt_len, n, r, p, derived_key, dk_len) *)
(* as a frame condition on the caller's memory: a buffer with guard zones  *)
(* before and after the dk_len bytes to be written, and the two input      *)
(* buffers.  After the call: derived_key[0, dk_len) = SCRYPT(pw, salt, n,  *)
(* r, p, dk_len); guards and inputs unchanged.  The deviations must break  *)
(* the frame.  Also the laws of SCRYPT the rest of the specification       *)
(* assumes (deterministic; sensitive to each argument; the output for a    *)
(* shorter length is a prefix of the output for a longer one).             *)
(***************************************************************************)
EXTENDS Naturals, Sequences, FiniteSets, TLC, Json
CONSTANT Variant      \* "none" | "OverrunByOne" | "SwapPwSalt" | "TruncatedCopy"

PwLens   == {0, 1, 7, 63, 64, 65}      \* around the HMAC block size
SaltLens == {0, 3, 16, 33}
Ns       == {2, 4, 16, 1024}
Rs       == {1, 2, 4}
Ps       == {1, 2, 3}
DkLens   == {1, 31, 32, 33, 64, 65, 200}
Guard    == 16

Calls == [pwlen : PwLens, saltlen : SaltLens, n : Ns, r : Rs, p : Ps, dklen : DkLens]

VARIABLES call, mem, done
\* mem: abstract caller memory: what each region holds
Init == /\ call \in Calls /\ done = FALSE
        /\ mem = [pre |-> "guard", out |-> "uninit", outLen |-> 0, post |-> "guard", pw |-> "pw", salt |-> "salt",
                  value |-> <<>>]
CallScrypt ==
  /\ ~done /\ done' = TRUE /\ UNCHANGED call
  /\ mem' = [mem EXCEPT
       !.out = "scrypt",
       !.value = IF Variant = "SwapPwSalt" THEN <<"salt", "pw", call.n, call.r, call.p>> ELSE <<"pw", "salt", call.n, call.r, call.p>>,
       !.outLen = IF Variant = "TruncatedCopy" /\ call.dklen > 32 THEN 32 ELSE call.dklen,
       !.post = IF Variant = "OverrunByOne" THEN "clobbered" ELSE "guard"]
Spec == Init /\ [][CallScrypt]_<<call, mem, done>>

Frame == done =>
  /\ mem.pre = "guard" /\ mem.post = "guard" /\ mem.pw = "pw" /\ mem.salt = "salt"
  /\ mem.out = "scrypt" /\ mem.outLen = call.dklen
  /\ mem.value = <<"pw", "salt", call.n, call.r, call.p>>
Emit == done => PrintT(<<"REPLAY", ToJson([call |-> call])>>)
=============================================================================
