---------------------------- MODULE C05Contract ----------------------------
(* Layer A of C05: scenario space and the declarative classification (no state). *)
EXTENDS Naturals, Sequences, FiniteSets

StaticIds == {"S", "S2", "A"}
RecipIds  == {"R", "R2"}
EphIds    == {"E", "E3"}               \* E2 is the other message's ephemeral: its private half is unknown to everyone else
LO        == "LO"                       \* a low-order point used as a public key

Scenarios ==
  [sPriv : StaticIds, sClaim : StaticIds \cup {LO}, rs : RecipIds \cup {LO},
   ePriv : EphIds, eClaim : EphIds \cup {"E2", LO}, rPriv : RecipIds, rParam : RecipIds,
   splice : {"none", "e", "encS", "encP"},
   forge : {"none", "skip_ss", "zero_ss"}]     \* attacker-built handshake that never used a sender private key

(***************************************************************************)
(* Layer A: what C05 states.                                               *)
(*  "refused"      the writer must refuse: the addressed key forces an     *)
(*                 all-zero shared secret                                  *)
(*  "must_accept"  honest construction, decrypted by the addressed key     *)
(*                 with the matching recipient_public argument; the        *)
(*                 reported sender is Pub(sPriv)                           *)
(*  "must_reject"  decrypting key is not the addressed one; or the claimed *)
(*                 sender key is not the pair of the private key used; or  *)
(*                 a field comes from another message; or the ephemeral    *)
(*                 key in the message is not the pair of the one used      *)
(*                 (acceptance would need a shared secret the reader       *)
(*                 cannot compute)                                         *)
(*  "may"          the property is silent (recipient_public argument not   *)
(*                 matching the private key)                               *)
(***************************************************************************)
Spliced(sc) ==   \* the spliced field really differs from the message's own field
  \/ sc.splice = "encS" \/ sc.splice = "encP"
  \/ sc.splice = "e" /\ sc.eClaim # "E2"

C05Class(sc) ==
  IF sc.forge # "none" THEN (IF sc.rs = LO THEN "may" ELSE "must_reject")   \* no sender private key took part
  ELSE IF sc.rs = LO THEN "refused"
  ELSE IF sc.rPriv # sc.rs THEN "must_reject"
  ELSE IF sc.sClaim # sc.sPriv THEN "must_reject"
  ELSE IF Spliced(sc) THEN "must_reject"
  ELSE IF sc.eClaim # sc.ePriv THEN "must_reject"
  ELSE IF sc.rParam # sc.rPriv THEN "may"
  ELSE "must_accept"

=============================================================================
