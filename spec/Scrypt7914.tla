----------------------------- MODULE Scrypt7914 -----------------------------
(***************************************************************************)
(* C18: RFC 7914 as a term over two primitives the tree exports: HMAC      *)
(* (hmac_sha256) and the Salsa20/8 core (hook verif_salsa20_8).  Every     *)
(* layer of the RFC that is sequence manipulation is written out here:     *)
(*                                                                         *)
(*   PBKDF2-HMAC-SHA256 with c = 1 (RFC 8018 5.2):                         *)
(*        T_i = HMAC(P, S ++ INT_32_BE(i)),  DK = first dkLen bytes        *)
(*   scryptBlockMix (RFC 7914 section 4), block size 128 r                 *)
(*   scryptROMix    (section 5), cost N, with Integerify = the last        *)
(*        64-byte block read as a little-endian integer                    *)
(*   scrypt         (section 6):  B = PBKDF2(P, S, 1, p 128 r);            *)
(*        B_i <- ROMix(r, B_i, N);  DK = PBKDF2(P, B, 1, dkLen)            *)
(*                                                                         *)
(* The harness evaluates the term with the tree's hmac_sha256 and          *)
(* Salsa20/8 and compares it with the tree's scrypt() for every case of    *)
(* the grid below; what remains a numeric leaf is the Salsa20/8 core       *)
(* itself (16 words, add-rotate-xor), compared with the RFC's vector.      *)
(* The terms use sequential bindings (Lets), so their size is linear in    *)
(* N r p.                                                                  *)
(***************************************************************************)
EXTENDS Terms, TLC, Json

Name(s, i)       == s \o "_" \o ToString(i)
Name2(s, i, j)   == s \o "_" \o ToString(i) \o "_" \o ToString(j)
Bind(n, v)       == [name |-> n, val |-> v]
Blk(x, i)        == Slice(x, 64 * i, 64 * (i + 1))           \* i-th 64-byte block of x

\* PBKDF2-HMAC-SHA256, one iteration
Pbkdf2One(pw, salt, len) ==
  LET n == (len + 31) \div 32
  IN Slice(Cat([i \in 1..n |-> Hmac(pw, Cat(<<salt, BE32(i)>>))]), 0, len)

\* scryptBlockMix of the (already bound) 128r-byte string x; tag makes the binding names unique
BlockMix(x, r, tag) ==
  LET T(i) == Name(tag \o "T", i)
      binds == [i \in 1..(2 * r) |->
                  Bind(T(i - 1), Salsa(Xor(IF i = 1 THEN Blk(x, 2 * r - 1) ELSE Sym(T(i - 2)), Blk(x, i - 1))))]
      evens == [k \in 1..r |-> Sym(T(2 * (k - 1)))]
      odds  == [k \in 1..r |-> Sym(T(2 * (k - 1) + 1))]
  IN Lets(binds, Cat(evens \o odds))

\* scryptROMix of the b-th 128r-byte block of B (bound as "B"): bindings, result in RomixOut(b, N)
RomixOut(b, N) == Name2("Z", b, N)
RomixBinds(b, r, N) ==
  LET X(i) == Name2("X", b, i)
      Z(i) == Name2("Z", b, i)
      W(i) == Name2("W", b, i)
      first  == <<Bind(X(0), Slice(Sym("B"), 128 * r * b, 128 * r * (b + 1)))>>
                \o [i \in 1..N |-> Bind(X(i), BlockMix(Sym(X(i - 1)), r, Name2("f", b, i)))]
      V      == [j \in 1..N |-> Sym(X(j - 1))]                     \* V_0 .. V_{N-1}
      second == <<Bind(Z(0), Sym(X(N)))>>
                \o [k \in 1..(2 * N) |->
                      LET i == (k + 1) \div 2 IN
                      IF k % 2 = 1
                      THEN Bind(W(i), Xor(Sym(Z(i - 1)), Select(LeMod(Blk(Sym(Z(i - 1)), 2 * r - 1), N), V)))
                      ELSE Bind(Z(i), BlockMix(Sym(W(i)), r, Name2("s", b, i)))]
  IN first \o second

RECURSIVE AllRomix(_, _, _, _)
AllRomix(b, r, N, p) == IF b = p THEN <<>> ELSE RomixBinds(b, r, N) \o AllRomix(b + 1, r, N, p)

ScryptDef(pw, salt, N, r, p, len) ==
  Lets(<<Bind("B", Pbkdf2One(pw, salt, p * 128 * r))>> \o AllRomix(0, r, N, p),
       Pbkdf2One(pw, Cat([b \in 1..p |-> Sym(RomixOut(b - 1, N))]), len))

----------------------------------------------------------------------------
\* the grid of cases (password / salt length classes as in Ffi.tla)
Ns      == {2, 4, 16}
Rs      == {1, 2, 3}
Ps      == {1, 2}
DkLens  == {1, 32, 33, 100}
PwLens  == {0, 7, 65}
SaltLens == {0, 16}

VARIABLE c
Init == c \in [n : Ns, r : Rs, p : Ps, dklen : DkLens, pwlen : PwLens, saltlen : SaltLens]
Next == UNCHANGED c
Spec == Init /\ [][Next]_c

\* structural sanity of the definition, checked by TLC on every case: the right number of bindings, and
\* every Select ranges over exactly N candidates
NBinds(x) == 1 + x.p * (1 + x.n + 1 + 2 * x.n)
WellFormed ==
  LET t == ScryptDef(Sym("pw"), Sym("salt"), c.n, c.r, c.p, c.dklen)
  IN /\ Len(t.binds) = NBinds(c)
     /\ \A i \in 1..Len(t.binds) : t.binds[i].val.op = "xor" => Len(t.binds[i].val.a[2].a) = c.n

Emit == PrintT(<<"REPLAY", ToJson([kind |-> "scrypt", c |-> c,
                                   term |-> ScryptDef(Sym("pw"), Sym("salt"), c.n, c.r, c.p, c.dklen)])>>)
=============================================================================
