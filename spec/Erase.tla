-------------------------------- MODULE Erase --------------------------------
(***************************************************************************)
(* C20: key containers (PrivateKey: heap Vec; PayloadKey: inline array,    *)
(* boxed by the harness so that it is a heap block).  A program is a       *)
(* sequence of Construct / Clone / Drop steps over a few slots.            *)
(*   ErasedAtRelease  every block was all-zero at the moment its memory    *)
(*                    was released                                         *)
(*   LiveUntouched    a drop never changes another live object             *)
(* Deviations: NoDropErase (no zeroisation in Drop), EraseCopy (a          *)
(* temporary copy is zeroised instead), SharedClone (clones share storage, *)
(* so dropping one wipes the other).                                       *)
(***************************************************************************)
EXTENDS Naturals, Sequences, FiniteSets, TLC, Json
CONSTANTS MaxSteps, NSlots, Variant

Kinds == {"generate", "from_bytes", "payload_new"}
Slots == 1..NSlots
Empty == [live |-> FALSE, kind |-> "none", secret |-> 0, block |-> 0]

VARIABLES slot,      \* slot -> object
          prog,      \* the program so far
          released,  \* set of [block, zero] observed at release
          blocks,    \* block id -> current content ("secret" s | "zero")
          nextBlock, nextSecret
vars == <<slot, prog, released, blocks, nextBlock, nextSecret>>

Init == /\ slot = [i \in Slots |-> Empty] /\ prog = <<>> /\ released = {} /\ blocks = <<>> /\ nextBlock = 1 /\ nextSecret = 1

Construct(i, k) ==
  /\ ~slot[i].live /\ Len(prog) < MaxSteps
  /\ slot' = [slot EXCEPT ![i] = [live |-> TRUE, kind |-> k, secret |-> nextSecret, block |-> nextBlock]]
  /\ blocks' = Append(blocks, nextSecret)
  /\ nextBlock' = nextBlock + 1 /\ nextSecret' = nextSecret + 1
  /\ prog' = Append(prog, [op |-> "construct", slot |-> i, kind |-> k, src |-> 0])
  /\ UNCHANGED released
Clone(i, j) ==
  /\ slot[i].live /\ ~slot[j].live /\ i # j /\ Len(prog) < MaxSteps
  /\ IF Variant = "SharedClone"
     THEN /\ slot' = [slot EXCEPT ![j] = slot[i]] /\ UNCHANGED <<blocks, nextBlock>>
     ELSE /\ slot' = [slot EXCEPT ![j] = [slot[i] EXCEPT !.block = nextBlock]]
          /\ blocks' = Append(blocks, slot[i].secret) /\ nextBlock' = nextBlock + 1
  /\ prog' = Append(prog, [op |-> "clone", slot |-> j, kind |-> slot[i].kind, src |-> i])
  /\ UNCHANGED <<released, nextSecret>>
Drop(i) ==
  /\ slot[i].live /\ Len(prog) < MaxSteps
  /\ LET b == slot[i].block
         zeroed == Variant \notin {"NoDropErase", "EraseCopy"}
     IN /\ blocks' = IF zeroed THEN [blocks EXCEPT ![b] = 0] ELSE blocks
        /\ released' = released \cup {[block |-> b, zero |-> zeroed]}
  /\ slot' = [slot EXCEPT ![i] = Empty]
  /\ prog' = Append(prog, [op |-> "drop", slot |-> i, kind |-> slot[i].kind, src |-> 0])
  /\ UNCHANGED <<nextBlock, nextSecret>>

Next == \/ \E i \in Slots, k \in Kinds : Construct(i, k)
        \/ \E i, j \in Slots : Clone(i, j)
        \/ \E i \in Slots : Drop(i)
Spec == Init /\ [][Next]_vars

ErasedAtRelease == \A r \in released : r.zero
LiveUntouched == \A i \in Slots : slot[i].live => blocks[slot[i].block] = slot[i].secret
Emit == Len(prog) = MaxSteps => PrintT(<<"REPLAY", ToJson([prog |-> prog])>>)
\* hide nothing: programs are the state
=============================================================================
