-------------------------------- MODULE Erase --------------------------------
(***************************************************************************)
(* C20: key containers (PrivateKey: heap Vec; PayloadKey: inline array,    *)
(* boxed by the harness so that it is a heap block).  A program is a       *)
(* sequence of Construct / Clone / Drop steps over a few slots, and        *)
(* Drop2: two handles dropped by two threads at the same time.             *)
(*                                                                         *)
(* Storage is a set of blocks with a holder count, so that both ways of    *)
(* implementing Clone are covered by the same contract: a block of its own *)
(* per clone (the code as it is), or one block shared by all clones and    *)
(* released by the last holder.                                            *)
(*   ErasedAtRelease  every block was all-zero at the moment its memory    *)
(*                    was released                                         *)
(*   LiveUntouched    a drop never changes another live object             *)
(* Variants:                                                               *)
(*   none             every clone has its own block; Drop wipes, releases  *)
(*   SharedLastWipes  clones share a block; the holder count is            *)
(*                    decremented and tested in ONE atomic step, the last  *)
(*                    holder wipes and releases          (conforming)      *)
(* DropUnwind is a Drop that happens while the thread is panicking (the    *)
(* handle is owned by a frame a panic unwinds through); the contract is    *)
(* the same.                                                               *)
(* Zeroize is an explicit wipe of a live object (it stays live, holding    *)
(* zeros); CloneFrom refills an existing object from another one of the    *)
(* same kind (Clone::clone_from: by default the old value is dropped and a *)
(* fresh clone moves in).  The contract does not change: whatever block is *)
(* released, whenever, is all-zero at that moment.                         *)
(* Deviations (each must break an invariant):                              *)
(*   StaleWipedFlag   each object remembers "already wiped" so that a      *)
(*                    second wipe can be skipped; CloneFrom refills the    *)
(*                    storage in place and forgets to reset the flag, so   *)
(*                    the drop after zeroize + clone_from does not wipe    *)
(*   SkipWipeWhenPanicking  Drop wipes only when the thread is not         *)
(*                    unwinding                                            *)
(*   NoDropErase      no zeroisation in Drop                               *)
(*   EraseCopy        a temporary copy is zeroised instead                 *)
(*   SharedClone      clones share storage and EVERY drop wipes it         *)
(*   SharedRacy       clones share storage; a dropping handle first looks  *)
(*                    whether it is the only holder, then decrements, in   *)
(*                    two steps: two concurrent drops can both see "not    *)
(*                    the only one", neither wipes, the second decrement   *)
(*                    releases the block with the secret in it             *)
(***************************************************************************)
EXTENDS Naturals, Sequences, FiniteSets, TLC, Json
CONSTANTS MaxSteps, NSlots, Variant

\* "payload_embedded": a payload key that is a field of a larger heap value, at an odd offset (the type has alignment 1)
Kinds == {"generate", "from_bytes", "payload_new", "payload_embedded"}
Slots == 1..NSlots
Empty == [live |-> FALSE, kind |-> "none", secret |-> 0, block |-> 0]
Shares == Variant \in {"SharedClone", "SharedLastWipes", "SharedRacy"}

VARIABLES slot,      \* slot -> object
          prog,      \* the program so far
          released,  \* set of [block, zero] observed at release
          blocks,    \* block id -> [content ("secret" s | 0 = wiped), holders]
          nextBlock, nextSecret,
          pend,      \* threads of a concurrent drop in progress: set of [slot, saw]   saw: "none" | "unique" | "shared"
          wflag      \* slot -> the object's "already wiped" flag (only the deviation StaleWipedFlag looks at it)
vars == <<slot, prog, released, blocks, nextBlock, nextSecret, pend, wflag>>

Init == /\ slot = [i \in Slots |-> Empty] /\ prog = <<>> /\ released = {} /\ blocks = <<>> /\ nextBlock = 1 /\ nextSecret = 1
        /\ pend = {} /\ wflag = [i \in Slots |-> FALSE]

Idle == pend = {}

Construct(i, k) ==
  /\ Idle /\ ~slot[i].live /\ Len(prog) < MaxSteps
  /\ slot' = [slot EXCEPT ![i] = [live |-> TRUE, kind |-> k, secret |-> nextSecret, block |-> nextBlock]]
  /\ blocks' = Append(blocks, [content |-> nextSecret, holders |-> 1])
  /\ nextBlock' = nextBlock + 1 /\ nextSecret' = nextSecret + 1
  /\ prog' = Append(prog, [op |-> "construct", slot |-> i, kind |-> k, src |-> 0])
  /\ wflag' = [wflag EXCEPT ![i] = FALSE]
  /\ UNCHANGED <<released, pend>>
Clone(i, j) ==
  /\ Idle /\ slot[i].live /\ ~slot[j].live /\ i # j /\ Len(prog) < MaxSteps
  /\ IF Shares
     THEN /\ slot' = [slot EXCEPT ![j] = slot[i]]
          /\ blocks' = [blocks EXCEPT ![slot[i].block].holders = @ + 1] /\ UNCHANGED nextBlock
     ELSE /\ slot' = [slot EXCEPT ![j] = [slot[i] EXCEPT !.block = nextBlock]]
          /\ blocks' = Append(blocks, [content |-> slot[i].secret, holders |-> 1]) /\ nextBlock' = nextBlock + 1
  /\ prog' = Append(prog, [op |-> "clone", slot |-> j, kind |-> slot[i].kind, src |-> i])
  /\ wflag' = [wflag EXCEPT ![j] = wflag[i]]
  /\ UNCHANGED <<released, nextSecret, pend>>

\* what one atomic drop of the handle in slot i does to storage
WipesOnDropNormally(b) ==
  CASE Variant \in {"NoDropErase", "EraseCopy"} -> FALSE
    [] Variant = "SharedClone" -> TRUE                       \* every drop wipes the shared block
    [] OTHER -> blocks[b].holders = 1                        \* the last holder wipes
WipesOnDrop(b) == WipesOnDropNormally(b)
\* the drop of the object in slot i
WipesOnDropOf(i) == IF Variant = "StaleWipedFlag" /\ wflag[i] THEN FALSE ELSE WipesOnDrop(slot[i].block)
WipesOnUnwind(b) == IF Variant = "SkipWipeWhenPanicking" THEN FALSE ELSE WipesOnDropNormally(b)
AfterDrop(b, wipe) ==
  LET c == IF wipe THEN 0 ELSE blocks[b].content IN
  /\ blocks' = [blocks EXCEPT ![b] = [content |-> c, holders |-> blocks[b].holders - 1]]
  /\ released' = IF blocks[b].holders = 1 THEN released \cup {[block |-> b, zero |-> (c = 0)]} ELSE released

Drop(i) ==
  /\ Idle /\ slot[i].live /\ Len(prog) < MaxSteps
  /\ AfterDrop(slot[i].block, WipesOnDropOf(i))
  /\ slot' = [slot EXCEPT ![i] = Empty]
  /\ prog' = Append(prog, [op |-> "drop", slot |-> i, kind |-> slot[i].kind, src |-> 0])
  /\ UNCHANGED <<nextBlock, nextSecret, pend, wflag>>

\* explicit wipe of a live object: it keeps its storage, which now holds zeros.  Where clones share one block and there
\* are other holders, the object detaches to a block of zeros of its own (the other holders keep their key)
Zeroize(i) ==
  /\ Idle /\ slot[i].live /\ Len(prog) < MaxSteps
  /\ LET b == slot[i].block IN
     IF Shares /\ blocks[b].holders > 1
     THEN /\ blocks' = Append([blocks EXCEPT ![b].holders = @ - 1], [content |-> 0, holders |-> 1])
          /\ slot' = [slot EXCEPT ![i] = [@ EXCEPT !.secret = 0, !.block = nextBlock]]
          /\ nextBlock' = nextBlock + 1
     ELSE /\ blocks' = [blocks EXCEPT ![b].content = 0]
          /\ slot' = [slot EXCEPT ![i] = [@ EXCEPT !.secret = 0]]
          /\ UNCHANGED nextBlock
  /\ wflag' = [wflag EXCEPT ![i] = TRUE]
  /\ prog' = Append(prog, [op |-> "zeroize", slot |-> i, kind |-> slot[i].kind, src |-> 0])
  /\ UNCHANGED <<released, nextSecret, pend>>

\* refill the live object in slot j from the live object in slot i (same kind)
CloneFrom(i, j) ==
  /\ Idle /\ slot[i].live /\ slot[j].live /\ i # j /\ slot[i].kind = slot[j].kind /\ Len(prog) < MaxSteps
  /\ slot[i].block # slot[j].block
  /\ LET bj == slot[j].block
         bi == slot[i].block
     IN IF Variant = "StaleWipedFlag"
        THEN \* storage of j reused in place, flag of j left as it was
             /\ blocks' = [blocks EXCEPT ![bj].content = slot[i].secret]
             /\ slot' = [slot EXCEPT ![j] = [@ EXCEPT !.secret = slot[i].secret]]
             /\ UNCHANGED <<released, nextBlock, wflag>>
        ELSE IF Shares
        THEN \* j lets go of its block (the last holder wipes and releases) and joins i's
             /\ LET c == IF WipesOnDrop(bj) THEN 0 ELSE blocks[bj].content IN
                /\ blocks' = [blocks EXCEPT ![bj] = [content |-> c, holders |-> blocks[bj].holders - 1], ![bi].holders = @ + 1]
                /\ released' = IF blocks[bj].holders = 1 THEN released \cup {[block |-> bj, zero |-> (c = 0)]} ELSE released
             /\ slot' = [slot EXCEPT ![j] = [@ EXCEPT !.secret = slot[i].secret, !.block = bi]]
             /\ wflag' = [wflag EXCEPT ![j] = wflag[i]]
             /\ UNCHANGED nextBlock
        ELSE \* the default clone_from: the old value of j is dropped (wiped, released), a fresh clone moves in
             /\ LET c == IF WipesOnDrop(bj) THEN 0 ELSE blocks[bj].content IN
                /\ blocks' = Append([blocks EXCEPT ![bj] = [content |-> c, holders |-> 0]], [content |-> slot[i].secret, holders |-> 1])
                /\ released' = released \cup {[block |-> bj, zero |-> (c = 0)]}
             /\ slot' = [slot EXCEPT ![j] = [@ EXCEPT !.secret = slot[i].secret, !.block = nextBlock]]
             /\ nextBlock' = nextBlock + 1
             /\ wflag' = [wflag EXCEPT ![j] = wflag[i]]
  /\ prog' = Append(prog, [op |-> "clone_from", slot |-> j, kind |-> slot[i].kind, src |-> i])
  /\ UNCHANGED <<nextSecret, pend>>

\* the same, run by the unwinder
DropUnwind(i) ==
  /\ Idle /\ slot[i].live /\ Len(prog) < MaxSteps
  /\ AfterDrop(slot[i].block, IF Variant = "StaleWipedFlag" /\ wflag[i] THEN FALSE ELSE WipesOnUnwind(slot[i].block))
  /\ slot' = [slot EXCEPT ![i] = Empty]
  /\ prog' = Append(prog, [op |-> "drop_unwind", slot |-> i, kind |-> slot[i].kind, src |-> 0])
  /\ UNCHANGED <<nextBlock, nextSecret, pend, wflag>>

\* two threads start dropping two handles at the same moment
Drop2(i, j) ==
  /\ Idle /\ slot[i].live /\ slot[j].live /\ i < j /\ Len(prog) < MaxSteps
  /\ pend' = {[slot |-> i, saw |-> "none"], [slot |-> j, saw |-> "none"]}
  /\ prog' = Append(prog, [op |-> "drop2", slot |-> i, kind |-> slot[i].kind, src |-> j])
  /\ UNCHANGED <<slot, released, blocks, nextBlock, nextSecret, wflag>>
\* one step of one of the two threads
ThreadStep(t) ==
  /\ t \in pend
  /\ LET b == slot[t.slot].block IN
     IF Variant = "SharedRacy" /\ t.saw = "none"
     THEN \* first half of the racy drop: look at the holder count
          /\ pend' = (pend \ {t}) \cup {[t EXCEPT !.saw = IF blocks[b].holders = 1 THEN "unique" ELSE "shared"]}
          /\ UNCHANGED <<slot, released, blocks>>
     ELSE /\ AfterDrop(b, IF Variant = "SharedRacy" THEN t.saw = "unique" ELSE WipesOnDrop(b))
          /\ slot' = [slot EXCEPT ![t.slot] = Empty]
          /\ pend' = pend \ {t}
  /\ UNCHANGED <<prog, nextBlock, nextSecret, wflag>>

Next == \/ \E i \in Slots, k \in Kinds : Construct(i, k)
        \/ \E i, j \in Slots : Clone(i, j)
        \/ \E i \in Slots : Drop(i)
        \/ \E i \in Slots : DropUnwind(i)
        \/ \E i \in Slots : Zeroize(i)
        \/ \E i, j \in Slots : CloneFrom(i, j)
        \/ \E i, j \in Slots : Drop2(i, j)
        \/ \E t \in pend : ThreadStep(t)
Spec == Init /\ [][Next]_vars

ErasedAtRelease == \A r \in released : r.zero
LiveUntouched == \A i \in Slots : slot[i].live => blocks[slot[i].block].content = slot[i].secret
\* storage bookkeeping: a block is held by exactly the live slots that point to it
HoldersExact == Idle => \A b \in 1..Len(blocks) : blocks[b].holders = Cardinality({i \in Slots : slot[i].live /\ slot[i].block = b})
Emit == (Len(prog) = MaxSteps /\ Idle) => PrintT(<<"REPLAY", ToJson([prog |-> prog])>>)
\* hide nothing: programs are the state
=============================================================================
