----------------------------- MODULE Trace_Fresh -----------------------------
(***************************************************************************)
(* Layer A trace specification for C07.  Events, per executed history:     *)
(*   begin                       a new history                             *)
(*   draw  {kind, v}             a value the real code drew, recovered     *)
(*                               from its output by specification-directed *)
(*                               opening (ephemeral key, payload key, file *)
(*                               key, salt, generated private key)         *)
(*   seal  {key, nonce, what}    an AEAD seal observed: the key and the    *)
(*                               nonce under which a record / field opens  *)
(*         w                     the 8-byte windows of v (all 25 offsets)  *)
(* Contract: within a history no value is drawn twice, and no (key, nonce) *)
(* pair seals two things; within one file chunk i opens exactly at nonce i.*)
(* Fresh.tla's "a value not drawn before" is read at the grain of bytes:   *)
(* no 8-byte window of a drawn value occurs in any value drawn earlier in  *)
(* the history, at any offset (a generator that hands part of its output   *)
(* out again yields values that are different as wholes).  Chance per pair *)
(* of independent windows: 2^-64.                                          *)
(***************************************************************************)
EXTENDS Naturals, Sequences, FiniteSets, TLC, Json, IOUtils, SequencesExt

Rec == ndJsonDeserialize(IOEnv.TRACE)
N   == Len(Rec)
VARIABLES l, used, usedW, sealed, viol
vars == <<l, used, usedW, sealed, viol>>
Init == l = 1 /\ used = {} /\ usedW = {} /\ sealed = {} /\ viol = {}
Windows(e) == {e.w[i] : i \in DOMAIN e.w}
Flag(cond, name) == IF cond THEN {} ELSE {<<l, name>>}
ZeroKey == "0000000000000000000000000000000000000000000000000000000000000000"

Step ==
  /\ l <= N
  /\ LET e == Rec[l] IN
     CASE e.ev = "begin" -> used' = {} /\ usedW' = {} /\ sealed' = {} /\ viol' = viol
       [] e.ev = "draw"  -> /\ viol' = viol \cup Flag(e.v \notin used, "C07_value_drawn_twice")
                                       \cup Flag(e.ok, "C07_draw_not_recoverable")
                                       \cup Flag(Windows(e) \cap usedW = {}, "C07_drawn_values_share_bytes")
                                       \* C05: key material that is a constant anybody can write down (32 zero bytes) makes
                                       \* the file readable from public data alone
                                       \cup Flag(e.v # ZeroKey, "C05_key_material_is_a_public_constant")
                            /\ used' = used \cup {e.v} /\ usedW' = usedW \cup Windows(e) /\ sealed' = sealed
       [] e.ev = "seal"  -> /\ viol' = viol \cup Flag(<<e.key, e.nonce>> \notin sealed, "C07_key_nonce_pair_reused")
                                       \cup Flag(e.nonce = e.index, "C07_chunk_not_sealed_under_its_index")
                            /\ sealed' = sealed \cup {<<e.key, e.nonce>>} /\ UNCHANGED <<used, usedW>>
       [] OTHER -> viol' = viol \cup {<<l, "TOOL_unknown_event">>} /\ UNCHANGED <<used, usedW, sealed>>
  /\ l' = l + 1

Report ==
  /\ l = N + 1
  /\ PrintT(<<"REPLAY", ToJson([viol |-> SetToSeq({[line |-> v[1], pred |-> v[2]] : v \in viol})])>>)
  /\ l' = N + 2 /\ UNCHANGED <<used, usedW, sealed, viol>>
Next == Step \/ Report
TraceSpec == Init /\ [][Next]_vars
TraceAccepted ==
  \/ TLCGet("stats").diameter - 2 = N
  \/ Print(<<"TRACE-NOT-CONSUMED at line", TLCGet("stats").diameter>>, FALSE)
=============================================================================
