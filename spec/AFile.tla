-------------------------------- MODULE AFile --------------------------------
(***************************************************************************)
(* Abstract ciphertext files and the contract's (Layer A) classification.  *)
(*                                                                         *)
(* A file is [hdrok, hsrc, recs, cut, trail]:                              *)
(*   hdrok  the header bytes are those of source file hsrc, unmodified,    *)
(*          and the decrypting key / password is the right one             *)
(*   recs   sequence of records; each record says which authentic record   *)
(*          its bytes come from and what was edited:                       *)
(*            src, idx    sealed in source file src at position idx        *)
(*                        (so under that file's key with nonce idx)        *)
(*            plen, last  plaintext length and last-chunk flag as sealed   *)
(*            flagf, lenf the cleartext flag / length fields now in it     *)
(*            ctrok       the advisory counter field still equals idx      *)
(*            tam         some bit of ciphertext or tag was changed        *)
(*   cut    -1, or the number of bytes kept (truncation)                   *)
(*   trail  number of bytes appended                                       *)
(*                                                                         *)
(* The classification is what the properties (C03, C04) state, nothing     *)
(* about the implementation: it relies only on the AEAD assumption that a  *)
(* record opens exactly under the key, nonce and AAD it was sealed with.   *)
(***************************************************************************)
EXTENDS Integers, Sequences, FiniteSets

RecBytes(r) == 32 + r.plen          \* 8 counter + 4 flag + 4 length + plen + 16 tag

RECURSIVE EndOf(_, _, _)
EndOf(recs, H, j) == IF j = 0 THEN H ELSE EndOf(recs, H, j - 1) + RecBytes(recs[j])

FullLen(f, H) == EndOf(f.recs, H, Len(f.recs))
FileLen(f, H) == (IF f.cut >= 0 /\ f.cut < FullLen(f, H) THEN f.cut ELSE FullLen(f, H)) + f.trail
Truncated(f, H) == f.cut >= 0 /\ f.cut < FullLen(f, H)

\* record j (1-based position) was sealed for exactly this position of exactly this file,
\* and nothing authenticated was changed
Opens(f, j) ==
  LET r == f.recs[j]
  IN f.hdrok /\ r.src = f.hsrc /\ r.idx = j - 1 /\ ~r.tam /\ r.flagf = r.last /\ r.lenf = r.plen

Present(f, H, j) == ~Truncated(f, H) \/ EndOf(f.recs, H, j) <= f.cut

\* number of leading records that are authentic in position and completely present
RECURSIVE AuthFrom(_, _, _)
AuthFrom(f, H, j) == IF j > Len(f.recs) THEN 0
                     ELSE IF Opens(f, j) /\ Present(f, H, j) THEN 1 + AuthFrom(f, H, j + 1) ELSE 0
AuthN(f, H) == AuthFrom(f, H, 1)

RECURSIVE PlainUpTo(_, _)
PlainUpTo(recs, n) == IF n = 0 THEN 0 ELSE PlainUpTo(recs, n - 1) + recs[n].plen

\* number of records completely present, and whether a partial record / header remains
RECURSIVE PresentFrom(_, _, _)
PresentFrom(f, H, j) == IF j > Len(f.recs) THEN 0
                        ELSE IF Present(f, H, j) THEN 1 + PresentFrom(f, H, j + 1) ELSE 0
NPresent(f, H) == PresentFrom(f, H, 1)
Partial(f, H)  == Truncated(f, H) /\ (f.cut < H \/ f.cut # EndOf(f.recs, H, NPresent(f, H)))

\* A complete authentic message: the bytes are exactly header ++ records, every record
\* authentic in position, exactly the last one flagged final, nothing missing, nothing
\* appended.  (A truncation that removes whole records is the same bytes as deleting them.)
Complete(f, H) ==
  LET n == NPresent(f, H)
  IN /\ n >= 1
     /\ ~Partial(f, H)
     /\ AuthN(f, H) = n
     /\ f.recs[n].last = 1
     /\ \A j \in 1..(n - 1) : f.recs[j].last = 0
     /\ f.trail = 0

Class(f, H) ==
  IF Complete(f, H)
  THEN IF \A j \in 1..NPresent(f, H) : f.recs[j].ctrok THEN "must_accept" ELSE "may_accept"
  ELSE "must_reject"

\* plaintext bytes of authentic records whose last byte lies within the first c bytes of the file
RECURSIVE AuthCFrom(_, _, _, _, _)
AuthCFrom(f, H, c, j, n) == IF j > n THEN 0
                            ELSE IF EndOf(f.recs, H, j) <= c THEN f.recs[j].plen + AuthCFrom(f, H, c, j + 1, n) ELSE 0
AuthC(f, H, c) == AuthCFrom(f, H, c, 1, AuthN(f, H))

\* ... and of those that lie more than two further chunks behind the read position (C11): record j is due once
\* consumption has gone past the end of record j+2 (counted in chunks while the two further records are authentic
\* ones, whatever their length; in bytes of two maximal records otherwise)
Due(f, H, CS, c) ==
  LET n == AuthN(f, H)
      RECURSIVE D(_)
      D(j) == IF j > n THEN 0
              ELSE IF (j + 2 <= n /\ EndOf(f.recs, H, j + 2) < c) \/ EndOf(f.recs, H, j) + 2 * (CS + 32) < c
                   THEN f.recs[j].plen + D(j + 1) ELSE 0
  IN D(1)

\* prefix sums of the authentic run (whole chunks)
Boundaries(f, H) == {PlainUpTo(f.recs, n) : n \in 0..AuthN(f, H)}
TotalPlain(f, H) == PlainUpTo(f.recs, NPresent(f, H))
=============================================================================
