----------------------------- MODULE WireFormat -----------------------------
(***************************************************************************)
(* The byte layout of everything kestrel writes, as terms (Terms.tla).     *)
(* This is docs/file-format.txt plus what that document leaves to the      *)
(* Noise specification (NoiseX.tla) and to RFC 8439 / 5869 / 7914.         *)
(***************************************************************************)
EXTENDS Terms, NoiseX

KeyMagic   == Lit("65676b10")     \* prologue of key-mode files (also the Noise prologue)
PassMagic  == Lit("65676b20")
LockMagic  == Lit("65676b30")

ScryptN == 32768
ScryptR == 8
ScryptP == 1

\* AAD of one chunk: optional prefix, last-chunk indicator, plaintext length (big endian).
ChunkAad(prefix, last, len) == Cat(<<prefix, BE32(last), BE32(len)>>)

\* One chunk record.  `pt` is the chunk's plaintext (a term), `len` its length.
ChunkRecord(key, prefix, ctr, last, len, pt) ==
  Cat(<< BE64(ctr), BE32(last), BE32(len),
         Aead(key, NonceBytes(ctr), ChunkAad(prefix, last, len), pt) >>)

\* Only the cleartext part of a record.
ChunkHeader(ctr, last, len) == Cat(<<BE64(ctr), BE32(last), BE32(len)>>)

\* ---- key mode ----
\* hs is the record returned by NoiseX!Write
KeyHeader(hs)      == Cat(<<KeyMagic, hs.msg>>)                  \* 4 + 128 bytes
KeyFileKey(payload, hh) == Hkdf(Lit(""), payload, hh, 32)
KeyAadPrefix       == Lit("")

\* ---- password mode ----
PassHeader(salt)   == Cat(<<PassMagic, salt>>)                   \* 4 + 32 bytes
PassFileKey(pw, salt) == Scrypt(pw, salt, ScryptN, ScryptR, ScryptP, 32)
PassAadPrefix      == PassMagic

\* ---- keyring encodings ----
LockKdf(pw, salt) == Scrypt(pw, salt, ScryptN, ScryptR, ScryptP, 32)
LockedKeyUnder(key, sk, salt) == B64(Cat(<< LockMagic, salt, Aead(key, Zeros(12), LockMagic, sk) >>))
LockedKey(sk, pw, salt) == LockedKeyUnder(LockKdf(pw, salt), sk, salt)
EncodedPub(pk) == B64(Cat(<<pk, Slice(Sha(pk), 0, 4)>>))

KeyBlock(name, pk, lockedSk) ==
  Cat(<< Ascii("[Key]\nName = "), name, Ascii("\nPublicKey = "), EncodedPub(pk),
         Ascii("\nPrivateKey = "), lockedSk, Ascii("\n") >>)

\* ---- sizes (C08) ----
KeyHeaderLen  == 132
PassHeaderLen == 36
RecordOverhead == 32
=============================================================================
