----------------------------- MODULE Trace_Prims -----------------------------
(***************************************************************************)
(* Layer A trace specification for the primitive engine.                   *)
(*   ffi           one call of the exported C scrypt (C18: frame)          *)
(*   scrypt_axiom  the laws of SCRYPT the specification assumes (C18)      *)
(*   oracle        supplementary: a primitive against an external          *)
(*                 reference (OpenSSL via hashlib, RFC vectors)            *)
(*   rfc           a structural RFC definition evaluated over the inner    *)
(*                 exported primitive vs the exported outer one (C19)      *)
(*   aead, dh      the axioms of the symbolic algebra (C19)                *)
(*   erase         one construct / clone / drop program (C20)              *)
(***************************************************************************)
EXTENDS Naturals, Sequences, FiniteSets, TLC, Json, IOUtils, SequencesExt
Rec == ndJsonDeserialize(IOEnv.TRACE)
N   == Len(Rec)
VARIABLES l, viol
vars == <<l, viol>>
Init == l = 1 /\ viol = {}
Flag(cond, name) == IF cond THEN {} ELSE {<<l, name>>}
\* the case analysis of the AEAD / DH axioms (Rfc.tla): expectations are recomputed here from the recorded case,
\* not taken from the harness
R == INSTANCE Rfc WITH kind <- "trace", c <- [none |-> 0]

Checks(e) ==
  CASE e.ev = "ffi" ->
         Flag(e.same, "C18_c_function_result_differs_from_library_scrypt")
         \cup Flag(e.guards_ok, "C18_c_function_wrote_outside_the_requested_bytes")
         \cup Flag(e.inputs_ok, "C18_c_function_modified_its_inputs")
    [] e.ev = "scrypt_axiom" ->
         Flag(e.len_ok, "C18_scrypt_output_length")
         \cup Flag(e.deterministic, "C18_scrypt_not_deterministic")
         \cup Flag(e.pw_sensitive /\ e.salt_sensitive /\ e.n_sensitive /\ e.r_sensitive /\ e.p_sensitive, "C18_scrypt_ignores_a_parameter")
         \cup Flag(e.prefix, "C18_scrypt_shorter_output_is_not_a_prefix")
         \cup Flag(e.hmac_norm, "C18_scrypt_password_not_used_as_an_hmac_key")
    [] e.ev = "oracle" ->
         Flag(e.same, IF e.fn \in {"scrypt", "salsa20_8"} THEN "C18_scrypt_differs_from_reference" ELSE "C19_primitive_differs_from_reference")
    [] e.ev = "rfc" ->
         Flag(e.same, IF e.kind = "scrypt" THEN "C18_scrypt_differs_from_rfc7914_structure_over_hmac_and_salsa20_8"
                      ELSE "C19_primitive_differs_from_structural_rfc_definition")
    [] e.ev = "aead" ->
         Flag(e.res = "ok", "C19_aead_panic")
         \cup Flag(e.res # "ok" \/ e.len_ok, "C19_aead_ciphertext_length")
         \cup Flag(e.expect_opens = R!AeadOpens(e.c.change, e.c.adlen), "TOOL_aead_expectation")
         \cup Flag(e.res # "ok" \/ (e.opened = R!AeadOpens(e.c.change, e.c.adlen)), "C19_aead_open_verdict_differs_from_axiom")
         \cup Flag(e.res # "ok" \/ (e.opened => e.same), "C19_aead_open_does_not_invert_seal")
    [] e.ev = "dh" ->
         Flag(e.res = "ok", "C19_dh_panic")
         \cup Flag(e.res # "ok" \/ e.derive_is_base_mult, "C19_public_key_derivation_is_not_base_point_multiplication")
         \cup Flag(e.res # "ok" \/ e.symmetric, "C19_dh_not_symmetric")
         \cup Flag(e.expect_fail = (e.c.point = "loworder"), "TOOL_dh_expectation")
         \cup Flag(e.res # "ok" \/ (e.c.point \in {"loworder", "noncanonical"} => e.failed), "C19_dh_accepts_low_order_point")
         \cup Flag(e.res # "ok" \/ e.equiv, "C19_dh_point_not_reduced_or_masked_as_rfc7748_requires")
         \cup Flag(e.res # "ok" \/ e.wrappers, "C19_key_type_methods_differ_from_the_primitive_functions")
    \* public-key derivation = multiplication of the base point, for thousands of scalars in one event
    [] e.ev = "sweep" ->
         Flag(e.panics = 0, "C19_dh_panic")
         \cup Flag(e.errors = 0 /\ e.mismatches = 0, "C19_public_key_derivation_is_not_base_point_multiplication")
    [] e.ev = "erase" ->
         Flag(e.released_dirty = 0, "C20_secret_bytes_not_erased_at_release")
         \cup Flag(e.not_released = 0, "C20_container_memory_not_released_or_moved")
         \cup Flag(e.live_changed = 0, "C20_drop_changed_another_live_object")
         \cup Flag(e.released_while_held = 0, "C20_block_released_while_another_live_object_holds_it")
         \cup Flag(e.leaked_blocks = 0, "C20_secret_left_in_a_block_released_during_construct_clone_or_drop")
    \* the process running this scenario was killed by the code under test (abort, panic across the C boundary)
    [] e.ev = "crash" -> {<<l, e.prop \o "_process_killed_in_the_code_under_test">>}
    [] OTHER -> {<<l, "TOOL_unknown_event">>}

Step == /\ l <= N /\ viol' = viol \cup Checks(Rec[l]) /\ l' = l + 1
Report ==
  /\ l = N + 1
  /\ PrintT(<<"REPLAY", ToJson([viol |-> SetToSeq({[line |-> v[1], pred |-> v[2]] : v \in viol})])>>)
  /\ l' = N + 2 /\ UNCHANGED viol
Next == Step \/ Report
TraceSpec == Init /\ [][Next]_vars
TraceAccepted ==
  \/ TLCGet("stats").diameter - 2 = N
  \/ Print(<<"TRACE-NOT-CONSUMED at line", TLCGet("stats").diameter>>, FALSE)
=============================================================================
