-------------------------------- MODULE Fresh --------------------------------
(***************************************************************************)
(* C07: histories of operations that draw randomness.  Every operation     *)
(* draws its values from an inexhaustible supply (Fresh); the keys under   *)
(* which it seals are injective functions of what it drew and of its       *)
(* (possibly identical) inputs, so fresh draws give fresh keys and no      *)
(* (key, nonce) pair is used for two messages.  The deviation `Reuse`      *)
(* lets a draw repeat an earlier value and must break both invariants.     *)
(*                                                                         *)
(*   kenc       key-mode encryption: ephemeral key, payload key;           *)
(*              seals under k1(e, R), k2(e, S, R) at nonce 0 and under the *)
(*              file key(payload, e ...) at nonces 0..n-1                  *)
(*   penc       password encryption: salt; seals under scrypt(pw, salt)    *)
(*   generate   key generation: private key, salt; seals under             *)
(*              scrypt(pw, salt) at the zero nonce                         *)
(*   changepass password change: salt; seals the same private key under    *)
(*              scrypt(pw', salt) at the zero nonce                        *)
(*   rand       the library's generator itself: secure_random(n) and       *)
(*              PrivateKey::generate(), no seal                            *)
(* All operations of a history use the same inputs (same parties, same     *)
(* password, same plaintext): the worst case for reuse.                    *)
(***************************************************************************)
EXTENDS Naturals, Sequences, FiniteSets, TLC, Json
CONSTANTS MaxOps, NChunks, Reuse

OpKinds == {"kenc", "penc", "generate", "changepass", "rand"}

VARIABLES hist,    \* sequence of operation names
          supply,  \* next unused value of the supply
          drawn,   \* sequence of [kind, v] in drawing order
          sealed   \* set of [key, nonce, msg]

vars == <<hist, supply, drawn, sealed>>
Init == hist = <<>> /\ supply = 1 /\ drawn = <<>> /\ sealed = {}

Values == {drawn[i].v : i \in 1..Len(drawn)}
\* candidates for one draw: the next fresh value, or (deviation) any earlier one
Cand(s) == {s} \cup (IF Reuse THEN 1..(s - 1) ELSE {})

DoKenc ==
  \E e \in Cand(supply), p \in Cand(supply + 1) :
    /\ drawn' = drawn \o <<[kind |-> "ephemeral", v |-> e], [kind |-> "payload", v |-> p]>>
    /\ supply' = supply + 2
    /\ sealed' = sealed
         \cup {[key |-> <<"k1", e>>, nonce |-> 0, msg |-> <<"static", Len(hist)>>],
               [key |-> <<"k2", e>>, nonce |-> 0, msg |-> <<"payload", p, Len(hist)>>]}
         \cup {[key |-> <<"fk", p, e>>, nonce |-> i, msg |-> <<"chunk", i, Len(hist)>>] : i \in 0..(NChunks - 1)}
DoPenc ==
  \E s \in Cand(supply) :
    /\ drawn' = Append(drawn, [kind |-> "salt", v |-> s]) /\ supply' = supply + 1
    /\ sealed' = sealed \cup {[key |-> <<"scrypt", s>>, nonce |-> i, msg |-> <<"chunk", i, Len(hist)>>] : i \in 0..(NChunks - 1)}
DoGenerate ==
  \E k \in Cand(supply), s \in Cand(supply + 1) :
    /\ drawn' = drawn \o <<[kind |-> "privkey", v |-> k], [kind |-> "salt", v |-> s]>> /\ supply' = supply + 2
    /\ sealed' = sealed \cup {[key |-> <<"scrypt", s>>, nonce |-> 0, msg |-> <<"sk", k>>]}
DoChangePass ==
  \E s \in Cand(supply) :
    /\ drawn' = Append(drawn, [kind |-> "salt", v |-> s]) /\ supply' = supply + 1
    /\ sealed' = sealed \cup {[key |-> <<"scrypt", s>>, nonce |-> 0, msg |-> <<"sk", "existing", Len(hist)>>]}

DoRand ==
  \E a \in Cand(supply), b \in Cand(supply + 1) :
    /\ drawn' = drawn \o <<[kind |-> "random", v |-> a], [kind |-> "privkey", v |-> b]>> /\ supply' = supply + 2
    /\ sealed' = sealed

Next == /\ Len(hist) < MaxOps
        /\ \E op \in OpKinds :
             /\ hist' = Append(hist, op)
             /\ CASE op = "kenc" -> DoKenc [] op = "penc" -> DoPenc
                  [] op = "generate" -> DoGenerate [] op = "changepass" -> DoChangePass
                  [] op = "rand" -> DoRand
Spec == Init /\ [][Next]_vars

AllFresh  == \A i, j \in 1..Len(drawn) : i # j => drawn[i].v # drawn[j].v
NonceOnce == \A a, b \in sealed : (a.key = b.key /\ a.nonce = b.nonce) => a.msg = b.msg

Emit == Len(hist) = MaxOps => PrintT(<<"REPLAY", ToJson([ops |-> hist])>>)
=============================================================================
