------------------------------ MODULE Chunkings ------------------------------
(***************************************************************************)
(* C06, decoder direction: "every file conforming to the format - however  *)
(* it is split into chunks of 1..CS bytes - decrypts".  This module        *)
(* enumerates every legal chunking of every length up to MaxLen: a         *)
(* non-empty sequence of parts in 1..CS (the encryptor only ever emits     *)
(* chunkings that follow its read sizes; the format allows all of these),  *)
(* plus the single empty final chunk of the empty message.                 *)
(***************************************************************************)
EXTENDS Naturals, Sequences, TLC, Json
CONSTANTS CS, MaxLen
VARIABLES parts, total
Init == parts = <<>> /\ total = 0
Next == \E p \in 1..CS : total + p <= MaxLen /\ parts' = Append(parts, p) /\ total' = total + p
Spec == Init /\ [][Next]_<<parts, total>>
Legal == \A i \in 1..Len(parts) : parts[i] \in 1..CS
Emit == PrintT(<<"REPLAY", ToJson([chunks |-> IF parts = <<>> THEN <<0>> ELSE parts, total |-> total])>>)
=============================================================================
