------------------------------- MODULE NoiseX -------------------------------
(***************************************************************************)
(* Noise_X_25519_ChaChaPoly_SHA256, one-way pattern X:                     *)
(*       <- s                                                              *)
(*       ...                                                               *)
(*       -> e, es, s, ss   + payload                                       *)
(* as implemented by src/crypto/src/noise.rs, over the terms of Terms.tla. *)
(*                                                                         *)
(* The symmetric state is the record [ck, h, k, n] (chaining key, hash,    *)
(* cipher key or NoKey, nonce) exactly as noise.rs:47-66.  Each token is   *)
(* one operator on the handshake state so that the writer, the reader, the *)
(* attacker and the symbolic Open share the same equations; MC_NoiseX      *)
(* steps through them as actions.                                          *)
(***************************************************************************)
EXTENDS Terms

\* Named deviation (overridden with `Deviation <- ...` in negative configurations only)
Deviation == "none"

NoKey == [op |-> "nokey"]

\* "Noise_X_25519_ChaChaPoly_SHA256" is 31 bytes <= HASHLEN: zero padded to 32, not hashed.
ProtocolName == Cat(<<Ascii("Noise_X_25519_ChaChaPoly_SHA256"), Zeros(1)>>)

\* Noise HKDF with two outputs, defined structurally over HMAC (lib.rs:411-421).
HkdfTemp(ck, ikm) == Hmac(ck, ikm)
HkdfOut1(ck, ikm) == Hmac(HkdfTemp(ck, ikm), Lit("01"))
HkdfOut2(ck, ikm) == Hmac(HkdfTemp(ck, ikm), Cat(<<HkdfOut1(ck, ikm), Lit("02")>>))

InitSym == [ck |-> ProtocolName, h |-> ProtocolName, k |-> NoKey, n |-> 0]
MixHash(st, data) == [st EXCEPT !.h = Sha(Cat(<<st.h, data>>))]
MixKey(st, ikm)   == [st EXCEPT !.ck = HkdfOut1(st.ck, ikm), !.k = HkdfOut2(st.ck, ikm), !.n = 0]

\* EncryptAndHash / DecryptAndHash with a key present (always the case in X after "es").
EncryptAndHash(st, pt) ==
  IF st.k = NoKey
  THEN [st |-> MixHash(st, pt), out |-> pt]     \* no key yet: the Noise rule sends the plaintext as it is
  ELSE LET c == Aead(st.k, NonceBytes(st.n), st.h, pt)
       IN [st |-> [MixHash(st, c) EXCEPT !.n = st.n + 1], out |-> c]
DecryptAndHash(st, c) ==
  LET p == Open(st.k, NonceBytes(st.n), st.h, c)
  IN [st |-> [MixHash(st, c) EXCEPT !.n = st.n + 1], out |-> p]

(***************************************************************************)
(* Handshake state of the writer:                                          *)
(*   sPriv, sPub   local static pair AS GIVEN (the API lets them mismatch)  *)
(*   ePriv, ePub   local ephemeral pair AS GIVEN                           *)
(*   rs            recipient static public key                             *)
(* and of the reader: sPriv, sPub (its own pair as given), re, rs learnt.  *)
(***************************************************************************)
WInit(prologue, sPriv, sPub, ePriv, ePub, rs) ==
  [sym |-> MixHash(MixHash(InitSym, prologue), rs),       \* initiator pre-mixes rs (noise.rs:231-234)
   sPriv |-> sPriv, sPub |-> sPub, ePriv |-> ePriv, ePub |-> ePub, rs |-> rs,
   msg |-> <<>>, ok |-> TRUE,
   forge |-> "none"]      \* an attacker's writer may leave "ss" out or mix the all-zero secret instead (needs no private key)

WTokE(hs)  == [hs EXCEPT !.msg = Append(hs.msg, hs.ePub), !.sym = MixHash(hs.sym, hs.ePub)]
WTokES(hs) == LET dh == Dh(hs.ePriv, hs.rs)
              IN IF IsZeroDH(dh) /\ Deviation # "IgnoreDhZero" THEN [hs EXCEPT !.ok = FALSE]
                 ELSE [hs EXCEPT !.sym = MixKey(hs.sym, dh)]
WTokS(hs)  == LET r == EncryptAndHash(hs.sym, hs.sPub)
              IN [hs EXCEPT !.msg = Append(hs.msg, r.out), !.sym = r.st]
WTokSS(hs) == LET dh == Dh(hs.sPriv, hs.rs)
              IN IF Deviation = "SkipSS" \/ hs.forge = "skip_ss" THEN hs
                 ELSE IF hs.forge = "zero_ss" THEN [hs EXCEPT !.sym = MixKey(hs.sym, ZeroDH)]
                 ELSE IF IsZeroDH(dh) /\ Deviation # "IgnoreDhZero" THEN [hs EXCEPT !.ok = FALSE]
                 ELSE [hs EXCEPT !.sym = MixKey(hs.sym, dh)]
WPayload(hs, payload) ==
              LET r == EncryptAndHash(hs.sym, payload)
              IN [hs EXCEPT !.msg = Append(hs.msg, r.out), !.sym = r.st]

WTok(hs, tok) == IF ~hs.ok THEN hs
                 ELSE CASE tok = "e"  -> WTokE(hs)
                        [] tok = "es" -> WTokES(hs)
                        [] tok = "s"  -> WTokS(hs)
                        [] tok = "ss" -> WTokSS(hs)

PatternX == IF Deviation = "StaticKeyInClear" THEN <<"e", "s", "es", "ss">>   \* deviation: s before es
            ELSE <<"e", "es", "s", "ss">>

RECURSIVE WRun(_, _)
WRun(hs, toks) == IF toks = <<>> THEN hs ELSE WRun(WTok(hs, Head(toks)), Tail(toks))

\* The complete writer.  Result: ok, the three message fields, the whole message, the handshake hash.
Write(prologue, sPriv, sPub, ePriv, ePub, rs, payload) ==
  LET hs1 == WRun(WInit(prologue, sPriv, sPub, ePriv, ePub, rs), PatternX)
      hs  == IF hs1.ok THEN WPayload(hs1, payload) ELSE hs1
  IN IF ~hs.ok THEN [ok |-> FALSE]
     ELSE [ok |-> TRUE, e |-> hs.msg[1], encS |-> hs.msg[2], encP |-> hs.msg[3],
           msg |-> Cat(hs.msg), hh |-> hs.sym.h]

\* The attacker's writer: as Write, but the "ss" step is forged (forge = "skip_ss" | "zero_ss").
WriteForged(prologue, sPriv, sPub, ePriv, ePub, rs, payload, forge) ==
  LET hs0 == [WInit(prologue, sPriv, sPub, ePriv, ePub, rs) EXCEPT !.forge = forge]
      hs1 == WRun(hs0, PatternX)
      hs  == IF hs1.ok THEN WPayload(hs1, payload) ELSE hs1
  IN IF ~hs.ok THEN [ok |-> FALSE]
     ELSE [ok |-> TRUE, e |-> hs.msg[1], encS |-> hs.msg[2], encP |-> hs.msg[3],
           msg |-> Cat(hs.msg), hh |-> hs.sym.h]

\* ---- reader (responder): its own static pair, nothing else known ----
RInit(prologue, sPriv, sPub) ==
  [sym |-> MixHash(MixHash(InitSym, prologue), sPub),     \* responder pre-mixes its own public key
   sPriv |-> sPriv, sPub |-> sPub, re |-> Fail, rs |-> Fail, ok |-> TRUE]

RTokE(hs, m)  == [hs EXCEPT !.re = m.e, !.sym = MixHash(hs.sym, m.e)]
RTokES(hs)    == LET dh == Dh(hs.sPriv, hs.re)
                 IN IF IsZeroDH(dh) /\ Deviation # "IgnoreDhZero" THEN [hs EXCEPT !.ok = FALSE]
                    ELSE [hs EXCEPT !.sym = MixKey(hs.sym, dh)]
RTokS(hs, m)  == LET r == DecryptAndHash(hs.sym, m.encS)
                 IN IF r.out = Fail THEN [hs EXCEPT !.ok = FALSE]
                    ELSE [hs EXCEPT !.rs = r.out, !.sym = r.st]
RTokSS(hs)    == LET dh == Dh(hs.sPriv, hs.rs)
                 IN IF Deviation = "SkipSS" THEN hs
                    ELSE IF Deviation = "ReaderIgnoresSsFailure" /\ IsZeroDH(dh) THEN hs   \* a failed ss is skipped, not fatal
                    ELSE IF IsZeroDH(dh) /\ Deviation # "IgnoreDhZero" THEN [hs EXCEPT !.ok = FALSE]
                    ELSE [hs EXCEPT !.sym = MixKey(hs.sym, dh)]

RTok(hs, tok, m) == IF ~hs.ok THEN hs
                    ELSE CASE tok = "e"  -> RTokE(hs, m)
                           [] tok = "es" -> RTokES(hs)
                           [] tok = "s"  -> RTokS(hs, m)
                           [] tok = "ss" -> RTokSS(hs)

RECURSIVE RRun(_, _, _)
RRun(hs, toks, m) == IF toks = <<>> THEN hs ELSE RRun(RTok(hs, Head(toks), m), Tail(toks), m)

\* The complete reader on a message m = [e, encS, encP].
Read(prologue, rPriv, rPubParam, m) ==
  LET hs == RRun(RInit(prologue, rPriv, rPubParam), PatternX, m)
  IN IF ~hs.ok THEN [ok |-> FALSE]
     ELSE LET r == DecryptAndHash(hs.sym, m.encP)
          IN IF r.out = Fail THEN [ok |-> FALSE]
             ELSE [ok |-> TRUE, sender |-> hs.rs, payload |-> r.out, hh |-> r.st.h]

(***************************************************************************)
(* The reader's decryption schedule as terms: which key, nonce and AD open *)
(* which field.  The harness uses it for specification-directed opening of *)
(* real handshakes (it performs the two AEAD opens with the exported       *)
(* primitive and feeds the first plaintext back as sPlain).                *)
(***************************************************************************)
ReadSchedule(prologue, rPriv, rPub, e, encS, sPlain, encP) ==
  LET m   == [e |-> e, encS |-> encS, encP |-> encP]
      hs1 == RTokES(RTokE(RInit(prologue, rPriv, rPub), m))
      \* token "s": DecryptAndHash(encS) -> sPlain
      st2 == [MixHash(hs1.sym, encS) EXCEPT !.n = hs1.sym.n + 1]
      hs2 == RTokSS([hs1 EXCEPT !.rs = sPlain, !.sym = st2])
  IN [k1 |-> hs1.sym.k, n1 |-> NonceBytes(hs1.sym.n), ad1 |-> hs1.sym.h,
      k2 |-> hs2.sym.k, n2 |-> NonceBytes(hs2.sym.n), ad2 |-> hs2.sym.h,
      hh |-> MixHash(hs2.sym, encP).h]

(***************************************************************************)
(* What ANYBODY can compute when the recipient key forces every shared     *)
(* secret to zero (a low-order point): the same schedule with ZeroDH in    *)
(* place of both DH results and no private key at all.  The real code      *)
(* refuses to write to such a key; if a tree does write, this schedule     *)
(* opens its files and shows that their handshake keys are constants (C07, *)
(* C05).                                                                   *)
(***************************************************************************)
ReadScheduleNull(prologue, rPub, e, encS, encP) ==
  LET s0 == MixHash(MixHash(MixHash(InitSym, prologue), rPub), e)
      s1 == MixKey(s0, ZeroDH)
      s2 == [MixHash(s1, encS) EXCEPT !.n = s1.n + 1]
      s3 == MixKey(s2, ZeroDH)
  IN [k1 |-> s1.k, n1 |-> NonceBytes(s1.n), ad1 |-> s1.h,
      k2 |-> s3.k, n2 |-> NonceBytes(s3.n), ad2 |-> s3.h,
      hh |-> MixHash(s3, encP).h]
=============================================================================
