----------------------------- MODULE MC_DecLoop -----------------------------
(* Model-checking instance of DecLoop: constant values that a .cfg cannot express. *)
EXTENDS DecLoop
HdrNone  == <<>>            \* the hooked chunk loop
HdrSmall == <<2, 3>>        \* two header parts of abstract small sizes (magic; handshake or salt)
Unbounded == -1
\* two authentic files to the same recipient, so that cross-file splices exist
Src322  == << <<2, 2, 1>>, <<2, 1>> >>
Src21   == << <<2, 1>>, <<1>> >>
Src1    == << <<2>>, <<1>> >>
Src0    == << <<0>>, <<2, 1>> >>       \* an empty message (single empty final chunk)
Src121  == << <<1, 2, 1>>, <<1, 1>> >>  \* non-final chunks shorter than the chunk size (an encryptor fed by short reads writes them)
Src22   == << <<2, 2>>, <<2>> >>       \* final chunks that are exactly full (nothing spare in a chunk-sized buffer)

----------------------------------------------------------------------------
(* Refinement link to the unbounded argument (DecLoopInd.tla, whose invariant Apalache
   proves inductive for any number of chunks): every step of DecLoop after the adversary phase,
   projected to integers, is a step of DecLoopInd or leaves its variables unchanged, and every
   reachable state satisfies the invariant.  Claimed for the baseline Variant only. *)

\* how far the decryptor can get: leading records that open in position and are completely
\* present, stopping at the first one flagged final
RECURSIVE ChainFrom(_)
ChainFrom(k) == IF k > NRec \/ ~Opens(f, k) \/ ~Present(f, H, k) THEN 0
                ELSE IF f.recs[k].flagf = 1 THEN 1 ELSE 1 + ChainFrom(k + 1)
ProjA        == ChainFrom(1)
ProjFinal    == ProjA >= 1 /\ f.recs[ProjA].flagf = 1
ProjTrailing == ProjFinal /\ FLen > EndOf(f.recs, H, ProjA)
ProjPc == CASE pc \in {"adv", "hdr"} -> "hdr"
            [] pc \in {"rhdr", "lenchk", "rbody"} -> "rhdr"
            [] OTHER -> pc
\* the number of records opened so far
Opened == CASE pc \in {"adv", "hdr", "rhdr", "lenchk", "rbody", "open"} -> j - 1
            [] pc \in {"probe", "write", "flush"} -> j
            [] OTHER -> \* "end": by the exit taken
                 IF res \in {"ok", "err_write", "err_trailing"} THEN j
                 ELSE IF res = "err_read" /\ j <= ProjA /\ pos >= EndOf(f.recs, H, j) THEN j   \* the probe failed
                 ELSE j - 1
ProjAuth == PlainUpTo(f.recs, Opened)
ProjClen == IF Opened = 0 THEN 0 ELSE f.recs[Opened].plen
Ind == INSTANCE DecLoopInd WITH A <- ProjA, final <- ProjFinal, trailing <- ProjTrailing, pc <- ProjPc,
                                authBytes <- ProjAuth, clen <- ProjClen
MCLens == 0..CS          \* cfg: Lens <- [DecLoopInd] MCLens
ProjDecIndInv == Ind!IndInv
ProjDecInit   == (pc = "adv" /\ edits = <<>>) => Ind!Init
RefinesDecLoopInd == [][(f' = f) => (Ind!Next \/ UNCHANGED Ind!vars)]_vars
=============================================================================
