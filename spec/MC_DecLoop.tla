----------------------------- MODULE MC_DecLoop -----------------------------
(* Model-checking instance of DecLoop: constant values that a .cfg cannot express. *)
EXTENDS DecLoop
HdrNone  == <<>>            \* the hooked chunk loop
HdrSmall == <<2, 3>>        \* two header parts of abstract small sizes (magic; handshake or salt)
Unbounded == -1
\* two authentic files to the same recipient, so that cross-file splices exist
Src322  == << <<2, 2, 1>>, <<2, 1>> >>
Src21   == << <<2, 1>>, <<1>> >>
Src1    == << <<2>>, <<1>> >>
Src0    == << <<0>>, <<2, 1>> >>       \* an empty message (single empty final chunk)
=============================================================================
