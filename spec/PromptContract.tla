--------------------------- MODULE PromptContract ---------------------------
(* Layer A of the interactive password paths (see Prompt.tla): the outcome as a function of the typed script. *)
EXTENDS Naturals, Sequences

\* "good" is the right (old) password; x, y are other strings; "xp" is x with one more character typed, "e" is the empty
\* line (Enter alone).  Two entries are the same password only if they are the same word - being a prefix is not enough.
Words == {"good", "x", "y", "xp", "e"}
PCmds  == {"pass_encrypt", "decrypt", "encrypt", "change_pass"}

\* ---------- Layer A ----------
\* first position i (odd) with s[i] = s[i+1]: the confirmed pair
RECURSIVE FirstPair(_, _)
FirstPair(s, i) == IF i + 1 > Len(s) THEN 0 ELSE IF s[i] = s[i + 1] THEN i ELSE FirstPair(s, i + 2)
RECURSIVE FirstGood(_, _)
FirstGood(s, i) == IF i > Len(s) THEN 0 ELSE IF s[i] = "good" THEN i ELSE FirstGood(s, i + 1)

\* outcome: [res |-> "ok" | "error" | "interrupted", pw |-> effective (new) password or "n/a", used |-> lines consumed]
PExpected(cmd, s) ==
  CASE cmd = "pass_encrypt" ->
         LET i == FirstPair(s, 1) IN
         IF i = 0 THEN [res |-> "interrupted", pw |-> "n/a", used |-> Len(s)] ELSE [res |-> "ok", pw |-> s[i], used |-> i + 1]
    [] cmd \in {"decrypt", "encrypt"} ->
         LET i == FirstGood(s, 1) IN
         IF i = 0 THEN [res |-> "interrupted", pw |-> "n/a", used |-> Len(s)] ELSE [res |-> "ok", pw |-> "n/a", used |-> i]
    [] cmd = "change_pass" ->
         \* old password once, then new / confirm until they match, then the unlock decides
         IF Len(s) = 0 THEN [res |-> "interrupted", pw |-> "n/a", used |-> 0]
         ELSE LET t == Tail(s)
                  i == FirstPair(t, 1)
              IN IF i = 0 THEN [res |-> "interrupted", pw |-> "n/a", used |-> Len(s)]
                 ELSE IF s[1] = "good" THEN [res |-> "ok", pw |-> t[i], used |-> i + 2]
                 ELSE [res |-> "error", pw |-> "n/a", used |-> i + 2]

=============================================================================
