------------------------------ MODULE LockModel ------------------------------
(***************************************************************************)
(* C15: locked private keys over the symbolic algebra.                     *)
(*   Lock(sk, w, salt) = B64(65676B30 ++ salt ++                           *)
(*                          AEAD(SCRYPT(w, salt, 32768, 8, 1, 32), 0^12,   *)
(*                               ad = 65676B30, sk))      (WireFormat.tla) *)
(* A presented string is a record of the fields the unlocker sees, each    *)
(* either as sealed or altered.  TLC enumerates the case analysis of       *)
(* Unlock: which field was altered, which password is used.                *)
(***************************************************************************)
EXTENDS WireFormat, TLC, Json

Pw == {Sym("w"), Sym("w2")}
Kinds == {"unlock_good", "wrong_password", "version", "salt", "ciphertext", "tag", "length", "alphabet"}

VARIABLES kind, done
Init == kind \in Kinds /\ done = FALSE
Next == ~done /\ done' = TRUE /\ UNCHANGED kind
Spec == Init /\ [][Next]_<<kind, done>>

Sealed == [version |-> LockMagic, salt |-> Sym("salt"),
           body |-> Aead(Scrypt(Sym("w"), Sym("salt"), ScryptN, ScryptR, ScryptP, 32), Zeros(12), LockMagic, Sym("sk")),
           wellformed |-> TRUE]
Presented ==
  CASE kind = "version"    -> [Sealed EXCEPT !.version = Tampered(LockMagic)]
    [] kind = "salt"       -> [Sealed EXCEPT !.salt = Tampered(Sym("salt"))]
    [] kind = "ciphertext" -> [Sealed EXCEPT !.body = Tampered(Sealed.body)]
    [] kind = "tag"        -> [Sealed EXCEPT !.body = Tampered(Sealed.body)]
    [] kind \in {"length", "alphabet"} -> [Sealed EXCEPT !.wellformed = FALSE]
    [] OTHER -> Sealed
UsedPw == IF kind = "wrong_password" THEN Sym("w2") ELSE Sym("w")

\* unlock_private_key (keyring.rs:143-168): length, version, then AEAD under scrypt(password, salt)
Unlock(p, w) ==
  IF ~p.wellformed THEN Fail
  ELSE IF ~Eq(p.version, LockMagic) THEN Fail
  ELSE Open(Scrypt(w, p.salt, ScryptN, ScryptR, ScryptP, 32), Zeros(12), p.version, p.body)

Lossless == kind = "unlock_good" => Unlock(Presented, UsedPw) = Sym("sk")
TamperEvident == kind \in {"version", "salt", "ciphertext", "tag", "length", "alphabet"} => Unlock(Presented, UsedPw) = Fail
WrongPasswordFails == kind = "wrong_password" => Unlock(Presented, UsedPw) = Fail
Emit == done => PrintT(<<"REPLAY", ToJson([kind |-> kind, unlocks |-> (Unlock(Presented, UsedPw) # Fail)])>>)
=============================================================================
