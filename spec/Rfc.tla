--------------------------------- MODULE Rfc ---------------------------------
(***************************************************************************)
(* C19: the RFC definitions that are pure sequence manipulation over       *)
(* another exported primitive, as terms; and the case analysis of the      *)
(* AEAD / DH axioms the rest of the specification relies on.               *)
(*                                                                         *)
(*   HMAC (RFC 2104) over SHA256: block size 64, keys longer than the      *)
(*        block are hashed first, shorter ones zero padded, ipad 36, opad  *)
(*        5c.                                                              *)
(*   HKDF (RFC 5869) over HMAC: extract with the salt (32 zero bytes when  *)
(*        empty), expand T(i) = HMAC(PRK, T(i-1) ++ info ++ i), truncate.  *)
(*   PBKDF2 (RFC 8018) with one iteration over HMAC, which is the outer    *)
(*        layer of scrypt: the first 32 bytes of scrypt's output are       *)
(*        HMAC(P, B' ++ INT(1)) for the (opaque) mixed block B'.           *)
(***************************************************************************)
EXTENDS Terms, TLC, Json

\* ---- HMAC ----
HmacKeyBlock(key, klen) == IF klen > 64 THEN PadZero(Sha(key), 64) ELSE PadZero(key, 64)
HmacDef(key, klen, msg) ==
  LET k0 == HmacKeyBlock(key, klen)
  IN Sha(Cat(<<XorByte(k0, 92), Sha(Cat(<<XorByte(k0, 54), msg>>))>>))

\* ---- HKDF ----
TName(i) == "T" \o ToString(i)
HkdfBind(prk, info, i) ==
  [name |-> TName(i),
   val  |-> Hmac(prk, Cat(<<(IF i = 1 THEN Lit("") ELSE Sym(TName(i - 1))), info, Byte(i)>>))]
HkdfDef(salt, saltlen, ikm, info, len) ==
  LET n == (len + 31) \div 32
  IN Lets(<<[name |-> "PRK", val |-> Hmac(IF saltlen = 0 THEN Zeros(32) ELSE salt, ikm)]>>
          \o [i \in 1..n |-> HkdfBind(Sym("PRK"), info, i)],
          Slice(Cat([i \in 1..n |-> Sym(TName(i))]), 0, len))

\* ---- case analysis ----
KeyLens  == {0, 1, 31, 32, 63, 64, 65, 100, 130}
MsgLens  == {0, 1, 55, 56, 63, 64, 65, 119, 130}
HkdfLens == {1, 31, 32, 33, 64, 255, 8159, 8160}
SaltLens == {0, 1, 32, 64, 65}
InfoLens == {0, 1, 32, 100}

\* AEAD: what is changed between seal and open, and the plaintext / AD length class
AeadChanges == {"nothing", "key", "nonce", "ad", "ad_dropped", "ct_bit", "tag_bit", "truncated_1", "truncated_tag", "extended", "empty"}
\* (beyond the block sizes of ChaCha20 and Poly1305 also the sizes around one and two file chunks and a megabyte: the
\* exported seal / open are general RFC 8439 functions, not limited to what the file format puts into one chunk)
AeadLens    == {0, 1, 15, 16, 17, 63, 64, 65, 130, 65535, 65536, 65537, 65552, 131073, 1048577}
\* symbolic verdict of each change (Terms!Open)
AeadOpens(ch, adlen) ==
  LET sealedAd == IF adlen = 0 THEN Lit("") ELSE Sym("ad")
      c == Aead(Sym("k"), Sym("n"), sealedAd, Sym("m"))
      presented == CASE ch \in {"ct_bit", "tag_bit", "truncated_1", "truncated_tag", "extended", "empty"} -> Tampered(c)
                     [] OTHER -> c
      k  == IF ch = "key" THEN Sym("k2") ELSE Sym("k")
      n  == IF ch = "nonce" THEN Sym("n2") ELSE Sym("n")
      ad == IF ch = "ad" THEN Sym("ad2") ELSE IF ch = "ad_dropped" THEN Lit("") ELSE sealedAd
  IN Open(k, n, ad, presented) # Fail

\* DH: scalar classes and point classes
DhScalars == {"random", "zero", "ones", "low3set", "high_set", "high_clear"}
\* "reduces_mod_p": u = p + j (2 <= j <= 18), an encoding RFC 7748 section 5 requires to be accepted and taken
\* modulo p; "high_bit_masked": the most significant bit of u is ignored
DhPoints  == {"random", "base", "loworder", "noncanonical", "reduces_mod_p", "high_bit_masked"}

VARIABLES kind, c
Init ==
  \/ kind = "hmac" /\ c \in [klen : KeyLens, mlen : MsgLens]
  \/ kind = "hkdf" /\ c \in [saltlen : SaltLens, ikmlen : {0, 1, 32, 80}, infolen : InfoLens, len : HkdfLens]
  \/ kind = "aead" /\ c \in [change : AeadChanges, ptlen : AeadLens, adlen : {0, 1, 16, 40}]
  \/ kind = "dh"   /\ c \in [scalar : DhScalars, point : DhPoints]
Next == UNCHANGED <<kind, c>>
Spec == Init /\ [][Next]_<<kind, c>>

\* the symbolic algebra's verdicts, checked here so that the model and the replay share them
AeadExpect(x) == x.change = "nothing" \/ (x.change = "ad_dropped" /\ x.adlen = 0)
AeadAxiom == kind = "aead" => (AeadOpens(c.change, c.adlen) = AeadExpect(c))

Emit ==
  PrintT(<<"REPLAY", ToJson(
    CASE kind = "hmac" -> [kind |-> kind, c |-> c, term |-> HmacDef(Sym("key"), c.klen, Sym("msg"))]
      [] kind = "hkdf" -> [kind |-> kind, c |-> c, term |-> HkdfDef(Sym("salt"), c.saltlen, Sym("ikm"), Sym("info"), c.len)]
      [] kind = "aead" -> [kind |-> kind, c |-> c, opens |-> AeadOpens(c.change, c.adlen)]
      [] kind = "dh"   -> [kind |-> kind, c |-> c, fails |-> (c.point = "loworder")])>>)
=============================================================================
