-------------------------------- MODULE MC_Argv --------------------------------
EXTENDS Argv
VocabFull == {"encrypt", "enc", "decrypt", "dec", "key", "generate", "gen", "change-pass", "extract-pub", "password", "pass",
              "-t", "--to", "-f", "-o", "-k", "--keyring", "--env-pass", "-h", "--help", "-v", "--version",
              "x", "", "--", "-", "--bogus", "-to", "=", "NOFILE", "<NONUTF8>"}
\* "<NONUTF8>" stands for a word that is not valid UTF-8 (a file name from a Latin-1 locale); the harness puts the bytes in
VocabSmall == {"encrypt", "dec", "key", "gen", "change-pass", "extract-pub", "pass", "-t", "-f", "-o", "-k", "--env-pass",
               "-h", "-v", "x", "", "--", "--bogus", "<NONUTF8>"}
=============================================================================
