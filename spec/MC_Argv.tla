-------------------------------- MODULE MC_Argv --------------------------------
EXTENDS Argv
VocabFull == {"encrypt", "enc", "decrypt", "dec", "key", "generate", "gen", "change-pass", "extract-pub", "password", "pass",
              "-t", "--to", "-f", "-o", "-k", "--keyring", "--env-pass", "-h", "--help", "-v", "--version",
              "x", "", "--", "-", "--bogus", "-to", "=", "NOFILE"}
VocabSmall == {"encrypt", "dec", "key", "gen", "change-pass", "extract-pub", "pass", "-t", "-f", "-o", "-k", "--env-pass",
               "-h", "-v", "x", "", "--", "--bogus"}
=============================================================================
