----------------------------- MODULE EncLoopInd -----------------------------
(***************************************************************************)
(* Unbounded argument (Apalache) for two invariants of the encryptor loop  *)
(* that TLC checks only for small constants in EncLoop.tla:                *)
(*                                                                         *)
(*   NonceIsIndex  the k-th chunk is sealed under nonce k-1, each once     *)
(*                 (C07, within one file)                                  *)
(*   Lag           at most two chunks of input are consumed beyond what    *)
(*                 has been written (C11)                                  *)
(*                                                                         *)
(* This is EncLoop.tla projected to integers: positions and counters       *)
(* instead of sets of sealed records and sequences of sink items; one      *)
(* write action per record (partial accepts do not move these counters);   *)
(* any action may instead fail and end the run.  CS >= 1 and the           *)
(* plaintext length L >= 0 are arbitrary, so the result holds for ANY      *)
(* number of chunks.  IndInv is inductive: Init => IndInv and              *)
(* IndInv /\ Next => IndInv'.  MC_EncLoop checks with TLC that every step  *)
(* of EncLoop is a step of this module under the projection Proj*.         *)
(***************************************************************************)
EXTENDS Integers, IndDefs

CONSTANTS
  \* @type: Int;
  CS

VARIABLES
  \* @type: Int;
  L,          \* the plaintext length: a parameter (never changes), a variable so that MC_EncLoop can instantiate it
  \* @type: Str;
  pc,
  \* @type: Int;
  pos,
  \* @type: Int;
  covered,
  \* @type: Int;
  prevLen,
  \* @type: Int;
  numRead,
  \* @type: Bool;
  done,
  \* @type: Int;
  ctr,
  \* @type: Int;
  nsealed,
  \* @type: Int;
  lastNonce

\* the range of read sizes (all integers for Apalache; TLC overrides it with 0..CS)
Lens == Int

vars == <<L, pc, pos, covered, prevLen, numRead, done, ctr, nsealed, lastNonce>>

ConstInit == CS \in Nat /\ CS >= 1

Init == /\ L \in Nat /\ pc = "read0" /\ pos = 0 /\ covered = 0 /\ prevLen = 0 /\ numRead = 0 /\ done = FALSE
        /\ ctr = 0 /\ nsealed = 0 /\ lastNonce = -1

\* a conforming source: at most CS bytes, at most what remains, 0 only at end of data
ReadSize(n) == /\ n >= 0 /\ n <= CS /\ n <= L - pos
               /\ (n = 0 <=> pos = L)

ReadFirst == /\ pc = "read0"
             /\ \E n \in Lens : ReadSize(n) /\ prevLen' = n /\ pos' = pos + n /\ done' = (n = 0)
             /\ pc' = "read" /\ UNCHANGED <<L, covered, numRead, ctr, nsealed, lastNonce>>
ReadNext  == /\ pc = "read"
             /\ \E n \in Lens : ReadSize(n) /\ numRead' = n /\ pos' = pos + n /\ done' = (done \/ n = 0)
             /\ pc' = "seal" /\ UNCHANGED <<L, covered, prevLen, ctr, nsealed, lastNonce>>
Seal      == /\ pc = "seal" /\ lastNonce' = ctr /\ nsealed' = nsealed + 1 /\ pc' = "write"
             /\ UNCHANGED <<L, pos, covered, prevLen, numRead, done, ctr>>
WriteRec  == /\ pc = "write" /\ covered' = covered + prevLen
             /\ IF done THEN pc' = "end" /\ UNCHANGED <<prevLen, ctr>>
                ELSE pc' = "read" /\ prevLen' = numRead /\ ctr' = ctr + 1
             /\ UNCHANGED <<L, pos, numRead, done, nsealed, lastNonce>>
Fail      == /\ pc \in {"read0", "read", "seal", "write"} /\ pc' = "failed"
             /\ UNCHANGED <<L, pos, covered, prevLen, numRead, done, ctr, nsealed, lastNonce>>
Stutter   == pc \in {"end", "failed"} /\ UNCHANGED vars
Next == ReadFirst \/ ReadNext \/ Seal \/ WriteRec \/ Fail \/ Stutter

\* ---- the properties ----
NonceIsIndex == /\ (pc = "write" => lastNonce = nsealed - 1)      \* the seal just made used nonce (#seals - 1)
                /\ (pc \in {"read", "seal"} => ctr = nsealed)      \* the next seal will use nonce #seals
Lag == pos - covered <= 2 * CS

\* ---- inductive invariant ----
IndInv == EncIndInv(CS, L, pc, pos, covered, prevLen, numRead, done, ctr, nsealed, lastNonce)   \* IndDefs.tla
\* for the consecution step every variable must be assigned before it is constrained
IndInit == /\ L \in Int /\ pc \in {"read0", "read", "seal", "write", "end", "failed"}
           /\ pos \in Int /\ covered \in Int /\ prevLen \in Int /\ numRead \in Int /\ done \in BOOLEAN
           /\ ctr \in Int /\ nsealed \in Int /\ lastNonce \in Int
           /\ IndInv
Safety == NonceIsIndex /\ Lag
IndImpliesSafety == IndInv => Safety
=============================================================================
