----------------------------- MODULE DecLoopInd -----------------------------
(***************************************************************************)
(* Unbounded argument (Apalache) for the decryptor loop of DecLoop.tla,    *)
(* projected to integers: an input whose first A records are authentic in  *)
(* position (A >= 0 arbitrary, record lengths arbitrary in 0..CS) and      *)
(* whose record A+1, if any, does not open.  `final` says whether record A *)
(* carries the last-chunk flag and the input ends after it.                *)
(*                                                                         *)
(*   ReleasedIsAuthenticPrefix  plaintext accepted by the sink never       *)
(*        exceeds the plaintext of records authenticated so far (C04)      *)
(*   AcceptMeansComplete        success only after record A, flagged       *)
(*        final, verified and end of data was seen (C03, C04)              *)
(*   WholeChunks                without a write fault the output ends on   *)
(*        a chunk boundary                                                 *)
(* for ANY number of chunks.                                               *)
(***************************************************************************)
EXTENDS Integers

CONSTANTS
  \* @type: Int;
  CS,
  \* @type: Int;
  A,
  \* @type: Bool;
  final

VARIABLES
  \* @type: Str;
  pc,
  \* @type: Int;
  j,
  \* @type: Int;
  len,
  \* @type: Int;
  authBytes,
  \* @type: Int;
  out,
  \* @type: Int;
  wrem,
  \* @type: Bool;
  eofSeen,
  \* @type: Str;
  res

ConstInit == CS \in Nat /\ CS >= 1 /\ A \in Nat /\ final \in BOOLEAN

Init == pc = "rhdr" /\ j = 1 /\ len = 0 /\ authBytes = 0 /\ out = 0 /\ wrem = 0 /\ eofSeen = FALSE /\ res = "run"

\* read the header and body of record j; its length field is any value
ReadRec == /\ pc = "rhdr"
           /\ IF j > A /\ final
              THEN \* nothing follows the final record: read_exact hits end of data (only reachable if the loop continued)
                   pc' = "end" /\ res' = "err_read" /\ UNCHANGED <<len, eofSeen>>
              ELSE \E n \in Int : n >= 0 /\ n <= CS /\ len' = n /\ pc' = "open" /\ UNCHANGED <<res, eofSeen>>
           /\ UNCHANGED <<j, authBytes, out, wrem>>
\* AEAD open with the running index: records 1..A open, record A+1 does not
Open == /\ pc = "open"
        /\ IF j <= A
           THEN /\ authBytes' = authBytes + len
                /\ IF j = A /\ final THEN pc' = "probe" ELSE pc' = "write"
                /\ wrem' = len /\ UNCHANGED res
           ELSE pc' = "end" /\ res' = "err_auth" /\ UNCHANGED <<authBytes, wrem>>
        /\ UNCHANGED <<j, len, out, eofSeen>>
\* after the final record: a read must return 0
Probe == /\ pc = "probe" /\ eofSeen' = TRUE /\ pc' = "write"
         /\ UNCHANGED <<j, len, authBytes, out, wrem, res>>
\* write_all: the sink accepts 1..wrem bytes per call (or the chunk is empty)
Write == /\ pc = "write"
         /\ IF wrem = 0 THEN pc' = "flush" /\ UNCHANGED <<out, wrem>>
            ELSE \E n \in Int : n >= 1 /\ n <= wrem /\ out' = out + n /\ wrem' = wrem - n
                              /\ pc' = (IF n = wrem THEN "flush" ELSE "write")
         /\ UNCHANGED <<j, len, authBytes, eofSeen, res>>
Flush == /\ pc = "flush"
         /\ IF j = A /\ final THEN pc' = "end" /\ res' = "ok" /\ UNCHANGED j
            ELSE pc' = "rhdr" /\ j' = j + 1 /\ UNCHANGED res
         /\ UNCHANGED <<len, authBytes, out, wrem, eofSeen>>
\* an I/O fault at any call ends the run with an error
Fail == /\ pc \in {"rhdr", "open", "probe", "write", "flush"} /\ pc' = "end"
        /\ res' = (IF pc \in {"write", "flush"} THEN "err_write" ELSE "err_read")
        /\ UNCHANGED <<j, len, authBytes, out, wrem, eofSeen>>
Stutter == pc = "end" /\ UNCHANGED <<pc, j, len, authBytes, out, wrem, eofSeen, res>>
Next == ReadRec \/ Open \/ Probe \/ Write \/ Flush \/ Fail \/ Stutter

\* ---- the properties ----
ReleasedIsAuthenticPrefix == out <= authBytes
AcceptMeansComplete == res = "ok" => (final /\ j = A /\ A >= 1 /\ eofSeen /\ out = authBytes)
WholeChunks == (pc = "end" /\ res # "err_write") => out = authBytes \/ res = "err_read" \/ res = "err_auth"
Safety == ReleasedIsAuthenticPrefix /\ AcceptMeansComplete

\* ---- inductive invariant ----
IndInv ==
  /\ pc \in {"rhdr", "open", "probe", "write", "flush", "end"}
  /\ j >= 1 /\ len >= 0 /\ len <= CS /\ authBytes >= 0 /\ out >= 0 /\ wrem >= 0
  /\ res \in {"run", "ok", "err_read", "err_write", "err_auth"}
  /\ (pc # "end" => res = "run")
  /\ (pc \in {"rhdr", "open"} => out = authBytes /\ j <= A + 1)
  /\ (pc \in {"probe", "write"} => out + wrem = authBytes /\ j <= A)
  /\ (pc = "flush" => out = authBytes /\ j <= A)
  /\ (pc = "probe" => j = A /\ final)
  /\ ((pc \in {"write", "flush"} /\ j = A /\ final) => eofSeen)
  /\ out <= authBytes
  /\ (res = "ok" => final /\ j = A /\ A >= 1 /\ eofSeen /\ out = authBytes)
IndInit == /\ pc \in {"rhdr", "open", "probe", "write", "flush", "end"}
           /\ j \in Int /\ len \in Int /\ authBytes \in Int /\ out \in Int /\ wrem \in Int /\ eofSeen \in BOOLEAN
           /\ res \in {"run", "ok", "err_read", "err_write", "err_auth"}
           /\ IndInv
=============================================================================
